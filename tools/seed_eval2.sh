#!/bin/bash
# usage: tools/seed_eval2.sh <ID> [check ids...]
# Like seed_eval.sh, but never touches /repo: confirms a sub-agent's seeded change in its scratch
# worktree /tmp/wt/<ID> (ID may carry a round letter, e.g. C05b), copies it to /verif/seeded/<ID>/,
# and runs the named checks (default: the property's own) from a scratch copy of /verif whose
# harness module is pointed at the worktree. Safe to run while other checks use /repo.
set -u
id=$1; shift
prop=${id%[a-z]}
checks=${@:-$prop}
wt=/tmp/wt/$id
sc=/tmp/ve/$id
export GOFLAGS=-mod=mod GOPROXY=off GOSUMDB=off GOTOOLCHAIN=local
PKGS="./p9/... ./vecnet/... ./linux/... ./fsimpl/localfs/... ./fsimpl/qids/... ./fsimpl/staticfs/... ./fsimpl/composefs/..."
cd $wt || exit 2
place=$(python3 -c "import json;print(json.load(open('SEED/meta.json'))['demo']['place_at'])")
run=$(python3 -c "import json;print(json.load(open('SEED/meta.json'))['demo']['run'])")
files=$(grep '^+++ b/' SEED/patch.diff | sed 's#^+++ b/##')
echo "== $id: files changed: $files ; demo at $place ; run: $run"
git diff --quiet -- $files && { echo "patch not applied in worktree; applying"; git apply SEED/patch.diff || exit 2; }
[ -f "$place" ] || cp SEED/demo_test.go "$place"
go build ./... || { echo "SEED-EVAL $id: does not build"; exit 1; }
mv "$place" /tmp/wt/$id.demo.hold
t_with=$(go test -vet=off -count=1 $PKGS 2>&1 | grep -c '^FAIL')
mv /tmp/wt/$id.demo.hold "$place"
d_with=$(eval "$run -count=1 -vet=off" >/tmp/wt/$id.demo_with.log 2>&1; echo $?)
git checkout -- $files
d_without=$(eval "$run -count=1 -vet=off" >/tmp/wt/$id.demo_without.log 2>&1; echo $?)
git apply SEED/patch.diff
echo "existing-tests-failing-packages-with-patch=$t_with demo-exit-with-patch=$d_with demo-exit-without-patch=$d_without"
if [ "$t_with" != "0" ] || [ "$d_with" = "0" ] || [ "$d_without" != "0" ]; then echo "SEED-EVAL $id: NOT CONFIRMED"; exit 1; fi
mkdir -p /verif/seeded/$id && cp SEED/patch.diff SEED/meta.json SEED/demo_test.go /verif/seeded/$id/ 2>/dev/null
cp SEED/PROPERTY.txt SEED/FOCUS.txt /verif/seeded/$id/ 2>/dev/null
# the demo must not be part of the tree the checks build against
mv "$place" /tmp/wt/$id.demo.hold
rm -rf $sc; mkdir -p $sc
rsync -a --exclude .git --exclude .build --exclude out --exclude replays /verif/ $sc/
sed -i "s#=> /repo#=> $wt#" $sc/harness/go.mod
res=""
for c in $checks; do
  cd $sc; out=$(timeout 3000 ./check $c quick 2>&1); rc=$?
  echo "$out" | grep -a -E "^C[0-9]+ quick|^  \[|INFRA|BUILD" | cut -c1-400 | head -4
  res="$res $c:exit$rc"
done
mv /tmp/wt/$id.demo.hold "$wt/$place"
rm -rf $sc
echo "SEED-EVAL $id: CONFIRMED; checks:$res"
cd /verif; python3 - "$id" "$res" <<'PY'
import json,sys
p='/verif/seeded/%s/meta.json'%sys.argv[1]
m=json.load(open(p))
m['confirmed']={'existing_tests_pass_with_patch':True,'demo_fails_with_patch':True,'demo_passes_without_patch':True,
 'how':'tools/seed_eval2.sh in the scratch worktree /tmp/wt/%s (go build, existing package tests, demo with and without the patch)'%sys.argv[1]}
m['checks_run']=m.get('checks_run',{})
for kv in sys.argv[2].split():
    k,v=kv.split(':'); m['checks_run'][k]={'tier':'quick','exit':int(v.replace('exit','')),'detected':v=='exit1'}
json.dump(m,open(p,'w'),indent=1)
PY
