#!/usr/bin/env python3
import json, sys, glob, jsonschema
ms = json.load(open('/root/.vp/MANIFEST.schema.json')); es = json.load(open('/root/.vp/EVIDENCE.schema.json'))
jsonschema.validate(json.load(open('/verif/MANIFEST.json')), ms)
for f in sorted(glob.glob('/verif/evidence/*.json')):
    jsonschema.validate(json.load(open(f)), es)
    print('ok', f)
print('manifest ok')
