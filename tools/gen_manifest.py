#!/usr/bin/env python3
"""Generate MANIFEST.json from props.json (single source of truth for the driver)."""
import json, os, subprocess
ROOT = os.path.dirname(os.path.dirname(os.path.abspath(__file__)))
props = json.load(open(os.path.join(ROOT, "props.json")))
all_ids = [json.loads(l)["id"] for l in open(os.path.join(ROOT, "properties.jsonl"))]
try:
    hooks = subprocess.run(["git", "-C", "/repo", "log", "--format=%H", "--grep=^verif:"], capture_output=True, text=True).stdout.split()
except Exception:
    hooks = []
checks = []
for pid in all_ids:
    c = props["properties"].get(pid)
    if not c or c.get("disabled"):
        continue
    checks.append({
        "property_id": pid,
        "quick_cmd": "./check %s quick" % pid,
        "thorough_cmd": "./check %s thorough" % pid,
        "evidence_file": "/verif/evidence/%s.json" % pid,
        "replay_cmd_template": "./check %s --replay {path}" % pid,
        "engine": "p9verif-harness",
        "level_claimed": {"category": c["level"], "text": c.get("level_text", ""), "design_ref": c.get("design_ref", "DESIGN.md section 4, " + pid)},
        "level_note": c.get("level_note", ""),
        "technique": c.get("technique", "property-based testing (rapid) with an explicit oracle"),
    })
na = []
for pid in all_ids:
    c = props["properties"].get(pid)
    if not c or c.get("disabled"):
        na.append({"property_id": pid, "reason": (c or {}).get("disabled") or "check not built yet (work in progress); see DESIGN.md"})
m = {
    "version": 1,
    "setup_cmd": "./check --build",
    "hooks": {
        "guard": "verif",
        "enable": "go build tag: the driver compiles /repo with `go test -c -tags verif` (harness/go.mod replaces github.com/hugelgupf/p9 with /repo)",
        "baseline_off_cmd": "cd /repo && GOFLAGS=-mod=mod GOPROXY=off GOSUMDB=off go test -json -vet=off -count=1 -timeout 25m ./...",
        "source_commits": hooks,
        "add_only": True,
    },
    "engines": [{
        "name": "p9verif-harness", "path": "/verif/harness", "serves_properties": [c["property_id"] for c in checks],
        "kind_free_text": "Go test binary built from /repo's working tree: rapid v1.3.0 generators/state machines, bounded-exhaustive enumerations, native go fuzzing (thorough), independent reference codec, reference session model, instrumented backend with gates and fault plans, harness-owned transports; python3 driver ./check merges shard statistics into evidence",
    }],
    "checks": checks,
    "not_applicable": na,
    "notes": "All checks: exit 0 = held, exit 1 + VIOLATION line = violation, exit 2 = infrastructure trouble (never a verdict). known_findings.json lists recorded/fixed defects.",
}
json.dump(m, open(os.path.join(ROOT, "MANIFEST.json"), "w"), indent=1)
print("checks:", [c["property_id"] for c in checks], "n/a:", [n["property_id"] for n in na])
