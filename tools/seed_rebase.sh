#!/bin/bash
# usage: tools/seed_rebase.sh <ID>
# Moves the scratch worktree /tmp/wt/<ID> of a finished sub-agent to /repo's current HEAD (fix: and
# verif: commits made since the worktree was created), keeping its change applied.
set -u
id=$1
cd /tmp/wt/$id || exit 2
head=$(git -C /repo rev-parse HEAD)
[ "$(git rev-parse HEAD)" = "$head" ] && { echo "$id: already at $head"; exit 0; }
git apply -R SEED/patch.diff || { echo "$id: cannot take the patch out"; exit 1; }
git checkout -q --detach $head || { echo "$id: checkout failed"; exit 1; }
git apply SEED/patch.diff || { echo "$id: patch does not apply to the new HEAD"; exit 1; }
echo "$id: moved to $head"
