#!/bin/bash
# usage: tools/mutant.sh <patch.diff> <PROP> [tier]   — apply a seeded change to /repo, run a check, undo.
set -u
patch=$(readlink -f "$1"); prop=$2; tier=${3:-quick}
cd /repo || exit 2
if [ -n "$(git status --porcelain)" ]; then echo "repo dirty; refusing"; exit 2; fi
git apply "$patch" || { echo "patch does not apply"; exit 2; }
trap 'git -C /repo checkout -- . ; git -C /repo clean -fdq' EXIT
cd /verif && timeout 3600 ./check "$prop" "$tier"
rc=$?
echo "MUTANT-RESULT patch=$(basename $(dirname $patch)) prop=$prop tier=$tier exit=$rc"
exit $rc
