#!/bin/bash
# usage: tools/seed_eval.sh <ID> [check ids...]  — confirm a sub-agent's seeded change in its scratch worktree,
# copy it to /verif/seeded/<ID>/, run the named checks (default: the property's own) against it in /repo, undo.
set -u
id=$1; shift
checks=${@:-$id}
wt=/tmp/wt/$id
export GOFLAGS=-mod=mod GOPROXY=off GOSUMDB=off GOTOOLCHAIN=local
PKGS="./p9/... ./vecnet/... ./linux/... ./fsimpl/localfs/... ./fsimpl/qids/... ./fsimpl/staticfs/... ./fsimpl/composefs/..."
cd $wt || exit 2
place=$(python3 -c "import json;print(json.load(open('SEED/meta.json'))['demo']['place_at'])")
run=$(python3 -c "import json;print(json.load(open('SEED/meta.json'))['demo']['run'])")
files=$(grep '^+++ b/' SEED/patch.diff | sed 's#^+++ b/##')
echo "== $id: files changed: $files ; demo at $place ; run: $run"
# state with patch applied?
git diff --quiet -- $files && { echo "patch not applied in worktree; applying"; git apply SEED/patch.diff || exit 2; }
[ -f "$place" ] || cp SEED/demo_test.go "$place"
go build ./... || { echo "SEED-EVAL $id: does not build"; exit 1; }
# existing tests, demo excluded
mv "$place" /tmp/wt/$id.demo.hold
t_with=$(go test -vet=off -count=1 $PKGS 2>&1 | grep -c '^FAIL')
mv /tmp/wt/$id.demo.hold "$place"
d_with=$(eval "$run -count=1 -vet=off" >/tmp/wt/$id.demo_with.log 2>&1; echo $?)
git checkout -- $files
d_without=$(eval "$run -count=1 -vet=off" >/tmp/wt/$id.demo_without.log 2>&1; echo $?)
git apply SEED/patch.diff
echo "existing-tests-failing-packages-with-patch=$t_with demo-exit-with-patch=$d_with demo-exit-without-patch=$d_without"
if [ "$t_with" != "0" ] || [ "$d_with" = "0" ] || [ "$d_without" != "0" ]; then echo "SEED-EVAL $id: NOT CONFIRMED"; exit 1; fi
mkdir -p /verif/seeded/$id && cp SEED/patch.diff SEED/meta.json SEED/demo_test.go /verif/seeded/$id/ 2>/dev/null
cp SEED/PROPERTY.txt /verif/seeded/$id/ 2>/dev/null
cd /repo || exit 2
if [ -n "$(git status --porcelain)" ]; then echo "repo dirty"; exit 2; fi
git apply /verif/seeded/$id/patch.diff || { echo "patch does not apply to /repo"; exit 2; }
res=""
for c in $checks; do
  cd /verif; out=$(timeout 3000 ./check $c quick 2>&1); rc=$?
  echo "$out" | grep -a -E "^C[0-9]+ quick|^  \[|INFRA" | cut -c1-300 | head -4
  res="$res $c:exit$rc"
done
git -C /repo checkout -- . ; git -C /repo clean -fdq
echo "SEED-EVAL $id: CONFIRMED; checks:$res"
python3 - "$id" "$res" <<'PY'
import json,sys
p='/verif/seeded/%s/meta.json'%sys.argv[1]
m=json.load(open(p))
m['confirmed']={'existing_tests_pass_with_patch':True,'demo_fails_with_patch':True,'demo_passes_without_patch':True,
 'how':'tools/seed_eval.sh in the scratch worktree /tmp/wt/%s (go build, existing package tests, demo with and without the patch)'%sys.argv[1]}
m['checks_run']=m.get('checks_run',{})
for kv in sys.argv[2].split():
    k,v=kv.split(':'); m['checks_run'][k]={'tier':'quick','exit':int(v.replace('exit','')),'detected':v=='exit1'}
json.dump(m,open(p,'w'),indent=1)
PY
