#!/bin/bash
# usage: tools/seed_rerun.sh <seed-id> [check ids...]
# Re-runs the checks against a stored seeded change without touching /repo: a scratch worktree of
# /repo's HEAD under /tmp/wt.rerun/<id> gets seeded/<id>/patch.diff applied, a scratch copy of /verif
# is pointed at it, the checks (default: the property's own, quick tier) run there, and both are removed.
# Prints "SEED-RERUN <id>: <check>:exit<rc> ..." (exit1 = detected) and updates seeded/<id>/meta.json.
set -u
id=$1; shift
prop=${id%[a-z]}
checks=${@:-$prop}
wt=/tmp/wt.rerun/$id
sc=/tmp/ve.rerun/$id
export GOFLAGS=-mod=mod GOPROXY=off GOSUMDB=off GOTOOLCHAIN=local
rm -rf $wt $sc; mkdir -p /tmp/wt.rerun /tmp/ve.rerun
git -C /repo worktree prune
git -C /repo worktree add --detach -f $wt HEAD >/dev/null 2>&1 || { echo "SEED-RERUN $id: cannot create worktree"; exit 2; }
cleanup() { cd /; rm -rf $sc; git -C /repo worktree remove --force $wt >/dev/null 2>&1; rm -rf $wt; git -C /repo worktree prune; }
trap cleanup EXIT
cd $wt
if ! git apply /verif/seeded/$id/patch.diff 2>/dev/null; then
  if ! git apply -3 /verif/seeded/$id/patch.diff >/dev/null 2>&1; then echo "SEED-RERUN $id: patch no longer applies to HEAD"; exit 3; fi
fi
go build ./... || { echo "SEED-RERUN $id: does not build"; exit 3; }
mkdir -p $sc
rsync -a --exclude .git --exclude .build --exclude out --exclude replays /verif/ $sc/
sed -i "s#=> /repo#=> $wt#" $sc/harness/go.mod
res=""
for c in $checks; do
  cd $sc; out=$(timeout 3000 ./check $c quick 2>&1); rc=$?
  echo "$out" | grep -a -E "^C[0-9]+ quick|^  \[|INFRA|BUILD" | cut -c1-300 | head -3
  res="$res $c:exit$rc"
done
echo "SEED-RERUN $id:$res"
cd /verif; python3 - "$id" "$res" <<'PY'
import json,sys
p='/verif/seeded/%s/meta.json'%sys.argv[1]
m=json.load(open(p))
m['checks_run']=m.get('checks_run',{})
for kv in sys.argv[2].split():
    k,v=kv.split(':'); m['checks_run'][k]={'tier':'quick','exit':int(v.replace('exit','')),'detected':v=='exit1'}
json.dump(m,open(p,'w'),indent=1)
PY
