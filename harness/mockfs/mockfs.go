// Package mockfs is a scripted recording backend: every method records its
// arguments (copied at call time) and returns values queued beforehand by the
// check. It has no file system semantics of its own.
package mockfs

import (
	"sync"

	"github.com/hugelgupf/p9/linux"
	"github.com/hugelgupf/p9/p9"
)

// Rec is one recorded call.
type Rec struct {
	Op   string
	File int // id of the receiver (0 for Attach)
	// arguments, by kind
	Names  []string
	Name   string
	Name2  string
	U      []uint64
	Data   []byte
	Other  int // id of a File argument
	Mask   p9.AttrMask
	SMask  p9.SetAttrMask
	SAttr  p9.SetAttr
	New    int // id of the File returned
}

// Result is what a scripted call returns.
type Result struct {
	Err     error
	QID     p9.QID
	QIDs    []p9.QID
	Valid   p9.AttrMask
	Attr    p9.Attr
	IOUnit  uint32
	N       int
	Data    []byte
	Str     string
	Strs    []string
	Ents    p9.Dirents
	FSStat  p9.FSStat
	Status  p9.LockStatus
	NewMode p9.FileMode // mode of a File produced by Walk/WalkGetAttr/Create (default: directory)
}

// Mock is the shared state of one mock file system.
type Mock struct {
	mu     sync.Mutex
	calls  []Rec
	queue  map[string][]*Result
	nfiles int
	// Native: WalkGetAttr is implemented (otherwise ENOSYS so that the server
	// falls back to Walk + GetAttr).
	Native bool
	// DefaultMode is the mode reported for files whose mode was not scripted.
	DefaultMode p9.FileMode
	closed      map[int]int
}

// New returns a mock whose files are directories by default.
func New(native bool) *Mock {
	return &Mock{queue: map[string][]*Result{}, Native: native, DefaultMode: p9.ModeDirectory | 0o755, closed: map[int]int{}}
}

// File is a p9.File of the mock.
type File struct {
	m    *Mock
	ID   int
	Mode p9.FileMode
}

// Push queues a result for the next call of op.
func (m *Mock) Push(op string, r *Result) {
	m.mu.Lock()
	m.queue[op] = append(m.queue[op], r)
	m.mu.Unlock()
}

// Calls returns a copy of the recorded calls from index from on.
func (m *Mock) Calls(from int) []Rec {
	m.mu.Lock()
	defer m.mu.Unlock()
	if from > len(m.calls) {
		from = len(m.calls)
	}
	return append([]Rec(nil), m.calls[from:]...)
}

// NCalls returns the number of recorded calls.
func (m *Mock) NCalls() int {
	m.mu.Lock()
	defer m.mu.Unlock()
	return len(m.calls)
}

func (m *Mock) rec(r Rec) (*Result, int) {
	m.mu.Lock()
	defer m.mu.Unlock()
	var res *Result
	if q := m.queue[r.Op]; len(q) > 0 {
		res = q[0]
		m.queue[r.Op] = q[1:]
	}
	m.calls = append(m.calls, r)
	return res, len(m.calls) - 1
}

func (m *Mock) setNew(idx, id int) {
	m.mu.Lock()
	m.calls[idx].New = id
	m.mu.Unlock()
}

func (m *Mock) newFile(mode p9.FileMode) *File {
	m.mu.Lock()
	m.nfiles++
	id := m.nfiles
	m.mu.Unlock()
	if mode == 0 {
		mode = m.DefaultMode
	}
	return &File{m: m, ID: id, Mode: mode}
}

// Attach implements p9.Attacher.
func (m *Mock) Attach() (p9.File, error) {
	res, idx := m.rec(Rec{Op: "Attach"})
	if res != nil && res.Err != nil {
		return nil, res.Err
	}
	f := m.newFile(p9.ModeDirectory | 0o755)
	m.setNew(idx, f.ID)
	return f, nil
}

func cp(b []byte) []byte        { return append([]byte{}, b...) }
func cps(s []string) []string   { return append([]string{}, s...) }
func fid(f p9.File) int {
	if mf, ok := f.(*File); ok {
		return mf.ID
	}
	return -1
}

// Walk implements p9.File.
func (f *File) Walk(names []string) ([]p9.QID, p9.File, error) {
	res, idx := f.m.rec(Rec{Op: "Walk", File: f.ID, Names: cps(names)})
	if res != nil && res.Err != nil {
		return nil, nil, res.Err
	}
	mode := f.Mode
	var qids []p9.QID
	if res != nil {
		qids = res.QIDs
		if res.NewMode != 0 {
			mode = res.NewMode
		}
	} else if len(names) > 0 {
		for range names {
			qids = append(qids, p9.QID{Type: p9.TypeDir, Path: uint64(f.ID)})
		}
		mode = f.m.DefaultMode
	}
	nf := f.m.newFile(mode)
	f.m.setNew(idx, nf.ID)
	return qids, nf, nil
}

// WalkGetAttr implements p9.File.
func (f *File) WalkGetAttr(names []string) ([]p9.QID, p9.File, p9.AttrMask, p9.Attr, error) {
	if !f.m.Native {
		return nil, nil, p9.AttrMask{}, p9.Attr{}, linux.ENOSYS
	}
	res, idx := f.m.rec(Rec{Op: "WalkGetAttr", File: f.ID, Names: cps(names)})
	if res != nil && res.Err != nil {
		return nil, nil, p9.AttrMask{}, p9.Attr{}, res.Err
	}
	mode := f.Mode
	var qids []p9.QID
	valid, attr := p9.AttrMaskAll, p9.Attr{}
	if res != nil {
		qids, valid, attr = res.QIDs, res.Valid, res.Attr
		mode = attr.Mode
		if res.NewMode != 0 {
			mode = res.NewMode
		}
	} else {
		if len(names) > 0 {
			for range names {
				qids = append(qids, p9.QID{Type: p9.TypeDir, Path: uint64(f.ID)})
			}
			mode = f.m.DefaultMode
		}
		attr.Mode = mode
	}
	nf := f.m.newFile(mode)
	f.m.setNew(idx, nf.ID)
	return qids, nf, valid, attr, nil
}

// StatFS implements p9.File.
func (f *File) StatFS() (p9.FSStat, error) {
	res, _ := f.m.rec(Rec{Op: "StatFS", File: f.ID})
	if res == nil {
		return p9.FSStat{}, nil
	}
	return res.FSStat, res.Err
}

// GetAttr implements p9.File.
func (f *File) GetAttr(req p9.AttrMask) (p9.QID, p9.AttrMask, p9.Attr, error) {
	res, _ := f.m.rec(Rec{Op: "GetAttr", File: f.ID, Mask: req})
	if res == nil {
		return p9.QID{Type: f.Mode.QIDType(), Path: uint64(f.ID)}, p9.AttrMaskAll, p9.Attr{Mode: f.Mode}, nil
	}
	return res.QID, res.Valid, res.Attr, res.Err
}

// SetAttr implements p9.File.
func (f *File) SetAttr(valid p9.SetAttrMask, attr p9.SetAttr) error {
	res, _ := f.m.rec(Rec{Op: "SetAttr", File: f.ID, SMask: valid, SAttr: attr})
	if res == nil {
		return nil
	}
	return res.Err
}

// Close implements p9.File.
func (f *File) Close() error {
	res, _ := f.m.rec(Rec{Op: "Close", File: f.ID})
	f.m.mu.Lock()
	f.m.closed[f.ID]++
	f.m.mu.Unlock()
	if res == nil {
		return nil
	}
	return res.Err
}

// Open implements p9.File.
func (f *File) Open(mode p9.OpenFlags) (p9.QID, uint32, error) {
	res, _ := f.m.rec(Rec{Op: "Open", File: f.ID, U: []uint64{uint64(mode)}})
	if res == nil {
		return p9.QID{Type: f.Mode.QIDType(), Path: uint64(f.ID)}, 0, nil
	}
	return res.QID, res.IOUnit, res.Err
}

// ReadAt implements p9.File.
func (f *File) ReadAt(p []byte, offset int64) (int, error) {
	res, _ := f.m.rec(Rec{Op: "ReadAt", File: f.ID, U: []uint64{uint64(offset), uint64(len(p))}})
	if res == nil {
		return 0, nil
	}
	n := copy(p, res.Data)
	return n, res.Err
}

// WriteAt implements p9.File.
func (f *File) WriteAt(p []byte, offset int64) (int, error) {
	res, _ := f.m.rec(Rec{Op: "WriteAt", File: f.ID, U: []uint64{uint64(offset)}, Data: cp(p)})
	if res == nil {
		return len(p), nil
	}
	return res.N, res.Err
}

// SetXattr implements p9.File.
func (f *File) SetXattr(attr string, data []byte, flags p9.XattrFlags) error {
	res, _ := f.m.rec(Rec{Op: "SetXattr", File: f.ID, Name: attr, Data: cp(data), U: []uint64{uint64(flags)}})
	if res == nil {
		return nil
	}
	return res.Err
}

// GetXattr implements p9.File.
func (f *File) GetXattr(attr string) ([]byte, error) {
	res, _ := f.m.rec(Rec{Op: "GetXattr", File: f.ID, Name: attr})
	if res == nil {
		return nil, nil
	}
	return cp(res.Data), res.Err
}

// ListXattrs implements p9.File.
func (f *File) ListXattrs() ([]string, error) {
	res, _ := f.m.rec(Rec{Op: "ListXattrs", File: f.ID})
	if res == nil {
		return nil, nil
	}
	return cps(res.Strs), res.Err
}

// RemoveXattr implements p9.File.
func (f *File) RemoveXattr(attr string) error {
	res, _ := f.m.rec(Rec{Op: "RemoveXattr", File: f.ID, Name: attr})
	if res == nil {
		return nil
	}
	return res.Err
}

// FSync implements p9.File.
func (f *File) FSync() error {
	res, _ := f.m.rec(Rec{Op: "FSync", File: f.ID})
	if res == nil {
		return nil
	}
	return res.Err
}

// Lock implements p9.File.
func (f *File) Lock(pid int, locktype p9.LockType, flags p9.LockFlags, start, length uint64, client string) (p9.LockStatus, error) {
	res, _ := f.m.rec(Rec{Op: "Lock", File: f.ID, Name: client, U: []uint64{uint64(int64(pid)), uint64(locktype), uint64(flags), start, length}})
	if res == nil {
		return p9.LockStatusOK, nil
	}
	return res.Status, res.Err
}

// Create implements p9.File.
func (f *File) Create(name string, flags p9.OpenFlags, permissions p9.FileMode, uid p9.UID, gid p9.GID) (p9.File, p9.QID, uint32, error) {
	res, idx := f.m.rec(Rec{Op: "Create", File: f.ID, Name: name, U: []uint64{uint64(flags), uint64(permissions), uint64(uid), uint64(gid)}})
	if res != nil && res.Err != nil {
		return nil, p9.QID{}, 0, res.Err
	}
	nf := f.m.newFile(p9.ModeRegular | 0o644)
	f.m.setNew(idx, nf.ID)
	if res == nil {
		return nf, p9.QID{Path: uint64(nf.ID)}, 0, nil
	}
	return nf, res.QID, res.IOUnit, nil
}

// Mkdir implements p9.File.
func (f *File) Mkdir(name string, permissions p9.FileMode, uid p9.UID, gid p9.GID) (p9.QID, error) {
	res, _ := f.m.rec(Rec{Op: "Mkdir", File: f.ID, Name: name, U: []uint64{uint64(permissions), uint64(uid), uint64(gid)}})
	if res == nil {
		return p9.QID{}, nil
	}
	return res.QID, res.Err
}

// Symlink implements p9.File.
func (f *File) Symlink(oldName string, newName string, uid p9.UID, gid p9.GID) (p9.QID, error) {
	res, _ := f.m.rec(Rec{Op: "Symlink", File: f.ID, Name: newName, Name2: oldName, U: []uint64{uint64(uid), uint64(gid)}})
	if res == nil {
		return p9.QID{}, nil
	}
	return res.QID, res.Err
}

// Link implements p9.File.
func (f *File) Link(target p9.File, newName string) error {
	res, _ := f.m.rec(Rec{Op: "Link", File: f.ID, Name: newName, Other: fid(target)})
	if res == nil {
		return nil
	}
	return res.Err
}

// Mknod implements p9.File.
func (f *File) Mknod(name string, mode p9.FileMode, major uint32, minor uint32, uid p9.UID, gid p9.GID) (p9.QID, error) {
	res, _ := f.m.rec(Rec{Op: "Mknod", File: f.ID, Name: name, U: []uint64{uint64(mode), uint64(major), uint64(minor), uint64(uid), uint64(gid)}})
	if res == nil {
		return p9.QID{}, nil
	}
	return res.QID, res.Err
}

// Rename implements p9.File (never called on the server).
func (f *File) Rename(newDir p9.File, newName string) error {
	f.m.rec(Rec{Op: "Rename", File: f.ID, Name: newName, Other: fid(newDir)})
	return linux.EINVAL
}

// RenameAt implements p9.File.
func (f *File) RenameAt(oldName string, newDir p9.File, newName string) error {
	res, _ := f.m.rec(Rec{Op: "RenameAt", File: f.ID, Name: oldName, Name2: newName, Other: fid(newDir)})
	if res == nil {
		return nil
	}
	return res.Err
}

// UnlinkAt implements p9.File.
func (f *File) UnlinkAt(name string, flags uint32) error {
	res, _ := f.m.rec(Rec{Op: "UnlinkAt", File: f.ID, Name: name, U: []uint64{uint64(flags)}})
	if res == nil {
		return nil
	}
	return res.Err
}

// Readdir implements p9.File.
func (f *File) Readdir(offset uint64, count uint32) (p9.Dirents, error) {
	res, _ := f.m.rec(Rec{Op: "Readdir", File: f.ID, U: []uint64{offset, uint64(count)}})
	if res == nil {
		return nil, nil
	}
	return append(p9.Dirents{}, res.Ents...), res.Err
}

// Readlink implements p9.File.
func (f *File) Readlink() (string, error) {
	res, _ := f.m.rec(Rec{Op: "Readlink", File: f.ID})
	if res == nil {
		return "", nil
	}
	return res.Str, res.Err
}

// Renamed implements p9.File.
func (f *File) Renamed(newDir p9.File, newName string) {
	f.m.rec(Rec{Op: "Renamed", File: f.ID, Name: newName, Other: fid(newDir)})
}

var _ p9.File = (*File)(nil)
var _ p9.Attacher = (*Mock)(nil)
