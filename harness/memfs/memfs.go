// Package memfs is the instrumented backend the harness owns completely. Its
// ground truth is a memtree.Tree; every p9.File it hands out is a path-based
// Handle (like localfs: the path string is only updated through Renamed), and
// every call is logged, counted, checked for lifecycle anomalies, monitored
// for forbidden overlaps, and can be failed, made to panic, or held at a gate.
package memfs

import (
	"errors"
	"fmt"
	"io"
	"os"
	"strings"
	"sync"
	"syscall"

	"p9verif/memtree"

	"github.com/hugelgupf/p9/linux"
	"github.com/hugelgupf/p9/p9"
)

// Call is one logged backend call.
type Call struct {
	Seq         int    // 1-based global call index
	Handle      int    // receiver handle id (0 for Attach)
	Op          string // method name
	Path        string // receiver's path string at entry
	Kind        uint32 // file type the receiver was created with
	Name        string // name argument (create/mkdir/.../unlinkat/renameat old name)
	Name2       string // second name (renameat new name, symlink target)
	Names       []string
	Other       int // second handle (Link target, RenameAt new dir, Renamed parent)
	Args        []uint64
	Data        []byte         // copied payload / xattr value
	obj         *memtree.Inode // the object the File stands for (monitor)
	victim      *memtree.Inode // UnlinkAt: the object about to be removed (monitor)
	victimKnown bool
	New         int  // id of a handle this call created (0 if none)
	Errno       int  // result errno (0 = success); -1 while running
	Closed      bool // receiver was already closed at entry (use after close)
	Armed       bool // a request was outstanding when the call was made
	exitSeq     int
}

func (c *Call) String() string {
	s := fmt.Sprintf("#%d h%d(%s).%s", c.Seq, c.Handle, c.Path, c.Op)
	if c.Name != "" || c.Name2 != "" {
		s += fmt.Sprintf("(%q,%q)", c.Name, c.Name2)
	}
	if c.Names != nil {
		s += fmt.Sprintf("%q", c.Names)
	}
	if c.Other != 0 {
		s += fmt.Sprintf(" other=h%d", c.Other)
	}
	if c.New != 0 {
		s += fmt.Sprintf(" ->h%d", c.New)
	}
	if c.Errno > 0 {
		s += fmt.Sprintf(" errno=%d", c.Errno)
	}
	return s
}

// Fault is an injected failure.
type Fault struct {
	Panic bool
	Err   error // returned when !Panic
}

// StepCall is a backend call stopped by the stepper, at its entry or (UnlinkAt
// and RenameAt only: Exit) after it has changed the tree and before it returns
// to the server; closing Go lets it proceed.
type StepCall struct {
	C    *Call
	Exit bool
	Go   chan struct{}
}

// Gate holds matching calls inside the backend until released.
type Gate struct {
	Match   func(c *Call) bool
	Entered chan *Call    // receives the call when it arrives at the gate
	release chan struct{} // closed by Release
	once    sync.Once
	Repeat  bool // hold every matching call, not only the first
	After   bool // hold the call after it has produced its result (ReadAt/WriteAt only), not on entry
	fired   bool
}

// NewGate builds a one-shot gate.
func NewGate(match func(c *Call) bool) *Gate {
	return &Gate{Match: match, Entered: make(chan *Call, 64), release: make(chan struct{})}
}

// Release lets held (and future) calls through.
func (g *Gate) Release() { g.once.Do(func() { close(g.release) }) }

// Anomaly is a lifecycle or contract breach seen by the backend itself.
type Anomaly struct {
	Kind string // use-after-close | double-close | second-open | overlap | fenced-path-reached
	A, B string // calls involved
	Sig  string // stable signature
}

// Options configure a FS.
type Options struct {
	NativeWalkGetAttr bool // false: WalkGetAttr returns ENOSYS (server falls back to Walk+GetAttr)
	TailEOF           bool // ReadAt returns io.EOF together with the data when it reaches the end of the file (as os.File does)
	Monitor           bool // run the overlap monitor
	KeepLog           bool // keep the full call log (default true via New)
	PartialMaskDirs   bool // with PartialMask: directories (the root included) too
	PartialMask       bool // the attribute mask of everything but directories comes back without Mode (the File contract allows partial masks; the attributes themselves are filled in)
}

// FS is one instrumented file system instance.
type FS struct {
	treeMu sync.Mutex
	Tree   *memtree.Tree

	mu            sync.Mutex
	opts          Options
	seq           int
	log           []*Call
	handles       map[int]*Handle
	nextH         int
	faults        map[int]Fault // by call Seq
	faultOps      map[string]Fault
	gates         []*Gate
	active        map[*Call]bool
	anomalies     []Anomaly
	armed         bool
	armedSeq      int              // number of calls made while armed
	faultArmedIdx map[int]Fault    // by armed-call index (1-based)
	faultNext     map[string]Fault // one-shot, by "Op path"
	stepper       chan *StepCall   // when set, every call stops at its entry and is announced here
	// IOUnit is what Open and Create announce as iounit (0: nothing, as most backends)
	IOUnit  uint32
	Perturb func(c *Call)
	// LateHook runs as the very last thing of a Walk / WalkGetAttr call, after all
	// bookkeeping of this backend (a check can line up several calls there so that
	// they return into the server at the same instant)
	LateHook func(c *Call)
	// IOScript lets a check shorten or fail individual ReadAt/WriteAt calls:
	// it returns the maximum count to transfer (-1 = no limit) and an error.
	IOScript  func(op string, idx int, off int64, n int) (limit int, err error)
	ioIdx     int
	maxInside int
	fired     *Call
	attachErr error
	// ErrWrap converts an errno into the error value the backend returns.
	ErrWrap func(errno int) error
}

// New returns a FS over a fresh tree (call memtree.Populate on fs.Tree as needed).
func New(o Options) *FS {
	return &FS{Tree: memtree.New(), opts: o, handles: map[int]*Handle{}, faults: map[int]Fault{},
		faultArmedIdx: map[int]Fault{}, active: map[*Call]bool{}}
}

// Attach implements p9.Attacher.
func (fs *FS) Attach() (p9.File, error) {
	c := &Call{Op: "Attach", Path: ""}
	if f := fs.enter(nil, c); f != nil {
		return nil, fs.fail(c, f)
	}
	h := fs.newHandle("", memtree.TDir)
	c.New = h.ID
	fs.exit(c, 0)
	return h, nil
}

// Handle is a p9.File.
type Handle struct {
	fs             *FS
	ID             int
	mu             sync.Mutex
	path           string // "" is the root, otherwise "/a/b"
	kind           uint32
	ino            *memtree.Inode // captured at Open/Create
	opened         bool
	closed         bool
	closes         int
	usedAfterClose int
	opens          int
	born           *memtree.Inode // the object this File was handed out for (nil: unknown)
}

// fencedOps are the calls the server must not make on a File whose entry has
// been unlinked or replaced (walks with names, opens and everything that goes
// by the path); getattr, I/O on open files, clones and Close go on.
var fencedOps = map[string]bool{"Open": true, "Create": true, "Symlink": true, "Link": true, "RenameAt": true, "UnlinkAt": true,
	"Readlink": true, "Mknod": true, "Mkdir": true, "SetAttr": true, "GetXattr": true, "ListXattrs": true, "Readdir": true}

// checkFenced flags a path-dependent call on a File whose path no longer leads
// to the object it was handed out for. Only with Options.Monitor.
func (fs *FS) checkFenced(h *Handle, c *Call) {
	if h == nil || !fs.opts.Monitor {
		return
	}
	if !(fencedOps[c.Op] || ((c.Op == "Walk" || c.Op == "WalkGetAttr") && len(c.Names) > 0)) {
		return
	}
	h.mu.Lock()
	born, path := h.born, h.path
	h.mu.Unlock()
	if born == nil {
		return
	}
	fs.treeMu.Lock()
	now, e := fs.Tree.Resolve(split(path))
	fs.treeMu.Unlock()
	if e == 0 && now == born {
		return
	}
	fs.mu.Lock()
	fs.anomalies = append(fs.anomalies, Anomaly{Kind: "fenced-path-reached", A: c.String(), Sig: "fenced-path-reached:" + c.Op})
	fs.mu.Unlock()
}

func (fs *FS) newHandle(path string, kind uint32) *Handle {
	fs.mu.Lock()
	fs.nextH++
	h := &Handle{fs: fs, ID: fs.nextH, path: path, kind: kind}
	fs.handles[h.ID] = h
	fs.mu.Unlock()
	return h
}

func split(path string) []string {
	if path == "" {
		return nil
	}
	return strings.Split(path[1:], "/")
}

// enter logs the call, applies the fault plan, runs the monitor and gates.
func (fs *FS) enter(h *Handle, c *Call) *Fault {
	if h != nil && fs.opts.Monitor {
		// which object the File stands for, and which object an UnlinkAt is about to
		// remove: the monitor compares objects, not path strings (a File on a
		// deleted entry keeps a path that a new entry may have taken since)
		h.mu.Lock()
		c.obj = h.born
		hp := h.path
		h.mu.Unlock()
		if c.Op == "UnlinkAt" {
			fs.treeMu.Lock()
			if dir, e := fs.Tree.Resolve(split(hp)); e == 0 {
				c.victimKnown = true // victim stays nil when there is no such entry
				if v, e := memtree.Lookup(dir, c.Name); e == 0 {
					c.victim = v
				}
			}
			fs.treeMu.Unlock()
		}
	}
	fs.mu.Lock()
	fs.seq++
	c.Seq = fs.seq
	c.Errno = -1
	c.Armed = fs.armed
	if h != nil {
		c.Handle = h.ID
		h.mu.Lock()
		c.Path = h.path
		c.Kind = h.kind
		c.Closed = h.closed
		if h.closed && c.Op != "Close" {
			h.usedAfterClose++
			fs.anomalies = append(fs.anomalies, Anomaly{Kind: "use-after-close", A: c.String(), Sig: "use-after-close:" + c.Op})
		}
		h.mu.Unlock()
	}
	fs.log = append(fs.log, c)
	var fault *Fault
	if f, ok := fs.faults[c.Seq]; ok {
		fault = &f
	}
	if f, ok := fs.faultNext[c.Op+" "+c.Path]; ok {
		delete(fs.faultNext, c.Op+" "+c.Path)
		fault = &f
	}
	if fs.armed {
		fs.armedSeq++
		if f, ok := fs.faultArmedIdx[fs.armedSeq]; ok {
			fault = &f
		}
	}
	if fault != nil {
		cp := *c
		fs.fired = &cp
	}
	if c.Op == "Close" && h != nil {
		for o := range fs.active {
			if o.Handle == h.ID && o.Op != "Close" {
				fs.anomalies = append(fs.anomalies, Anomaly{Kind: "close-during-call", A: o.String(), B: c.String(), Sig: "close-during-call:" + o.Op})
			}
		}
	}
	if fs.opts.Monitor {
		for o := range fs.active {
			if why := Conflict(o, c); why != "" {
				fs.anomalies = append(fs.anomalies, Anomaly{Kind: "overlap", A: o.String(), B: c.String(),
					Sig: "overlap:" + o.Op + "/" + c.Op + ":" + why})
			}
		}
	}
	fs.active[c] = true
	if len(fs.active) > fs.maxInside {
		fs.maxInside = len(fs.active)
	}
	var hold []*Gate
	for _, g := range fs.gates {
		if !g.After && (!g.fired || g.Repeat) && g.Match(c) {
			g.fired = true
			hold = append(hold, g)
		}
	}
	perturb := fs.Perturb
	stepper := fs.stepper
	fs.mu.Unlock()
	if stepper != nil {
		sc := &StepCall{C: c, Go: make(chan struct{})}
		stepper <- sc
		<-sc.Go
	}
	// (judged when the call goes ahead: while it is stopped here the entry can only
	// disappear if the server let the removal in beside it)
	fs.checkFenced(h, c)
	for _, g := range hold {
		select {
		case g.Entered <- c:
		default:
		}
		<-g.release
	}
	if perturb != nil {
		perturb(c)
	}
	return fault
}

// after holds a call that has produced its result at the matching after-gates.
func (fs *FS) after(c *Call) {
	fs.mu.Lock()
	var hold []*Gate
	for _, g := range fs.gates {
		if g.After && (!g.fired || g.Repeat) && g.Match(c) {
			g.fired = true
			hold = append(hold, g)
		}
	}
	fs.mu.Unlock()
	for _, g := range hold {
		select {
		case g.Entered <- c:
		default:
		}
		<-g.release
	}
}

func (fs *FS) exit(c *Call, errno int) {
	if c.Op == "UnlinkAt" || c.Op == "RenameAt" {
		fs.mu.Lock()
		stepper := fs.stepper
		fs.mu.Unlock()
		if stepper != nil {
			// the entry is gone (or moved) and the server has not been told yet
			sc := &StepCall{C: c, Exit: true, Go: make(chan struct{})}
			stepper <- sc
			<-sc.Go
		}
	}
	fs.mu.Lock()
	c.Errno = errno
	delete(fs.active, c)
	fs.mu.Unlock()
}

// fail finishes a call with an injected fault.
func (fs *FS) fail(c *Call, f *Fault) error {
	if f.Panic {
		fs.exit(c, -2)
		panic(fmt.Sprintf("memfs: injected panic in %s", c))
	}
	fs.exit(c, int(ErrnoOf(f.Err)))
	return f.Err
}

func (fs *FS) errOf(errno int) error {
	if errno == 0 {
		return nil
	}
	if fs.ErrWrap != nil {
		return fs.ErrWrap(errno)
	}
	return linux.Errno(errno)
}

// ErrnoOf is the harness's own reading of an error value: the first
// linux.Errno or syscall.Errno in the chain, else the errno of the four os
// sentinel errors, else EIO. (Written independently of linux.ExtractErrno.)
func ErrnoOf(err error) int {
	if err == nil {
		return 0
	}
	for e := err; e != nil; {
		switch v := e.(type) {
		case linux.Errno:
			return int(v)
		case syscall.Errno:
			return int(v)
		}
		switch u := e.(type) {
		case interface{ Unwrap() error }:
			e = u.Unwrap()
		case interface{ Unwrap() []error }:
			es := u.Unwrap()
			e = nil
			for _, x := range es {
				if n := ErrnoOf(x); n != memtree.EIO {
					return n
				}
			}
		default:
			e = nil
		}
	}
	switch {
	case errors.Is(err, os.ErrNotExist):
		return memtree.ENOENT
	case errors.Is(err, os.ErrExist):
		return memtree.EEXIST
	case errors.Is(err, os.ErrPermission):
		return 13
	case errors.Is(err, os.ErrInvalid):
		return memtree.EINVAL
	}
	return memtree.EIO
}

// ---------------------------------------------------------------------------
// control surface for checks

// ResetIO restarts the numbering of ReadAt/WriteAt calls seen by IOScript.
func (fs *FS) ResetIO() {
	fs.mu.Lock()
	fs.ioIdx = 0
	fs.mu.Unlock()
}

// SetStepper makes every backend call stop at its entry (it counts as inside
// the backend from then on) and announce itself on ch; the owner of ch decides
// which of the stopped calls proceeds next by closing its Go. nil switches the
// stepper off (calls already stopped stay stopped until their Go is closed).
func (fs *FS) SetStepper(ch chan *StepCall) {
	fs.mu.Lock()
	fs.stepper = ch
	fs.mu.Unlock()
}

// StepPoint stops the calling goroutine at the stepper like a backend call (if a
// stepper is set): for points of the server's request handling outside the
// backend that a check wants to own (library hook, build tag verif).
func (fs *FS) StepPoint(name string) {
	fs.mu.Lock()
	stepper := fs.stepper
	fs.seq++
	c := &Call{Op: "(" + name + ")", Seq: fs.seq, Errno: -1}
	fs.mu.Unlock()
	if stepper != nil {
		sc := &StepCall{C: c, Exit: false, Go: make(chan struct{})}
		stepper <- sc
		<-sc.Go
	}
}

// FailNext makes the next call of op on the File at path fail with errno.
func (fs *FS) FailNext(op, path string, errno int) {
	fs.mu.Lock()
	if fs.faultNext == nil {
		fs.faultNext = map[string]Fault{}
	}
	fs.faultNext[op+" "+path] = Fault{Err: linux.Errno(errno)}
	fs.mu.Unlock()
}

// PanicNext makes the next call of op on the File at path panic.
func (fs *FS) PanicNext(op, path string) {
	fs.mu.Lock()
	if fs.faultNext == nil {
		fs.faultNext = map[string]Fault{}
	}
	fs.faultNext[op+" "+path] = Fault{Panic: true}
	fs.mu.Unlock()
}

// Arm marks that a request is outstanding (faults indexed by armed-call
// number only strike while armed).
func (fs *FS) Arm(on bool) {
	fs.mu.Lock()
	fs.armed = on
	fs.mu.Unlock()
}

// FaultAtArmed injects a fault at the k-th call made while armed (1-based).
func (fs *FS) FaultAtArmed(k int, f Fault) {
	fs.mu.Lock()
	fs.faultArmedIdx[k] = f
	fs.mu.Unlock()
}

// Fired returns the call at which an injected fault struck (nil if none yet).
func (fs *FS) Fired() *Call {
	fs.mu.Lock()
	defer fs.mu.Unlock()
	return fs.fired
}

// ArmedCalls returns the number of calls made while armed.
func (fs *FS) ArmedCalls() int {
	fs.mu.Lock()
	defer fs.mu.Unlock()
	return fs.armedSeq
}

// AddGate arms a gate.
func (fs *FS) AddGate(g *Gate) {
	fs.mu.Lock()
	fs.gates = append(fs.gates, g)
	fs.mu.Unlock()
}

// ClearGates releases and removes all gates.
func (fs *FS) ClearGates() {
	fs.mu.Lock()
	gs := fs.gates
	fs.gates = nil
	fs.mu.Unlock()
	for _, g := range gs {
		g.Release()
	}
}

// Seq returns the number of calls made so far.
func (fs *FS) Seq() int {
	fs.mu.Lock()
	defer fs.mu.Unlock()
	return fs.seq
}

// LogSince returns copies of the calls with Seq > after.
func (fs *FS) LogSince(after int) []Call {
	fs.mu.Lock()
	defer fs.mu.Unlock()
	var out []Call
	for _, c := range fs.log {
		if c.Seq > after {
			out = append(out, *c)
		}
	}
	return out
}

// Inside returns the calls currently inside the backend.
func (fs *FS) Inside() []Call {
	fs.mu.Lock()
	defer fs.mu.Unlock()
	var out []Call
	for c := range fs.active {
		out = append(out, *c)
	}
	return out
}

// MaxInside returns the largest number of calls that were ever inside at once.
func (fs *FS) MaxInside() int {
	fs.mu.Lock()
	defer fs.mu.Unlock()
	return fs.maxInside
}

// Anomalies returns the anomalies recorded so far.
func (fs *FS) Anomalies() []Anomaly {
	fs.mu.Lock()
	defer fs.mu.Unlock()
	return append([]Anomaly(nil), fs.anomalies...)
}

// HandleInfo is a snapshot of a handle's lifecycle state.
type HandleInfo struct {
	ID             int
	Path           string
	Kind           uint32
	Opened         bool
	Closed         bool
	Closes         int
	UsedAfterClose int
	Opens          int
}

// Handles returns a snapshot of every handle ever handed out.
func (fs *FS) Handles() []HandleInfo {
	fs.mu.Lock()
	hs := make([]*Handle, 0, len(fs.handles))
	for _, h := range fs.handles {
		hs = append(hs, h)
	}
	fs.mu.Unlock()
	out := make([]HandleInfo, 0, len(hs))
	for _, h := range hs {
		h.mu.Lock()
		out = append(out, HandleInfo{h.ID, h.path, h.kind, h.opened, h.closed, h.closes, h.usedAfterClose, h.opens})
		h.mu.Unlock()
	}
	return out
}

// LiveAtPath reports whether the object handle id was bound to is still the
// entry at the handle's current path (known=false: the handle has no recorded
// object, e.g. the attach root).
func (fs *FS) LiveAtPath(id int) (live, known bool) {
	fs.mu.Lock()
	h := fs.handles[id]
	fs.mu.Unlock()
	if h == nil {
		return false, false
	}
	h.mu.Lock()
	born, path := h.born, h.path
	h.mu.Unlock()
	if born == nil {
		return false, false
	}
	fs.treeMu.Lock()
	now, e := fs.Tree.Resolve(split(path))
	fs.treeMu.Unlock()
	return e == 0 && now == born, true
}

// WhereIs returns every path at which the object handle id was bound to is
// linked in the tree now, and the path the handle believes it has.
func (fs *FS) WhereIs(id int) (objPaths []string, handlePath string, known bool) {
	fs.mu.Lock()
	h := fs.handles[id]
	fs.mu.Unlock()
	if h == nil {
		return nil, "", false
	}
	h.mu.Lock()
	born, path := h.born, h.path
	h.mu.Unlock()
	if born == nil {
		return nil, path, false
	}
	fs.treeMu.Lock()
	defer fs.treeMu.Unlock()
	var walk func(dir *memtree.Inode, at string)
	walk = func(dir *memtree.Inode, at string) {
		for _, n := range memtree.Names(dir) {
			c := dir.Children[n]
			if c == born {
				objPaths = append(objPaths, at+"/"+n)
			}
			if c.IsDir() {
				walk(c, at+"/"+n)
			}
		}
	}
	walk(fs.Tree.Root, "")
	return objPaths, path, true
}

// HandleByID returns one handle's snapshot.
func (fs *FS) HandleByID(id int) (HandleInfo, bool) {
	fs.mu.Lock()
	h := fs.handles[id]
	fs.mu.Unlock()
	if h == nil {
		return HandleInfo{}, false
	}
	h.mu.Lock()
	defer h.mu.Unlock()
	return HandleInfo{h.ID, h.path, h.kind, h.opened, h.closed, h.closes, h.usedAfterClose, h.opens}, true
}

// ---------------------------------------------------------------------------
// conflict predicate of the File concurrency contract (DESIGN appendix D)

func class(op string) string {
	switch op {
	case "Walk", "WalkGetAttr", "Open", "ReadAt", "WriteAt", "GetAttr", "Readdir", "Readlink", "FSync":
		return "read"
	case "Create", "Mkdir", "Symlink", "Link", "Mknod", "UnlinkAt", "SetAttr":
		return "write"
	case "RenameAt", "Renamed":
		return "global"
	}
	return "none"
}

// Conflict returns a non-empty reason when two calls must not be inside the
// backend at the same time.
func Conflict(a, b *Call) string {
	ca, cb := class(a.Op), class(b.Op)
	if ca == "none" || cb == "none" {
		return ""
	}
	if ca == "global" || cb == "global" {
		return "global"
	}
	same := a.Path == b.Path
	if a.obj != nil && b.obj != nil {
		same = a.obj == b.obj
	}
	if (ca == "write" || cb == "write") && same {
		return "same-path"
	}
	victimOf := func(u, o *Call) bool {
		if u.Op != "UnlinkAt" {
			return false
		}
		if u.victimKnown && (u.victim == nil || o.obj != nil) {
			return u.victim != nil && o.obj == u.victim
		}
		return o.Path == u.Path+"/"+u.Name
	}
	if victimOf(a, b) || victimOf(b, a) {
		return "unlinked-entry"
	}
	return ""
}

// ---------------------------------------------------------------------------
// p9.File implementation

func (h *Handle) resolve() (*memtree.Inode, int) {
	h.mu.Lock()
	p := h.path
	h.mu.Unlock()
	return h.fs.Tree.Resolve(split(p))
}

func qidOf(i *memtree.Inode) p9.QID {
	return p9.QID{Type: p9.QIDType(memtree.QIDType(i.Type)), Path: i.ID}
}

func attrOf(i *memtree.Inode) p9.Attr {
	a := memtree.AttrOf(i)
	return p9.Attr{
		Mode: p9.FileMode(a[0]), UID: p9.UID(a[1]), GID: p9.GID(a[2]), NLink: p9.NLink(a[3]),
		RDev: p9.Dev(a[4]), Size: a[5], BlockSize: a[6], Blocks: a[7],
		ATimeSeconds: a[8], ATimeNanoSeconds: a[9], MTimeSeconds: a[10], MTimeNanoSeconds: a[11],
		CTimeSeconds: a[12], CTimeNanoSeconds: a[13], BTimeSeconds: a[14], BTimeNanoSeconds: a[15],
		Gen: a[16], DataVersion: a[17],
	}
}

// Walk implements p9.File.
func (h *Handle) Walk(names []string) ([]p9.QID, p9.File, error) {
	c := &Call{Op: "Walk", Names: append([]string{}, names...)}
	if f := h.fs.enter(h, c); f != nil {
		return nil, nil, h.fs.fail(c, f)
	}
	qids, nh, errno := h.walk(names)
	if nh != nil {
		c.New = nh.ID
	}
	h.fs.exit(c, errno)
	if lh := h.fs.LateHook; lh != nil {
		lh(c)
	}
	if errno != 0 {
		return nil, nil, h.fs.errOf(errno)
	}
	return qids, nh, nil
}

func (h *Handle) walk(names []string) ([]p9.QID, *Handle, int) {
	h.fs.treeMu.Lock()
	defer h.fs.treeMu.Unlock()
	h.mu.Lock()
	path := h.path
	kind := h.kind
	h.mu.Unlock()
	if len(names) == 0 {
		nh := h.fs.newHandle(path, kind)
		h.mu.Lock()
		nh.born = h.born
		h.mu.Unlock()
		return nil, nh, 0
	}
	cur, e := h.fs.Tree.Resolve(split(path))
	if e != 0 {
		return nil, nil, e
	}
	var qids []p9.QID
	for _, n := range names {
		next, e := memtree.Lookup(cur, n)
		if e != 0 {
			return nil, nil, e
		}
		qids = append(qids, qidOf(next))
		path += "/" + n
		cur = next
	}
	nh := h.fs.newHandle(path, cur.Type)
	nh.born = cur
	return qids, nh, 0
}

// WalkGetAttr implements p9.File.
func (h *Handle) WalkGetAttr(names []string) ([]p9.QID, p9.File, p9.AttrMask, p9.Attr, error) {
	if !h.fs.opts.NativeWalkGetAttr {
		// not logged as a call of its own: the contract lets a backend decline
		return nil, nil, p9.AttrMask{}, p9.Attr{}, linux.ENOSYS
	}
	c := &Call{Op: "WalkGetAttr", Names: append([]string{}, names...)}
	if f := h.fs.enter(h, c); f != nil {
		return nil, nil, p9.AttrMask{}, p9.Attr{}, h.fs.fail(c, f)
	}
	qids, nh, errno := h.walk(names)
	var attr p9.Attr
	if errno == 0 {
		c.New = nh.ID
		h.fs.treeMu.Lock()
		i, e := nh.resolve()
		if e != 0 {
			errno = e
		} else {
			attr = attrOf(i)
		}
		h.fs.treeMu.Unlock()
	}
	h.fs.exit(c, errno)
	if lh := h.fs.LateHook; lh != nil && errno == 0 {
		lh(c)
	}
	if errno != 0 {
		if nh != nil {
			nh.markClosedInternal()
		}
		return nil, nil, p9.AttrMask{}, p9.Attr{}, h.fs.errOf(errno)
	}
	mask := p9.AttrMaskAll
	if h.fs.opts.PartialMask && (!attr.Mode.IsDir() || h.fs.opts.PartialMaskDirs) {
		mask.Mode = false
	}
	return qids, nh, mask, attr, nil
}

// markClosedInternal retires a handle that was never handed to the server.
func (h *Handle) markClosedInternal() {
	h.mu.Lock()
	h.closed = true
	h.closes++
	h.mu.Unlock()
}

// StatFS implements p9.File.
func (h *Handle) StatFS() (p9.FSStat, error) {
	c := &Call{Op: "StatFS"}
	if f := h.fs.enter(h, c); f != nil {
		return p9.FSStat{}, h.fs.fail(c, f)
	}
	h.fs.exit(c, 0)
	st := memtree.StatFS
	return p9.FSStat{Type: uint32(st[0]), BlockSize: uint32(st[1]), Blocks: st[2], BlocksFree: st[3], BlocksAvailable: st[4],
		Files: st[5], FilesFree: st[6], FSID: st[7], NameLength: uint32(st[8])}, nil
}

// GetAttr implements p9.File. It always resolves the path string, so a stale
// path is observable.
func (h *Handle) GetAttr(req p9.AttrMask) (p9.QID, p9.AttrMask, p9.Attr, error) {
	c := &Call{Op: "GetAttr"}
	if f := h.fs.enter(h, c); f != nil {
		return p9.QID{}, p9.AttrMask{}, p9.Attr{}, h.fs.fail(c, f)
	}
	h.fs.treeMu.Lock()
	i, e := h.resolve()
	var q p9.QID
	var a p9.Attr
	if e == 0 {
		q, a = qidOf(i), attrOf(i)
	}
	h.fs.treeMu.Unlock()
	h.fs.exit(c, e)
	if e != 0 {
		return p9.QID{}, p9.AttrMask{}, p9.Attr{}, h.fs.errOf(e)
	}
	mask := p9.AttrMaskAll
	if h.fs.opts.PartialMask && (!a.Mode.IsDir() || h.fs.opts.PartialMaskDirs) {
		mask.Mode = false
	}
	return q, mask, a, nil
}

// SetAttr implements p9.File.
func (h *Handle) SetAttr(valid p9.SetAttrMask, attr p9.SetAttr) error {
	c := &Call{Op: "SetAttr", Args: []uint64{uint64(attr.Permissions), uint64(attr.UID), uint64(attr.GID), attr.Size}}
	if f := h.fs.enter(h, c); f != nil {
		return h.fs.fail(c, f)
	}
	h.fs.treeMu.Lock()
	i, e := h.resolve()
	if e == 0 {
		if valid.Permissions {
			i.Perm = uint32(attr.Permissions) & 0o7777
		}
		if valid.UID {
			i.UID = uint32(attr.UID)
		}
		if valid.GID {
			i.GID = uint32(attr.GID)
		}
		if valid.Size {
			if i.Type == memtree.TReg {
				i.Truncate(attr.Size)
			} else {
				e = memtree.EINVAL
			}
		}
	}
	h.fs.treeMu.Unlock()
	h.fs.exit(c, e)
	return h.fs.errOf(e)
}

// Close implements p9.File.
func (h *Handle) Close() error {
	c := &Call{Op: "Close"}
	f := h.fs.enter(h, c)
	h.mu.Lock()
	h.closes++
	if h.closed {
		h.mu.Unlock()
		h.fs.mu.Lock()
		h.fs.anomalies = append(h.fs.anomalies, Anomaly{Kind: "double-close", A: c.String(), Sig: "double-close"})
		h.fs.mu.Unlock()
	} else {
		h.closed = true
		h.mu.Unlock()
	}
	if f != nil {
		return h.fs.fail(c, f)
	}
	h.fs.exit(c, 0)
	return nil
}

// Open implements p9.File.
func (h *Handle) Open(mode p9.OpenFlags) (p9.QID, uint32, error) {
	c := &Call{Op: "Open", Args: []uint64{uint64(mode)}}
	if f := h.fs.enter(h, c); f != nil {
		return p9.QID{}, 0, h.fs.fail(c, f)
	}
	h.mu.Lock()
	h.opens++
	second := h.opens > 1
	h.mu.Unlock()
	if second {
		h.fs.mu.Lock()
		h.fs.anomalies = append(h.fs.anomalies, Anomaly{Kind: "second-open", A: c.String(), Sig: "second-open"})
		h.fs.mu.Unlock()
	}
	h.fs.treeMu.Lock()
	i, e := h.resolve()
	var q p9.QID
	if e == 0 {
		q = qidOf(i)
		h.mu.Lock()
		h.ino = i
		h.opened = true
		h.mu.Unlock()
	}
	h.fs.treeMu.Unlock()
	h.fs.exit(c, e)
	if e != 0 {
		return p9.QID{}, 0, h.fs.errOf(e)
	}
	return q, h.fs.IOUnit, nil
}

func (h *Handle) captured() *memtree.Inode {
	h.mu.Lock()
	defer h.mu.Unlock()
	return h.ino
}

// ReadAt implements p9.File.
func (h *Handle) ReadAt(p []byte, offset int64) (int, error) {
	c := &Call{Op: "ReadAt", Args: []uint64{uint64(offset), uint64(len(p))}}
	if f := h.fs.enter(h, c); f != nil {
		return 0, h.fs.fail(c, f)
	}
	limit, serr := h.ioScript("ReadAt", offset, len(p))
	i := h.captured()
	n, e := 0, 0
	var err error
	switch {
	case serr != nil:
		err = serr
		e = int(ErrnoOf(serr))
	case i == nil:
		e = memtree.EBADF
	case i.Type == memtree.TDir:
		e = memtree.EISDIR
	default:
		buf := p
		if limit >= 0 && limit < len(buf) {
			buf = buf[:limit]
		}
		h.fs.treeMu.Lock()
		n = i.ReadAt(buf, uint64(offset))
		atEnd := uint64(offset)+uint64(n) >= i.Size
		h.fs.treeMu.Unlock()
		if n == 0 && len(p) > 0 && limit != 0 {
			err = io.EOF
		}
		if h.fs.opts.TailEOF && atEnd && n < len(buf) {
			err = io.EOF
		}
	}
	h.fs.after(c)
	c.Args = append(c.Args, uint64(n))
	h.fs.exit(c, e)
	if e != 0 && err == nil {
		err = h.fs.errOf(e)
	}
	return n, err
}

// WriteAt implements p9.File.
func (h *Handle) WriteAt(p []byte, offset int64) (int, error) {
	c := &Call{Op: "WriteAt", Args: []uint64{uint64(offset), uint64(len(p))}, Data: append([]byte{}, p...)}
	if f := h.fs.enter(h, c); f != nil {
		return 0, h.fs.fail(c, f)
	}
	limit, serr := h.ioScript("WriteAt", offset, len(p))
	i := h.captured()
	n, e := 0, 0
	var err error
	switch {
	case serr != nil:
		err = serr
		e = int(ErrnoOf(serr))
	case i == nil:
		e = memtree.EBADF
	case i.Type == memtree.TDir:
		e = memtree.EISDIR
	default:
		buf := p
		if limit >= 0 && limit < len(buf) {
			buf = buf[:limit]
		}
		h.fs.treeMu.Lock()
		n = i.WriteAt(buf, uint64(offset))
		h.fs.treeMu.Unlock()
	}
	c.Args = append(c.Args, uint64(n))
	h.fs.exit(c, e)
	if e != 0 && err == nil {
		err = h.fs.errOf(e)
	}
	return n, err
}

func (h *Handle) ioScript(op string, off int64, n int) (int, error) {
	h.fs.mu.Lock()
	s := h.fs.IOScript
	idx := h.fs.ioIdx
	h.fs.ioIdx++
	h.fs.mu.Unlock()
	if s == nil {
		return -1, nil
	}
	return s(op, idx, off, n)
}

func (h *Handle) inodeForXattr() (*memtree.Inode, int) { return h.resolve() }

// SetXattr implements p9.File.
func (h *Handle) SetXattr(attr string, data []byte, flags p9.XattrFlags) error {
	c := &Call{Op: "SetXattr", Name: attr, Data: append([]byte{}, data...), Args: []uint64{uint64(flags)}}
	if f := h.fs.enter(h, c); f != nil {
		return h.fs.fail(c, f)
	}
	h.fs.treeMu.Lock()
	i, e := h.inodeForXattr()
	if e == 0 {
		e = i.SetXattr(attr, data, int(flags))
	}
	h.fs.treeMu.Unlock()
	h.fs.exit(c, e)
	return h.fs.errOf(e)
}

// GetXattr implements p9.File.
func (h *Handle) GetXattr(attr string) ([]byte, error) {
	c := &Call{Op: "GetXattr", Name: attr}
	if f := h.fs.enter(h, c); f != nil {
		return nil, h.fs.fail(c, f)
	}
	h.fs.treeMu.Lock()
	i, e := h.inodeForXattr()
	var v []byte
	if e == 0 {
		v, e = i.GetXattr(attr)
	}
	h.fs.treeMu.Unlock()
	h.fs.exit(c, e)
	if e != 0 {
		return nil, h.fs.errOf(e)
	}
	return v, nil
}

// ListXattrs implements p9.File.
func (h *Handle) ListXattrs() ([]string, error) {
	c := &Call{Op: "ListXattrs"}
	if f := h.fs.enter(h, c); f != nil {
		return nil, h.fs.fail(c, f)
	}
	h.fs.treeMu.Lock()
	i, e := h.inodeForXattr()
	var v []string
	if e == 0 {
		v = i.ListXattrs()
	}
	h.fs.treeMu.Unlock()
	h.fs.exit(c, e)
	if e != 0 {
		return nil, h.fs.errOf(e)
	}
	return v, nil
}

// RemoveXattr implements p9.File.
func (h *Handle) RemoveXattr(attr string) error {
	c := &Call{Op: "RemoveXattr", Name: attr}
	if f := h.fs.enter(h, c); f != nil {
		return h.fs.fail(c, f)
	}
	h.fs.treeMu.Lock()
	i, e := h.inodeForXattr()
	if e == 0 {
		e = i.RemoveXattr(attr)
	}
	h.fs.treeMu.Unlock()
	h.fs.exit(c, e)
	return h.fs.errOf(e)
}

// FSync implements p9.File.
func (h *Handle) FSync() error {
	c := &Call{Op: "FSync"}
	if f := h.fs.enter(h, c); f != nil {
		return h.fs.fail(c, f)
	}
	h.fs.exit(c, 0)
	return nil
}

// Lock implements p9.File.
func (h *Handle) Lock(pid int, locktype p9.LockType, flags p9.LockFlags, start, length uint64, client string) (p9.LockStatus, error) {
	c := &Call{Op: "Lock", Name: client, Args: []uint64{uint64(pid), uint64(locktype), uint64(flags), start, length}}
	if f := h.fs.enter(h, c); f != nil {
		return p9.LockStatusError, h.fs.fail(c, f)
	}
	h.fs.exit(c, 0)
	return p9.LockStatusOK, nil
}

func (h *Handle) mk(op, name, name2 string, args []uint64, do func(dir *memtree.Inode) (*memtree.Inode, int)) (p9.QID, *memtree.Inode, error) {
	c := &Call{Op: op, Name: name, Name2: name2, Args: args}
	if f := h.fs.enter(h, c); f != nil {
		return p9.QID{}, nil, h.fs.fail(c, f)
	}
	h.fs.treeMu.Lock()
	dir, e := h.resolve()
	var i *memtree.Inode
	var q p9.QID
	if e == 0 {
		i, e = do(dir)
		if e == 0 {
			q = qidOf(i)
		}
	}
	h.fs.treeMu.Unlock()
	h.fs.exit(c, e)
	if e != 0 {
		return p9.QID{}, nil, h.fs.errOf(e)
	}
	return q, i, nil
}

// Create implements p9.File.
func (h *Handle) Create(name string, flags p9.OpenFlags, permissions p9.FileMode, uid p9.UID, gid p9.GID) (p9.File, p9.QID, uint32, error) {
	c := &Call{Op: "Create", Name: name, Args: []uint64{uint64(flags), uint64(permissions), uint64(uid), uint64(gid)}}
	if f := h.fs.enter(h, c); f != nil {
		return nil, p9.QID{}, 0, h.fs.fail(c, f)
	}
	h.fs.treeMu.Lock()
	dir, e := h.resolve()
	var nh *Handle
	var q p9.QID
	if e == 0 {
		var i *memtree.Inode
		i, e = h.fs.Tree.Create(dir, name, uint32(permissions), uint32(uid), uint32(gid))
		if e == 0 {
			h.mu.Lock()
			p := h.path
			h.mu.Unlock()
			nh = h.fs.newHandle(p+"/"+name, memtree.TReg)
			nh.born = i
			nh.ino = i
			nh.opened = true
			nh.opens = 1
			q = qidOf(i)
			c.New = nh.ID
		}
	}
	h.fs.treeMu.Unlock()
	h.fs.exit(c, e)
	if e != 0 {
		return nil, p9.QID{}, 0, h.fs.errOf(e)
	}
	return nh, q, h.fs.IOUnit, nil
}

// Mkdir implements p9.File.
func (h *Handle) Mkdir(name string, permissions p9.FileMode, uid p9.UID, gid p9.GID) (p9.QID, error) {
	q, _, err := h.mk("Mkdir", name, "", []uint64{uint64(permissions), uint64(uid), uint64(gid)}, func(dir *memtree.Inode) (*memtree.Inode, int) {
		return h.fs.Tree.Mkdir(dir, name, uint32(permissions), uint32(uid), uint32(gid))
	})
	return q, err
}

// Symlink implements p9.File.
func (h *Handle) Symlink(oldName string, newName string, uid p9.UID, gid p9.GID) (p9.QID, error) {
	q, _, err := h.mk("Symlink", newName, oldName, []uint64{uint64(uid), uint64(gid)}, func(dir *memtree.Inode) (*memtree.Inode, int) {
		return h.fs.Tree.Symlink(dir, newName, oldName, uint32(uid), uint32(gid))
	})
	return q, err
}

// Mknod implements p9.File.
func (h *Handle) Mknod(name string, mode p9.FileMode, major uint32, minor uint32, uid p9.UID, gid p9.GID) (p9.QID, error) {
	q, _, err := h.mk("Mknod", name, "", []uint64{uint64(mode), uint64(major), uint64(minor), uint64(uid), uint64(gid)}, func(dir *memtree.Inode) (*memtree.Inode, int) {
		return h.fs.Tree.Mknod(dir, name, uint32(mode), major, minor, uint32(uid), uint32(gid))
	})
	return q, err
}

// Link implements p9.File.
func (h *Handle) Link(target p9.File, newName string) error {
	th, _ := target.(*Handle)
	c := &Call{Op: "Link", Name: newName}
	if th != nil {
		c.Other = th.ID
	}
	if f := h.fs.enter(h, c); f != nil {
		return h.fs.fail(c, f)
	}
	e := 0
	if th == nil {
		e = memtree.EINVAL
	} else {
		h.fs.treeMu.Lock()
		dir, e1 := h.resolve()
		ti, e2 := th.resolve()
		switch {
		case e1 != 0:
			e = e1
		case e2 != 0:
			e = e2
		default:
			e = h.fs.Tree.Link(dir, ti, newName)
		}
		h.fs.treeMu.Unlock()
	}
	h.fs.exit(c, e)
	return h.fs.errOf(e)
}

// Rename implements p9.File (never called on the server).
func (h *Handle) Rename(newDir p9.File, newName string) error {
	c := &Call{Op: "Rename", Name: newName}
	h.fs.enter(h, c)
	h.fs.exit(c, memtree.EINVAL)
	return linux.EINVAL
}

// RenameAt implements p9.File.
func (h *Handle) RenameAt(oldName string, newDir p9.File, newName string) error {
	nd, _ := newDir.(*Handle)
	c := &Call{Op: "RenameAt", Name: oldName, Name2: newName}
	if nd != nil {
		c.Other = nd.ID
	}
	if f := h.fs.enter(h, c); f != nil {
		return h.fs.fail(c, f)
	}
	e := 0
	if nd == nil {
		e = memtree.EINVAL
	} else {
		h.fs.treeMu.Lock()
		od, e1 := h.resolve()
		ndi, e2 := nd.resolve()
		switch {
		case e1 != 0:
			e = e1
		case e2 != 0:
			e = e2
		default:
			e = h.fs.Tree.Rename(od, oldName, ndi, newName)
		}
		h.fs.treeMu.Unlock()
	}
	h.fs.exit(c, e)
	return h.fs.errOf(e)
}

// UnlinkAt implements p9.File.
func (h *Handle) UnlinkAt(name string, flags uint32) error {
	c := &Call{Op: "UnlinkAt", Name: name, Args: []uint64{uint64(flags)}}
	if f := h.fs.enter(h, c); f != nil {
		return h.fs.fail(c, f)
	}
	h.fs.treeMu.Lock()
	dir, e := h.resolve()
	if e == 0 {
		e = h.fs.Tree.Unlink(dir, name)
	}
	h.fs.treeMu.Unlock()
	h.fs.exit(c, e)
	return h.fs.errOf(e)
}

// Readdir implements p9.File: every entry after offset (the server cuts the
// reply to whole entries within the byte count).
func (h *Handle) Readdir(offset uint64, count uint32) (p9.Dirents, error) {
	c := &Call{Op: "Readdir", Args: []uint64{offset, uint64(count)}}
	if f := h.fs.enter(h, c); f != nil {
		return nil, h.fs.fail(c, f)
	}
	h.fs.treeMu.Lock()
	i := h.captured()
	e := 0
	var out p9.Dirents
	if i == nil {
		i, e = h.resolve()
	}
	if e == 0 && !i.IsDir() {
		e = memtree.ENOTDIR
	}
	if e == 0 {
		names := memtree.Names(i)
		for k, n := range names {
			if uint64(k) < offset {
				continue
			}
			ch := i.Children[n]
			out = append(out, p9.Dirent{QID: qidOf(ch), Offset: uint64(k + 1), Type: p9.QIDType(memtree.QIDType(ch.Type)), Name: n})
		}
	}
	h.fs.treeMu.Unlock()
	h.fs.exit(c, e)
	if e != 0 {
		return nil, h.fs.errOf(e)
	}
	return out, nil
}

// Readlink implements p9.File.
func (h *Handle) Readlink() (string, error) {
	c := &Call{Op: "Readlink"}
	if f := h.fs.enter(h, c); f != nil {
		return "", h.fs.fail(c, f)
	}
	h.fs.treeMu.Lock()
	i, e := h.resolve()
	t := ""
	if e == 0 {
		if i.Type != memtree.TSymlink {
			e = memtree.EINVAL
		} else {
			t = i.Target
		}
	}
	h.fs.treeMu.Unlock()
	h.fs.exit(c, e)
	if e != 0 {
		return "", h.fs.errOf(e)
	}
	return t, nil
}

// Renamed implements p9.File: the only way the path string changes.
func (h *Handle) Renamed(newDir p9.File, newName string) {
	nd, _ := newDir.(*Handle)
	c := &Call{Op: "Renamed", Name: newName}
	if nd != nil {
		c.Other = nd.ID
	}
	f := h.fs.enter(h, c)
	if f != nil && !f.Panic {
		// Renamed cannot fail: an injected error has nowhere to go
		h.fs.mu.Lock()
		h.fs.fired = nil
		h.fs.mu.Unlock()
	}
	if nd != nil {
		nd.mu.Lock()
		pp := nd.path
		nd.mu.Unlock()
		h.mu.Lock()
		h.path = pp + "/" + newName
		h.mu.Unlock()
	}
	if f != nil && f.Panic {
		h.fs.exit(c, -2)
		panic(fmt.Sprintf("memfs: injected panic in %s", c))
	}
	h.fs.exit(c, 0)
}

var _ p9.File = (*Handle)(nil)
var _ p9.Attacher = (*FS)(nil)
