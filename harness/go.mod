module p9verif

go 1.23

toolchain go1.23.5

require (
	github.com/hugelgupf/p9 v0.0.0
	golang.org/x/sys v0.15.0
	pgregory.net/rapid v1.3.0
)

require (
	github.com/u-root/uio v0.0.0-20230305220412-3e8cd9d6bf63 // indirect
	golang.org/x/exp v0.0.0-20231219180239-dc181d75b848 // indirect
)

replace github.com/hugelgupf/p9 => /repo
