// Package refcodec is an independent statement of the 9P2000.L wire layout
// (plus the .Google.N extensions), written from the protocol descriptions and
// not from the code under test. It never imports the code under test.
package refcodec

import (
	"encoding/binary"
	"encoding/hex"
	"encoding/json"
	"errors"
	"fmt"
	"sort"
)

// Kind is the wire kind of a field.
type Kind int

const (
	U8 Kind = iota
	U16
	U32
	U64
	Str     // len[2] bytes
	Perm32  // u32 of which only the low 12 bits travel
	QIDK    // type[1] version[4] path[8]
	AttrK   // 132 byte attribute block (18 integers)
	Names   // n[2] then n strings
	QIDs    // n[2] then n qids
	Data    // count[4] then count bytes (must be the rest of the frame)
	Dirents // count[4] then count bytes holding whole directory entries
)

// Field is one named field of a message.
type Field struct {
	Name string
	Kind Kind
}

// Spec describes one message type.
type Spec struct {
	Type   uint8
	Name   string
	Fields []Field
}

// QID is the 13-byte file identifier.
type QID struct {
	Type    uint8
	Version uint32
	Path    uint64
}

// Attr is the attribute block; element widths are in AttrWidths.
type Attr [18]uint64

// AttrWidths are the byte widths of the 18 attribute fields, in wire order:
// mode uid gid nlink rdev size blksize blocks atime_sec atime_nsec mtime_sec
// mtime_nsec ctime_sec ctime_nsec btime_sec btime_nsec gen data_version.
var AttrWidths = [18]int{4, 4, 4, 8, 8, 8, 8, 8, 8, 8, 8, 8, 8, 8, 8, 8, 8, 8}

// Dirent is one directory entry: qid offset[8] type[1] name[s].
type Dirent struct {
	QID    QID
	Offset uint64
	Type   uint8
	Name   string
}

// Msg is a decoded (or to-be-encoded) message. Integer fields are uint64,
// strings are string, and the composite kinds use QID, Attr, []string, []QID,
// []byte and []Dirent.
type Msg struct {
	Type uint8
	Tag  uint16
	F    map[string]any
}

// Sentinels.
const (
	NOTAG = 0xFFFF
	NOFID = 0xFFFFFFFF
	NOUID = 0xFFFFFFFF
)

// Message type bytes.
const (
	Rlerror      = 7
	Tstatfs      = 8
	Rstatfs      = 9
	Tlopen       = 12
	Rlopen       = 13
	Tlcreate     = 14
	Rlcreate     = 15
	Tsymlink     = 16
	Rsymlink     = 17
	Tmknod       = 18
	Rmknod       = 19
	Trename      = 20
	Rrename      = 21
	Treadlink    = 22
	Rreadlink    = 23
	Tgetattr     = 24
	Rgetattr     = 25
	Tsetattr     = 26
	Rsetattr     = 27
	Txattrwalk   = 30
	Rxattrwalk   = 31
	Txattrcreate = 32
	Rxattrcreate = 33
	Treaddir     = 40
	Rreaddir     = 41
	Tfsync       = 50
	Rfsync       = 51
	Tlock        = 52
	Rlock        = 53
	Tlink        = 70
	Rlink        = 71
	Tmkdir       = 72
	Rmkdir       = 73
	Trenameat    = 74
	Rrenameat    = 75
	Tunlinkat    = 76
	Runlinkat    = 77
	Tversion     = 100
	Rversion     = 101
	Tauth        = 102
	Rauth        = 103
	Tattach      = 104
	Rattach      = 105
	Tflush       = 108
	Rflush       = 109
	Twalk        = 110
	Rwalk        = 111
	Tread        = 116
	Rread        = 117
	Twrite       = 118
	Rwrite       = 119
	Tclunk       = 120
	Rclunk       = 121
	Tremove      = 122
	Rremove      = 123
	Twalkgetattr = 126
	Rwalkgetattr = 127
	Tucreate     = 128
	Rucreate     = 129
	Tumkdir      = 130
	Rumkdir      = 131
	Tumknod      = 132
	Rumknod      = 133
	Tusymlink    = 134
	Rusymlink    = 135
)

func f(name string, k Kind) Field { return Field{name, k} }

var (
	lcreate = []Field{f("fid", U32), f("name", Str), f("flags", U32), f("mode", Perm32), f("gid", U32)}
	symlink = []Field{f("dfid", U32), f("name", Str), f("symtgt", Str), f("gid", U32)}
	mknod   = []Field{f("dfid", U32), f("name", Str), f("mode", U32), f("major", U32), f("minor", U32), f("gid", U32)}
	mkdir   = []Field{f("dfid", U32), f("name", Str), f("mode", Perm32), f("gid", U32)}
	walk    = []Field{f("fid", U32), f("newfid", U32), f("wnames", Names)}
	ropen   = []Field{f("qid", QIDK), f("iounit", U32)}
	rqid    = []Field{f("qid", QIDK)}
	auth    = []Field{f("afid", U32), f("uname", Str), f("aname", Str), f("n_uname", U32)}
)

func with(base []Field, extra ...Field) []Field {
	out := append([]Field{}, base...)
	return append(out, extra...)
}

// Table lists every message type of the dialect.
var Table = map[uint8]*Spec{}

func reg(t uint8, name string, fields ...Field) {
	Table[t] = &Spec{Type: t, Name: name, Fields: fields}
}

func init() {
	reg(Rlerror, "Rlerror", f("ecode", U32))
	reg(Tstatfs, "Tstatfs", f("fid", U32))
	reg(Rstatfs, "Rstatfs", f("type", U32), f("bsize", U32), f("blocks", U64), f("bfree", U64), f("bavail", U64),
		f("files", U64), f("ffree", U64), f("fsid", U64), f("namelen", U32))
	reg(Tlopen, "Tlopen", f("fid", U32), f("flags", U32))
	reg(Rlopen, "Rlopen", ropen...)
	reg(Tlcreate, "Tlcreate", lcreate...)
	reg(Rlcreate, "Rlcreate", ropen...)
	reg(Tsymlink, "Tsymlink", symlink...)
	reg(Rsymlink, "Rsymlink", rqid...)
	reg(Tmknod, "Tmknod", mknod...)
	reg(Rmknod, "Rmknod", rqid...)
	reg(Trename, "Trename", f("fid", U32), f("dfid", U32), f("name", Str))
	reg(Rrename, "Rrename")
	reg(Treadlink, "Treadlink", f("fid", U32))
	reg(Rreadlink, "Rreadlink", f("target", Str))
	reg(Tgetattr, "Tgetattr", f("fid", U32), f("request_mask", U64))
	reg(Rgetattr, "Rgetattr", f("valid", U64), f("qid", QIDK), f("attr", AttrK))
	reg(Tsetattr, "Tsetattr", f("fid", U32), f("valid", U32), f("mode", Perm32), f("uid", U32), f("gid", U32),
		f("size", U64), f("atime_sec", U64), f("atime_nsec", U64), f("mtime_sec", U64), f("mtime_nsec", U64))
	reg(Rsetattr, "Rsetattr")
	reg(Txattrwalk, "Txattrwalk", f("fid", U32), f("newfid", U32), f("name", Str))
	reg(Rxattrwalk, "Rxattrwalk", f("size", U64))
	reg(Txattrcreate, "Txattrcreate", f("fid", U32), f("name", Str), f("attr_size", U64), f("flags", U32))
	reg(Rxattrcreate, "Rxattrcreate")
	reg(Treaddir, "Treaddir", f("fid", U32), f("offset", U64), f("count", U32))
	reg(Rreaddir, "Rreaddir", f("entries", Dirents))
	reg(Tfsync, "Tfsync", f("fid", U32))
	reg(Rfsync, "Rfsync")
	reg(Tlock, "Tlock", f("fid", U32), f("type", U8), f("flags", U32), f("start", U64), f("length", U64),
		f("proc_id", U32), f("client_id", Str))
	reg(Rlock, "Rlock", f("status", U8))
	reg(Tlink, "Tlink", f("dfid", U32), f("fid", U32), f("name", Str))
	reg(Rlink, "Rlink")
	reg(Tmkdir, "Tmkdir", mkdir...)
	reg(Rmkdir, "Rmkdir", rqid...)
	reg(Trenameat, "Trenameat", f("olddirfid", U32), f("oldname", Str), f("newdirfid", U32), f("newname", Str))
	reg(Rrenameat, "Rrenameat")
	reg(Tunlinkat, "Tunlinkat", f("dirfid", U32), f("name", Str), f("flags", U32))
	reg(Runlinkat, "Runlinkat")
	reg(Tversion, "Tversion", f("msize", U32), f("version", Str))
	reg(Rversion, "Rversion", f("msize", U32), f("version", Str))
	reg(Tauth, "Tauth", auth...)
	reg(Rauth, "Rauth", f("aqid", QIDK))
	reg(Tattach, "Tattach", with([]Field{f("fid", U32)}, auth...)...)
	reg(Rattach, "Rattach", rqid...)
	reg(Tflush, "Tflush", f("oldtag", U16))
	reg(Rflush, "Rflush")
	reg(Twalk, "Twalk", walk...)
	reg(Rwalk, "Rwalk", f("wqids", QIDs))
	reg(Tread, "Tread", f("fid", U32), f("offset", U64), f("count", U32))
	reg(Rread, "Rread", f("data", Data))
	reg(Twrite, "Twrite", f("fid", U32), f("offset", U64), f("data", Data))
	reg(Rwrite, "Rwrite", f("count", U32))
	reg(Tclunk, "Tclunk", f("fid", U32))
	reg(Rclunk, "Rclunk")
	reg(Tremove, "Tremove", f("fid", U32))
	reg(Rremove, "Rremove")
	reg(Twalkgetattr, "Twalkgetattr", walk...)
	reg(Rwalkgetattr, "Rwalkgetattr", f("valid", U64), f("attr", AttrK), f("wqids", QIDs))
	reg(Tucreate, "Tucreate", with(lcreate, f("uid", U32))...)
	reg(Rucreate, "Rucreate", ropen...)
	reg(Tumkdir, "Tumkdir", with(mkdir, f("uid", U32))...)
	reg(Rumkdir, "Rumkdir", rqid...)
	reg(Tumknod, "Tumknod", with(mknod, f("uid", U32))...)
	reg(Rumknod, "Rumknod", rqid...)
	reg(Tusymlink, "Tusymlink", with(symlink, f("uid", U32))...)
	reg(Rusymlink, "Rusymlink", rqid...)
}

// Types returns all type bytes in ascending order.
func Types() []uint8 {
	var out []uint8
	for t := range Table {
		out = append(out, t)
	}
	sort.Slice(out, func(i, j int) bool { return out[i] < out[j] })
	return out
}

// IsT reports whether a registered type is a request (even type byte).
func IsT(t uint8) bool { return t%2 == 0 }

// MinVersion returns the lowest .Google.N version that defines the type.
func MinVersion(t uint8) uint32 {
	switch {
	case t == Twalkgetattr || t == Rwalkgetattr:
		return 2
	case t >= Tucreate && t <= Rusymlink:
		return 3
	}
	return 0
}

// Name returns the message name for a type byte.
func Name(t uint8) string {
	if s, ok := Table[t]; ok {
		return s.Name
	}
	return fmt.Sprintf("type%d", t)
}

// ---------------------------------------------------------------------------
// encoding

type wbuf struct{ b []byte }

func (w *wbuf) u8(v uint64)  { w.b = append(w.b, byte(v)) }
func (w *wbuf) u16(v uint64) { w.b = binary.LittleEndian.AppendUint16(w.b, uint16(v)) }
func (w *wbuf) u32(v uint64) { w.b = binary.LittleEndian.AppendUint32(w.b, uint32(v)) }
func (w *wbuf) u64(v uint64) { w.b = binary.LittleEndian.AppendUint64(w.b, v) }
func (w *wbuf) str(s string) {
	if len(s) > 65535 {
		panic("refcodec: string longer than 65535 bytes cannot be encoded")
	}
	w.u16(uint64(len(s)))
	w.b = append(w.b, s...)
}
func (w *wbuf) qid(q QID) {
	w.u8(uint64(q.Type))
	w.u32(uint64(q.Version))
	w.u64(q.Path)
}

// EncodeDirents encodes directory entries back to back.
func EncodeDirents(ds []Dirent) []byte {
	var w wbuf
	for _, d := range ds {
		w.qid(d.QID)
		w.u64(d.Offset)
		w.u8(uint64(d.Type))
		w.str(d.Name)
	}
	return w.b
}

// DirentSize is the encoded size of one entry.
func DirentSize(d Dirent) int { return 13 + 8 + 1 + 2 + len(d.Name) }

// CutDirents returns the longest prefix of whole entries whose encoding fits
// in count bytes (the documented Rreaddir rewrite).
func CutDirents(ds []Dirent, count uint64) []Dirent {
	total := uint64(0)
	for i, d := range ds {
		total += uint64(DirentSize(d))
		if total > count {
			return ds[:i]
		}
	}
	return ds
}

func toU64(v any) uint64 {
	switch x := v.(type) {
	case uint64:
		return x
	case uint32:
		return uint64(x)
	case uint16:
		return uint64(x)
	case uint8:
		return uint64(x)
	case int:
		return uint64(x)
	case int64:
		return uint64(x)
	case float64: // after a JSON round trip
		return uint64(x)
	case nil:
		return 0
	}
	panic(fmt.Sprintf("refcodec: not an integer: %T", v))
}

// EncodeBody encodes the body (everything after the 7 header bytes).
func EncodeBody(m *Msg) []byte {
	spec, ok := Table[m.Type]
	if !ok {
		panic(fmt.Sprintf("refcodec: unknown type %d", m.Type))
	}
	var w wbuf
	for _, fd := range spec.Fields {
		v := m.F[fd.Name]
		switch fd.Kind {
		case U8:
			w.u8(toU64(v))
		case U16:
			w.u16(toU64(v))
		case U32:
			w.u32(toU64(v))
		case U64:
			w.u64(toU64(v))
		case Perm32:
			if raw, ok := m.F[fd.Name+"#raw"]; ok {
				// a raw peer may put anything in the upper bits
				w.u32(toU64(raw))
			} else {
				w.u32(toU64(v) & 0o7777)
			}
		case Str:
			s, _ := v.(string)
			w.str(s)
		case QIDK:
			q, _ := v.(QID)
			w.qid(q)
		case AttrK:
			a, _ := v.(Attr)
			for i, wd := range AttrWidths {
				if wd == 4 {
					w.u32(a[i])
				} else {
					w.u64(a[i])
				}
			}
		case Names:
			ns, _ := v.([]string)
			w.u16(uint64(len(ns)))
			for _, s := range ns {
				w.str(s)
			}
		case QIDs:
			qs, _ := v.([]QID)
			w.u16(uint64(len(qs)))
			for _, q := range qs {
				w.qid(q)
			}
		case Data:
			d, _ := v.([]byte)
			w.u32(uint64(len(d)))
			w.b = append(w.b, d...)
		case Dirents:
			ds, _ := v.([]Dirent)
			enc := EncodeDirents(ds)
			w.u32(uint64(len(enc)))
			w.b = append(w.b, enc...)
		}
	}
	return w.b
}

// CountField locates one count or length field inside an encoded frame.
type CountField struct {
	Offset int // position in the frame
	Width  int // 2 or 4 bytes
	Elem   int // size of the smallest element the count governs (1: bytes)
	Rest   int // bytes of the frame after the field
}

// CountFields lists the count/length fields of the frame Encode(m) would
// produce: string lengths, name and QID counts, payload and dirent byte counts.
func CountFields(m *Msg) []CountField {
	spec, ok := Table[m.Type]
	if !ok {
		return nil
	}
	var out []CountField
	off := 7
	add := func(width, elem int) { out = append(out, CountField{Offset: off, Width: width, Elem: elem}) }
	for _, fd := range spec.Fields {
		v := m.F[fd.Name]
		switch fd.Kind {
		case U8:
			off++
		case U16:
			off += 2
		case U32, Perm32:
			off += 4
		case U64:
			off += 8
		case Str:
			s, _ := v.(string)
			add(2, 1)
			off += 2 + len(s)
		case QIDK:
			off += 13
		case AttrK:
			for _, wd := range AttrWidths {
				off += wd
			}
		case Names:
			ns, _ := v.([]string)
			add(2, 2)
			off += 2
			for _, s := range ns {
				add(2, 1)
				off += 2 + len(s)
			}
		case QIDs:
			qs, _ := v.([]QID)
			add(2, 13)
			off += 2 + 13*len(qs)
		case Data:
			d, _ := v.([]byte)
			add(4, 1)
			off += 4 + len(d)
		case Dirents:
			ds, _ := v.([]Dirent)
			add(4, 1)
			off += 4 + len(EncodeDirents(ds))
		}
	}
	for i := range out {
		out[i].Rest = off - out[i].Offset - out[i].Width
	}
	return out
}

// Frame builds size[4] type[1] tag[2] body.
func Frame(typ uint8, tag uint16, body []byte) []byte {
	out := make([]byte, 0, 7+len(body))
	out = binary.LittleEndian.AppendUint32(out, uint32(7+len(body)))
	out = append(out, typ)
	out = binary.LittleEndian.AppendUint16(out, tag)
	return append(out, body...)
}

// Encode builds the complete frame of a message.
func Encode(m *Msg) []byte { return Frame(m.Type, m.Tag, EncodeBody(m)) }

// ---------------------------------------------------------------------------
// decoding

var (
	ErrShort    = errors.New("refcodec: body too short for its fields")
	ErrTrailing = errors.New("refcodec: trailing bytes after the last field")
	ErrUnknown  = errors.New("refcodec: unknown message type")
	ErrCount    = errors.New("refcodec: payload count disagrees with the frame")
	ErrHeader   = errors.New("refcodec: bad frame header")
)

type rbuf struct {
	b   []byte
	err error
}

func (r *rbuf) take(n int) []byte {
	if r.err != nil {
		return nil
	}
	if len(r.b) < n {
		r.err = ErrShort
		return nil
	}
	v := r.b[:n]
	r.b = r.b[n:]
	return v
}
func (r *rbuf) u8() uint64 {
	if v := r.take(1); v != nil {
		return uint64(v[0])
	}
	return 0
}
func (r *rbuf) u16() uint64 {
	if v := r.take(2); v != nil {
		return uint64(binary.LittleEndian.Uint16(v))
	}
	return 0
}
func (r *rbuf) u32() uint64 {
	if v := r.take(4); v != nil {
		return uint64(binary.LittleEndian.Uint32(v))
	}
	return 0
}
func (r *rbuf) u64() uint64 {
	if v := r.take(8); v != nil {
		return binary.LittleEndian.Uint64(v)
	}
	return 0
}
func (r *rbuf) str() string {
	n := int(r.u16())
	return string(r.take(n))
}
func (r *rbuf) qid() QID {
	return QID{Type: uint8(r.u8()), Version: uint32(r.u32()), Path: r.u64()}
}

// DecodeDirents decodes back-to-back entries; it stops at the first entry
// that does not fit and reports how many bytes were left over.
func DecodeDirents(b []byte) (ds []Dirent, leftover int) {
	for len(b) > 0 {
		r := rbuf{b: b}
		d := Dirent{QID: r.qid(), Offset: r.u64(), Type: uint8(r.u8()), Name: r.str()}
		if r.err != nil {
			return ds, len(b)
		}
		ds = append(ds, d)
		b = r.b
	}
	return ds, 0
}

// ParseHeader splits a frame header.
func ParseHeader(frame []byte) (size uint32, typ uint8, tag uint16, err error) {
	if len(frame) < 7 {
		return 0, 0, 0, ErrHeader
	}
	return binary.LittleEndian.Uint32(frame), frame[4], binary.LittleEndian.Uint16(frame[5:]), nil
}

func decode(frame []byte, strict bool) (*Msg, error) {
	size, typ, tag, err := ParseHeader(frame)
	if err != nil {
		return nil, err
	}
	if int(size) != len(frame) {
		return nil, ErrHeader
	}
	spec, ok := Table[typ]
	if !ok {
		return nil, ErrUnknown
	}
	m := &Msg{Type: typ, Tag: tag, F: map[string]any{}}
	r := rbuf{b: frame[7:]}
	for _, fd := range spec.Fields {
		switch fd.Kind {
		case U8:
			m.F[fd.Name] = r.u8()
		case U16:
			m.F[fd.Name] = r.u16()
		case U32:
			m.F[fd.Name] = r.u32()
		case U64:
			m.F[fd.Name] = r.u64()
		case Perm32:
			m.F[fd.Name] = r.u32() & 0o7777
		case Str:
			m.F[fd.Name] = r.str()
		case QIDK:
			m.F[fd.Name] = r.qid()
		case AttrK:
			var a Attr
			for i, wd := range AttrWidths {
				if wd == 4 {
					a[i] = r.u32()
				} else {
					a[i] = r.u64()
				}
			}
			m.F[fd.Name] = a
		case Names:
			n := int(r.u16())
			ns := []string{}
			for i := 0; i < n && r.err == nil; i++ {
				ns = append(ns, r.str())
			}
			m.F[fd.Name] = ns
		case QIDs:
			n := int(r.u16())
			qs := []QID{}
			for i := 0; i < n && r.err == nil; i++ {
				qs = append(qs, r.qid())
			}
			m.F[fd.Name] = qs
		case Data:
			n := int(r.u32())
			if r.err == nil && n != len(r.b) {
				// the payload is by definition the rest of the frame
				return nil, ErrCount
			}
			m.F[fd.Name] = append([]byte{}, r.take(n)...)
		case Dirents:
			n := int(r.u32())
			if r.err == nil && n != len(r.b) {
				return nil, ErrCount
			}
			raw := r.take(n)
			ds, left := DecodeDirents(raw)
			if ds == nil {
				ds = []Dirent{}
			}
			if left != 0 && strict {
				return nil, ErrCount
			}
			m.F[fd.Name] = ds
		}
		if r.err != nil {
			return nil, r.err
		}
	}
	if strict && len(r.b) != 0 {
		return nil, ErrTrailing
	}
	return m, nil
}

// DecodeStrict decodes a frame; every byte of the body must be accounted for.
func DecodeStrict(frame []byte) (*Msg, error) { return decode(frame, true) }

// DecodePrefix decodes a frame and tolerates bytes after the last field.
func DecodePrefix(frame []byte) (*Msg, error) { return decode(frame, false) }

// Accessors.
func (m *Msg) U(name string) uint64 { return toU64(m.F[name]) }
func (m *Msg) S(name string) string {
	s, _ := m.F[name].(string)
	return s
}
func (m *Msg) Q(name string) QID {
	q, _ := m.F[name].(QID)
	return q
}
func (m *Msg) Bytes(name string) []byte {
	b, _ := m.F[name].([]byte)
	return b
}
func (m *Msg) Strs(name string) []string {
	s, _ := m.F[name].([]string)
	return s
}
func (m *Msg) QIDList(name string) []QID {
	s, _ := m.F[name].([]QID)
	return s
}
func (m *Msg) Ents(name string) []Dirent {
	s, _ := m.F[name].([]Dirent)
	return s
}
func (m *Msg) A(name string) Attr {
	a, _ := m.F[name].(Attr)
	return a
}

// String renders a message for samples and failure reports.
func (m *Msg) String() string {
	spec := Table[m.Type]
	if spec == nil {
		return fmt.Sprintf("type%d tag=%d", m.Type, m.Tag)
	}
	s := fmt.Sprintf("%s tag=%d", spec.Name, m.Tag)
	for _, fd := range spec.Fields {
		v := m.F[fd.Name]
		switch x := v.(type) {
		case string:
			if len(x) > 40 {
				s += fmt.Sprintf(" %s=%q…(%d)", fd.Name, x[:40], len(x))
			} else {
				s += fmt.Sprintf(" %s=%q", fd.Name, x)
			}
		case []byte:
			if len(x) > 16 {
				s += fmt.Sprintf(" %s=%x…(%d)", fd.Name, x[:16], len(x))
			} else {
				s += fmt.Sprintf(" %s=%x", fd.Name, x)
			}
		case []string:
			if len(x) > 6 {
				s += fmt.Sprintf(" %s=%q…(%d)", fd.Name, x[:6], len(x))
			} else {
				s += fmt.Sprintf(" %s=%q", fd.Name, x)
			}
		case []QID:
			if len(x) > 4 {
				s += fmt.Sprintf(" %s=%v…(%d)", fd.Name, x[:4], len(x))
			} else {
				s += fmt.Sprintf(" %s=%v", fd.Name, x)
			}
		case []Dirent:
			if len(x) > 3 {
				s += fmt.Sprintf(" %s=%v…(%d)", fd.Name, x[:3], len(x))
			} else {
				s += fmt.Sprintf(" %s=%v", fd.Name, x)
			}
		default:
			s += fmt.Sprintf(" %s=%v", fd.Name, v)
		}
	}
	return s
}

// New builds a message from alternating name, value pairs.
func New(typ uint8, tag uint16, kv ...any) *Msg {
	m := &Msg{Type: typ, Tag: tag, F: map[string]any{}}
	for i := 0; i+1 < len(kv); i += 2 {
		v := kv[i+1]
		switch x := v.(type) {
		case int:
			v = uint64(x)
		case uint32:
			v = uint64(x)
		case uint16:
			v = uint64(x)
		case uint8:
			v = uint64(x)
		case int64:
			v = uint64(x)
		}
		m.F[kv[i].(string)] = v
	}
	return m
}

// Canon returns the message as the receiver must see it: permission fields
// masked to 12 bits (documented rewrite). Other fields are unchanged.
func Canon(m *Msg) *Msg {
	out := &Msg{Type: m.Type, Tag: m.Tag, F: map[string]any{}}
	spec := Table[m.Type]
	for k, v := range m.F {
		out.F[k] = v
	}
	if spec != nil {
		for _, fd := range spec.Fields {
			if fd.Kind == Perm32 {
				out.F[fd.Name] = toU64(m.F[fd.Name]) & 0o7777
			}
		}
	}
	return out
}

// Errno extracts the error code of an Rlerror frame (ok=false otherwise).
func Errno(frame []byte) (uint32, bool) {
	if len(frame) == 11 && frame[4] == Rlerror {
		return binary.LittleEndian.Uint32(frame[7:]), true
	}
	return 0, false
}

// MarshalJSON writes a message losslessly as its frame (hex) plus a readable
// rendering.
func (m *Msg) MarshalJSON() ([]byte, error) {
	return json.Marshal(struct {
		Text  string `json:"text"`
		Frame string `json:"frame"`
	}{m.String(), hex.EncodeToString(Encode(m))})
}

// UnmarshalJSON reads the frame back.
func (m *Msg) UnmarshalJSON(b []byte) error {
	var v struct {
		Frame string `json:"frame"`
	}
	if err := json.Unmarshal(b, &v); err != nil {
		return err
	}
	raw, err := hex.DecodeString(v.Frame)
	if err != nil {
		return err
	}
	d, err := DecodePrefix(raw)
	if err != nil {
		return err
	}
	*m = *d
	return nil
}
