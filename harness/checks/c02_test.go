package checks

import (
	"bytes"
	"encoding/binary"
	"fmt"
	"io"
	"os"
	"path/filepath"
	"runtime"
	"sort"
	"strings"
	"sync"
	"sync/atomic"
	"testing"
	"time"

	"p9verif/evid"
	"p9verif/peers"
	"p9verif/refcodec"
	"p9verif/vconn"

	"github.com/hugelgupf/p9/p9"
	"pgregory.net/rapid"
)

// ---------------------------------------------------------------------------
// C02 — decoder safety, bounded buffering, frame resynchronisation

const c02Msize = 64 << 10

// frameClass is the oracle's own classification of a well-delimited frame.
//
//	"valid"    decodes strictly: must be delivered
//	"rejected" does not decode even as a prefix (unknown type, short body,
//	           inconsistent counts): must be rejected, stream stays in sync
//	"trailing" decodes with bytes left over: either
func frameClass(frame []byte) string {
	if _, err := refcodec.DecodeStrict(frame); err == nil {
		return "valid"
	}
	if _, err := refcodec.DecodePrefix(frame); err != nil {
		return "rejected"
	}
	return "trailing"
}

// streamItem is one element of a generated stream.
type streamItem struct {
	Frame []byte `json:"frame"` // bytes sent; for in-range sizes len(Frame) == size field
	How   string `json:"how"`   // how it was built (for the evidence)
}

type streamCase struct {
	Items []streamItem `json:"items"`
}

func sizeField(frame []byte) uint32 { return binary.LittleEndian.Uint32(frame) }

func setSize(frame []byte, n uint32) { binary.LittleEndian.PutUint32(frame, n) }

// genFrame builds one frame: valid, structurally mutated, or noise.
func genFrame(rt *rapid.T) streamItem {
	types := refcodec.Types()
	var baseMsg *refcodec.Msg
	base := func() []byte {
		typ := rapid.SampledFrom(types).Draw(rt, "type")
		if typ == refcodec.Tversion {
			typ = refcodec.Tclunk // never renegotiate in mid-stream
		}
		m := genMsgOfType(rt, typ)
		baseMsg = m
		// keep frames well inside msize
		for k, v := range m.F {
			switch x := v.(type) {
			case string:
				if len(x) > 2000 {
					m.F[k] = x[:2000]
				}
			case []byte:
				if len(x) > 5000 {
					m.F[k] = x[:5000]
				}
			case []string:
				if len(x) > 20 {
					x = x[:20]
				}
				for i := range x {
					if len(x[i]) > 500 {
						x[i] = x[i][:500]
					}
				}
				m.F[k] = x
			case []refcodec.Dirent:
				for i := range x {
					if len(x[i].Name) > 500 {
						x[i].Name = x[i].Name[:500]
					}
				}
			}
		}
		return refcodec.Encode(m)
	}
	f := base()
	if len(f) > c02Msize-100 {
		baseMsg = tClunk(1)
		baseMsg.Tag = 0
		f = refcodec.Encode(baseMsg)
	}
	switch rapid.IntRange(0, 12).Draw(rt, "mut") {
	case 0, 1, 2:
		return streamItem{f, "valid"}
	case 3: // truncate the body, size field consistent
		if len(f) > 7 {
			n := rapid.IntRange(7, len(f)-1).Draw(rt, "cut")
			f = append([]byte{}, f[:n]...)
			setSize(f, uint32(n))
		}
		return streamItem{f, "truncated-body"}
	case 4: // inflate a 16-bit or 32-bit count/length somewhere in the body
		if cfs := refcodec.CountFields(baseMsg); len(cfs) > 0 && rapid.IntRange(0, 2).Draw(rt, "aimed") != 0 {
			// aimed at a real count field: off by one, extremes, and values whose
			// product with the element size wraps around 2^16 / 2^32 to something
			// that fits in the rest of the frame
			cf := rapid.SampledFrom(cfs).Draw(rt, "cf")
			var cur uint64
			if cf.Width == 2 {
				cur = uint64(binary.LittleEndian.Uint16(f[cf.Offset:]))
			} else {
				cur = uint64(binary.LittleEndian.Uint32(f[cf.Offset:]))
			}
			max := uint64(1)<<(8*cf.Width) - 1
			cands := []uint64{cur + 1, cur + 2, max, max - 1, max/2 + 1, max / 2, uint64(cf.Rest) + 1}
			if cur > 0 {
				cands = append(cands, cur-1, 0)
			}
			elems := []int{cf.Elem}
			if cf.Elem == 1 {
				elems = []int{2, 13, 24}
			} else if cf.Elem == 2 {
				elems = []int{2, 3, 4}
			}
			for _, el := range elems {
				for _, mod := range []uint64{1 << 16, 1 << 32} {
					for k := uint64(1); k <= 3 && k < uint64(el)+1; k++ {
						r := uint64(rapid.IntRange(0, cf.Rest).Draw(rt, "wrapr"))
						n := (mod*k + r + uint64(el) - 1) / uint64(el)
						if n <= max {
							cands = append(cands, n)
						}
					}
				}
			}
			v := rapid.SampledFrom(cands).Draw(rt, "cval")
			if v > max {
				v = max
			}
			if cf.Width == 2 {
				binary.LittleEndian.PutUint16(f[cf.Offset:], uint16(v))
			} else {
				binary.LittleEndian.PutUint32(f[cf.Offset:], uint32(v))
			}
			if f[4] == refcodec.Tversion {
				f[4] = 99
			}
			return streamItem{f, "aimed-count"}
		}
		if len(f) > 9 {
			i := rapid.IntRange(7, len(f)-2).Draw(rt, "pos")
			v := rapid.SampledFrom([]uint16{0xffff, 0x8000, 0x7fff, 0x0100, 17}).Draw(rt, "val")
			binary.LittleEndian.PutUint16(f[i:], v)
		}
		return streamItem{f, "inflated-count"}
	case 5: // replace the type byte
		f[4] = rapid.SampledFrom([]byte{0, 1, 6, 10, 11, 28, 29, 54, 99, 106, 107, 112, 113, 124, 125, 136, 137, 200, 254, 255, rapid.Byte().Draw(rt, "tb")}).Draw(rt, "typebyte")
		if f[4] == refcodec.Tversion {
			f[4] = 99
		}
		return streamItem{f, "type-replaced"}
	case 6: // extend with trailing bytes, size field consistent
		extra := rapid.SliceOfN(rapid.Byte(), 1, 40).Draw(rt, "extra")
		f = append(f, extra...)
		setSize(f, uint32(len(f)))
		return streamItem{f, "trailing-bytes"}
	case 7: // bit flips in the body
		if len(f) > 7 {
			for k := rapid.IntRange(1, 4).Draw(rt, "nflip"); k > 0; k-- {
				i := rapid.IntRange(5, len(f)-1).Draw(rt, "fpos")
				f[i] ^= 1 << rapid.IntRange(0, 7).Draw(rt, "fbit")
			}
			if f[4] == refcodec.Tversion {
				f[4] = 99
			}
		}
		return streamItem{f, "bit-flips"}
	case 8: // noise body under a plausible header
		n := rapid.IntRange(0, 300).Draw(rt, "nn")
		body := rapid.SliceOfN(rapid.Byte(), n, n).Draw(rt, "noise")
		t := rapid.Byte().Draw(rt, "ntype")
		if t == refcodec.Tversion {
			t = 99
		}
		return streamItem{refcodec.Frame(t, rapid.Uint16().Draw(rt, "ntag"), body), "noise"}
	case 9: // size field exactly at / around the limits, bytes consistent
		n := rapid.SampledFrom([]int{7, 8, c02Msize - 1, c02Msize}).Draw(rt, "sz")
		g := make([]byte, n)
		copy(g, f)
		setSize(g, uint32(n))
		return streamItem{g, "size-at-limit"}
	case 10: // fatal: size below the header size
		g := append([]byte{}, f...)
		setSize(g, rapid.SampledFrom([]uint32{0, 1, 4, 6}).Draw(rt, "small"))
		return streamItem{g, "size-too-small"}
	default: // fatal: size above msize
		g := append([]byte{}, f...)
		setSize(g, rapid.SampledFrom([]uint32{c02Msize + 1, 4<<20 - 1, 4 << 20, 4<<20 + 1, 1 << 31, 1<<32 - 1}).Draw(rt, "big"))
		return streamItem{g, "size-too-big"}
	}
}

type streamStats struct {
	rejectedThenProbe int
	fatal             int
	classes           map[string]int
}

const probeFid = 0xABCDEF

// runStreamCase feeds the items lock-step to Server.Handle; after every
// non-fatal item a probe (Tclunk of an unbound fid, unique tag) must be
// answered exactly, which proves the item consumed exactly its declared size
// and produced exactly one reply.
func runStreamCase(c streamCase, st *streamStats) *fail {
	s := peers.Start(p9.NewServer(nullAttacher{}))
	defer s.Close(10 * time.Second)
	if _, err := s.Version(c02Msize, "9P2000.L.Google.7"); err != nil {
		return failf("harness-version", "HARNESS-ERROR %v", err)
	}
	probeTag := uint16(0x4000)
	for i, it := range c.Items {
		size := sizeField(it.Frame)
		what := fmt.Sprintf("item %d (%s, %d bytes, size field %d, type %d)", i, it.How, len(it.Frame), size, it.Frame[4])
		if size < 7 || size > c02Msize {
			// the connection must end without the body being read: offer only the header
			if st != nil {
				st.fatal++
			}
			s.Send(it.Frame[:7])
			select {
			case <-s.Done():
			case <-time.After(20 * time.Second):
				return failf("bad-size-not-fatal", "%s: the connection did not end after a header with an out-of-range size (the server waits for a body)", what)
			}
			if s.Pending() != 0 {
				raw, _ := s.Recv(time.Second)
				return failf("reply-to-bad-size", "%s: the server answered %x to a frame with an out-of-range size field", what, raw)
			}
			return nil
		}
		cls := frameClass(it.Frame)
		if st != nil {
			st.classes[cls+":"+it.How]++
		}
		s.Send(it.Frame)
		raw, err := s.Recv(20 * time.Second)
		if err != nil {
			if s.Returned() {
				return failf("connection-ended-on-delimited-frame:"+cls, "%s (oracle: %s): the connection ended; a well-delimited frame must be delivered or rejected", what, cls)
			}
			return failf("no-reply-to-complete-frame:"+cls, "%s (oracle: %s): no reply although the frame is complete (the receiver waits for more input)", what, cls)
		}
		rep, derr := refcodec.DecodeStrict(raw)
		if derr != nil {
			return failf("reply-undecodable", "%s: reply %x rejected by the reference codec: %v", what, raw, derr)
		}
		tag := binary.LittleEndian.Uint16(it.Frame[5:])
		switch cls {
		case "rejected":
			if rep.Type != refcodec.Rlerror {
				return failf("undecodable-frame-delivered", "%s: the reference codec rejects this frame, the server answered %s", what, rep)
			}
		case "valid":
			if rep.Tag != tag {
				return failf("valid-frame-wrong-tag", "%s: a valid frame with tag %d was answered with tag %d (%s)", what, tag, rep.Tag, rep)
			}
			if rep.Type != refcodec.Rlerror && rep.Type != it.Frame[4]+1 {
				return failf("valid-frame-wrong-reply-type", "%s: answered %s", what, rep)
			}
			if rep.Type == refcodec.Rlerror && rep.U("ecode") == 5 && refcodec.IsT(it.Frame[4]) {
				// EIO is what the server answers to frames it could not decode
				return failf("valid-frame-rejected", "%s: a frame the reference codec accepts strictly was answered %s", what, rep)
			}
		}
		// probe
		probeTag++
		p := refcodec.New(refcodec.Tclunk, probeTag, "fid", probeFid)
		s.Send(refcodec.Encode(p))
		raw, err = s.Recv(20 * time.Second)
		want := refcodec.Encode(refcodec.New(refcodec.Rlerror, probeTag, "ecode", 9))
		if err != nil || !bytes.Equal(raw, want) {
			return failf("lost-sync-after:"+cls, "%s (oracle: %s): the following probe was answered %x (err %v), expected %x: the frame did not consume exactly its declared size or produced more than one reply", what, cls, raw, err, want)
		}
		if st != nil && cls != "valid" {
			st.rejectedThenProbe++
		}
	}
	return nil
}

// --- in-process stream oracle (rapid in the quick tier, native fuzzing in the thorough tier) ---

// checkStream feeds arbitrary bytes to the real receive function through the
// hook and compares every step with the reference codec.
func checkStream(data []byte, msize uint32) *fail {
	r := bytes.NewReader(data)
	for step := 0; step < 10000; step++ {
		pos := len(data) - r.Len()
		rest := data[pos:]
		var tag uint16
		var typ uint8
		var canon []byte
		var kind int
		var err error
		func() {
			defer func() {
				if p := recover(); p != nil {
					kind, err = 99, fmt.Errorf("panic: %v", p)
				}
			}()
			tag, typ, canon, kind, err = p9.VerifRecvReencode(r, msize)
		}()
		if kind == 99 {
			return failf("decoder-panic", "the receiver panicked at stream offset %d: %v (next bytes %x)", pos, err, rest[:min(len(rest), 40)])
		}
		consumed := len(data) - r.Len() - pos
		if len(rest) < 7 {
			if kind != 2 {
				return failf("short-header-not-conn-error", "stream ends %d bytes into a header at offset %d, the receiver reported kind %d", len(rest), pos, kind)
			}
			return nil
		}
		size := binary.LittleEndian.Uint32(rest)
		if size < 7 || size > msize || size > 4<<20 {
			if kind != 2 {
				return failf("bad-size-not-conn-error", "size field %d at offset %d (msize %d): the receiver reported kind %d err %v", size, pos, msize, kind, err)
			}
			if consumed != 7 {
				return failf("bad-size-body-read", "size field %d at offset %d: the receiver consumed %d bytes, it must stop after the 7 header bytes", size, pos, consumed)
			}
			return nil
		}
		if uint32(len(rest)) < size {
			if kind == 0 {
				return failf("truncated-frame-delivered", "stream ends %d bytes into a %d-byte frame at offset %d, the receiver delivered a message (type %d)", len(rest), size, pos, typ)
			}
			// a protocol error for a frame that would have been rejected anyway is fine
			return nil
		}
		frame := rest[:size]
		cls := frameClass(frame)
		if kind == 2 {
			return failf("complete-frame-conn-error:"+cls, "complete %d-byte frame at offset %d (oracle: %s): the receiver reported a connection error: %v", size, pos, cls, err)
		}
		if uint32(consumed) != size {
			return failf("consumed-not-size:"+cls, "frame at offset %d declares %d bytes (oracle: %s, kind %d): the receiver consumed %d", pos, size, cls, kind, consumed)
		}
		switch cls {
		case "valid":
			if kind != 0 {
				return failf("valid-frame-rejected", "frame %x at offset %d decodes strictly with the reference codec, the receiver rejected it: %v", frame[:min(len(frame), 64)], pos, err)
			}
			m, _ := refcodec.DecodeStrict(frame)
			want := refcodec.Encode(canonMasks(m))
			if !bytes.Equal(canon, want) || tag != m.Tag || typ != m.Type {
				return failf("valid-frame-wrong-values:"+refcodec.Name(m.Type), "frame at offset %d: delivered as %x, the reference codec reads %x (%s)", pos, canon[:min(len(canon), 80)], want[:min(len(want), 80)], m)
			}
		case "rejected":
			if kind != 1 {
				return failf("undecodable-frame-delivered", "frame %x at offset %d is rejected by the reference codec (even as a prefix), the receiver delivered type %d", frame[:min(len(frame), 64)], pos, typ)
			}
		case "trailing":
			if kind == 0 {
				m, _ := refcodec.DecodePrefix(frame)
				want := refcodec.Encode(canonMasks(m))
				if !bytes.Equal(canon, want) {
					return failf("trailing-frame-wrong-values:"+refcodec.Name(m.Type), "frame with trailing bytes at offset %d: delivered as %x, its prefix reads %x", pos, canon[:min(len(canon), 80)], want[:min(len(want), 80)])
				}
			}
		}
	}
	return nil
}

// frameClassPrefixKnown: a truncated frame whose type is registered (an
// unregistered type is rejected before the body is looked at, which is fine).
func frameClassPrefixKnown(rest []byte, size uint32) bool {
	_, ok := refcodec.Table[rest[4]]
	return ok
}

// canonMasks drops mask bits the API cannot represent (see DESIGN appendix A).
func canonMasks(m *refcodec.Msg) *refcodec.Msg {
	c := refcodec.Canon(m)
	switch m.Type {
	case refcodec.Tgetattr:
		c.F["request_mask"] = m.U("request_mask") & 0x3fff
	case refcodec.Rgetattr, refcodec.Rwalkgetattr:
		c.F["valid"] = m.U("valid") & 0x3fff
	case refcodec.Tsetattr:
		c.F["valid"] = m.U("valid") & 0x1ff
	}
	if m.Type == refcodec.Rreaddir {
		// only whole entries survive decode + encode; the reference decoder already dropped a partial tail
		c.F["entries"] = m.Ents("entries")
	}
	return c
}

type rawStreamCase struct {
	Data  []byte `json:"data"`
	Msize uint32 `json:"msize"`
}

func genRawStream(rt *rapid.T) rawStreamCase {
	var data []byte
	n := rapid.IntRange(1, 5).Draw(rt, "nframes")
	for i := 0; i < n; i++ {
		it := genFrame(rt)
		data = append(data, it.Frame...)
	}
	switch rapid.IntRange(0, 5).Draw(rt, "tail") {
	case 0:
		data = data[:rapid.IntRange(0, len(data)).Draw(rt, "cut")]
	case 1:
		data = append(data, rapid.SliceOfN(rapid.Byte(), 0, 20).Draw(rt, "junk")...)
	}
	return rawStreamCase{Data: data, Msize: rapid.SampledFrom([]uint32{c02Msize, 4096, 256, 4 << 20, 7, 8, 4<<20 + 1, 8 << 20, 1<<32 - 1}).Draw(rt, "msize")}
}

// --- the same streams through a real socket (vectorised receive path) ------------------
//
// The bytes are delivered over an AF_UNIX socket in the chunks given by the
// split points; the receiver must report, frame by frame, exactly what it
// reports when it reads the same bytes from memory - and must not panic.

type sockStreamCase struct {
	Data   []byte `json:"data"`
	Msize  uint32 `json:"msize"`
	Splits []int  `json:"splits"`
}

type recvStep struct {
	tag   uint16
	typ   uint8
	canon string
	kind  int
}

func recvAll(r io.Reader, msize uint32, limit int) (steps []recvStep, panicked string) {
	for len(steps) < limit {
		var st recvStep
		var canon []byte
		func() {
			defer func() {
				if p := recover(); p != nil {
					panicked = fmt.Sprint(p)
				}
			}()
			st.tag, st.typ, canon, st.kind, _ = p9.VerifRecvReencode(r, msize)
		}()
		if panicked != "" {
			return steps, panicked
		}
		st.canon = string(canon)
		steps = append(steps, st)
		if st.kind == 2 {
			return steps, ""
		}
	}
	return steps, ""
}

func runSockStreamCase(c sockStreamCase) *fail {
	want, wp := recvAll(bytes.NewReader(c.Data), c.Msize, 64)
	if wp != "" {
		return failf("decoder-panic", "the receiver panicked reading the stream from memory: %s", wp)
	}
	sock, err := vconn.NewSock()
	if err != nil {
		return failf("harness-sock", "HARNESS-ERROR %v", err)
	}
	defer sock.Close()
	sock.Conn.SetReadDeadline(time.Now().Add(30 * time.Second))
	type out struct {
		steps []recvStep
		p     string
	}
	done := make(chan out, 1)
	var stopped int32
	go func() {
		st, p := recvAll(sock.Conn, c.Msize, 64)
		atomic.StoreInt32(&stopped, 1)
		done <- out{st, p}
	}()
	prev := 0
	cuts := append(append([]int{}, c.Splits...), len(c.Data))
	sort.Ints(cuts)
	for _, sp := range cuts {
		if sp <= prev || sp > len(c.Data) {
			continue
		}
		// the receiver may stop reading for good (a fatal size field): then the rest is not delivered
		ok, derr := sock.DeliverUntil(c.Data[prev:sp], 10*time.Second, func() bool { return atomic.LoadInt32(&stopped) != 0 })
		if derr != nil {
			return failf("reader-stalled", "the receiver did not take bytes %d..%d of the stream: %v", prev, sp, derr)
		}
		if !ok {
			break
		}
		prev = sp
	}
	sock.CloseWrite()
	var got out
	select {
	case got = <-done:
	case <-time.After(20 * time.Second):
		return failf("reader-stalled", "the receiver did not finish after the stream had ended")
	}
	if got.p != "" {
		return failf("decoder-panic:socket", "the receiver panicked on the socket path (chunks at %v): %s", c.Splits, got.p)
	}
	for i := range want {
		if i >= len(got.steps) {
			return failf("socket-path-differs", "from memory the receiver reports %d frames/errors, over the socket (chunks at %v) only %d", len(want), c.Splits, len(got.steps))
		}
		w, g := want[i], got.steps[i]
		if w.kind != g.kind || (w.kind == 0 && (w.tag != g.tag || w.typ != g.typ || w.canon != g.canon)) {
			return failf("socket-path-differs", "frame %d: from memory kind=%d type=%d tag=%d (%d bytes), over the socket (chunks at %v) kind=%d type=%d tag=%d (%d bytes)", i, w.kind, w.typ, w.tag, len(w.canon), c.Splits, g.kind, g.typ, g.tag, len(g.canon))
		}
	}
	return nil
}

// --- several receivers in one process --------------------------------------------------
//
// Connections of one process receive at the same time (their readers yield the
// processor in the middle of frames, as a slow link would make them). Every
// receiver must still deliver exactly the field values of its own frames.

type yieldReader struct {
	r   *bytes.Reader
	max int
}

func (y *yieldReader) Read(p []byte) (int, error) {
	runtime.Gosched()
	if len(p) > y.max {
		p = p[:y.max]
	}
	return y.r.Read(p)
}

type concRecvCase struct {
	Receivers int `json:"receivers"`
	Frames    int `json:"frames"`
	MaxRead   int `json:"max_read"`
}

func runConcRecvCase(c concRecvCase) *fail {
	var mu sync.Mutex
	var first *fail
	var wg sync.WaitGroup
	for g := 0; g < c.Receivers; g++ {
		wg.Add(1)
		go func(g int) {
			defer wg.Done()
			defer func() {
				if p := recover(); p != nil {
					mu.Lock()
					if first == nil {
						first = failf("decoder-panic:concurrent", "a receiver panicked while other connections of the process were receiving: %v", p)
					}
					mu.Unlock()
				}
			}()
			var stream []byte
			var frames [][]byte
			for i := 0; i < c.Frames; i++ {
				var m *refcodec.Msg
				switch (g + i) % 3 {
				case 0:
					m = tSetattr(uint64(0x1000*g+i), 0x1ff, uint64(g), uint64(i)*7+uint64(g))
				case 1:
					m = tWrite(uint64(0x1000*g+i), uint64(i), strings.Repeat(string(rune('a'+g%26)), 1+(i*13)%90))
				default:
					m = tWalk(uint64(0x1000*g+i), uint64(g), fmt.Sprintf("n%d", g), fmt.Sprintf("m%d", i))
				}
				m.Tag = uint16(g*97 + i)
				fr := refcodec.Encode(m)
				frames = append(frames, fr)
				stream = append(stream, fr...)
			}
			r := &yieldReader{r: bytes.NewReader(stream), max: c.MaxRead}
			for i, want := range frames {
				_, _, canon, kind, err := p9.VerifRecvReencode(r, 1<<20)
				if kind != 0 || !bytes.Equal(canon, want) {
					mu.Lock()
					if first == nil {
						got, _ := refcodec.DecodePrefix(canon)
						sent, _ := refcodec.DecodeStrict(want)
						first = failf("valid-frame-wrong-values:concurrent-receivers", "receiver %d of %d, frame %d: sent %s, delivered kind=%d %v (%v): another connection's receive or send got into this one's buffers", g, c.Receivers, i, sent, kind, got, err)
					}
					mu.Unlock()
					return
				}
			}
		}(g)
	}
	wg.Wait()
	return first
}

var fuzzRun *evid.Run
var fuzzRunOnce sync.Once

// FuzzC02Recv is the coverage-guided tier: arbitrary bytes against the same oracle.
func FuzzC02Recv(f *testing.F) {
	for _, t := range refcodec.Types() {
		m := &refcodec.Msg{Type: t, Tag: 1, F: map[string]any{}}
		f.Add(refcodec.Encode(m))
	}
	for _, s := range []uint32{0, 6, 7, 8, c02Msize - 1, c02Msize, c02Msize + 1, 4<<20 + 1, 1 << 31, 1<<32 - 1} {
		b := refcodec.Encode(tClunk(1))
		setSize(b, s)
		f.Add(b)
	}
	f.Add(refcodec.Encode(tWalk(1, 2, "a", "b")))
	f.Add(refcodec.Encode(tWrite(1, 0, "payload")))
	if dir, err := os.ReadDir(filepath.Join("..", "corpus", "c02")); err == nil {
		for _, e := range dir {
			if b, err := os.ReadFile(filepath.Join("..", "corpus", "c02", e.Name())); err == nil {
				f.Add(b)
			}
		}
	}
	f.Fuzz(func(t *testing.T, data []byte) {
		if fl := checkStream(data, c02Msize); fl != nil {
			fuzzRunOnce.Do(func() { fuzzRun = evid.Begin(t, "C02") })
			if fuzzRun.Known(fl.Sig) {
				return
			}
			fuzzRun.Violation("stream", fl.Sig, fl.Msg, rawStreamCase{Data: data, Msize: c02Msize})
			t.Fatalf("FUZZ-VIOLATION replay=%s [%s] %s", fuzzRun.ReplayPath("stream", fl.Sig), fl.Sig, fl.Msg)
		}
	})
}

// --- client receive path -----------------------------------------------------------

type clientRecvCase struct {
	Reply []byte `json:"reply"` // what the fake server sends in answer to Tgetattr (tag patched in when TagOK)
	TagOK bool   `json:"tag_ok"`
	How   string `json:"how"`
}

func runClientRecvCase(c clientRecvCase) *fail {
	fk := peers.NewFake()
	defer fk.Close()
	stop := make(chan struct{})
	defer close(stop)
	var mu sync.Mutex
	var sent []byte
	go fk.Serve(stop, func(req *refcodec.Msg, raw []byte) []*refcodec.Msg {
		if req == nil {
			return nil
		}
		if req.Type == refcodec.Tgetattr {
			rep := append([]byte{}, c.Reply...)
			if c.TagOK && len(rep) >= 7 {
				binary.LittleEndian.PutUint16(rep[5:], req.Tag)
			}
			mu.Lock()
			sent = rep
			mu.Unlock()
			fk.Send(rep)
			return nil
		}
		return []*refcodec.Msg{peers.GenericReply(req, 0)}
	})
	cl, err := p9.NewClient(fk.Client)
	if err != nil {
		return failf("harness-newclient", "HARNESS-ERROR %v", err)
	}
	root, err := cl.Attach("")
	if err != nil {
		return failf("harness-attach", "HARNESS-ERROR %v", err)
	}
	defer runtime.KeepAlive(root)
	type res struct {
		q   p9.QID
		v   p9.AttrMask
		a   p9.Attr
		err error
	}
	ch := make(chan res, 1)
	go func() {
		defer func() {
			if p := recover(); p != nil {
				ch <- res{err: fmt.Errorf("PANIC: %v", p)}
			}
		}()
		q, v, a, err := root.GetAttr(p9.AttrMaskAll)
		ch <- res{q, v, a, err}
	}()
	var r res
	select {
	case r = <-ch:
	case <-time.After(200 * time.Millisecond):
		// the client may still be waiting for the rest of a frame whose size
		// field promises more bytes than were sent: end the stream
		fk.Close()
		select {
		case r = <-ch:
		case <-time.After(20 * time.Second):
			return failf("client-call-hangs", "GetAttr did not return after the server sent %x (%s) and closed the connection", c.Reply[:min(len(c.Reply), 64)], c.How)
		}
	}
	if r.err != nil && len(r.err.Error()) > 6 && r.err.Error()[:6] == "PANIC:" {
		return failf("client-panic", "the client panicked on reply %x (%s): %v", c.Reply[:min(len(c.Reply), 64)], c.How, r.err)
	}
	mu.Lock()
	rep := sent
	mu.Unlock()
	size := uint32(0)
	if len(rep) >= 4 {
		size = sizeField(rep)
	}
	wellDelimited := len(rep) >= 7 && size == uint32(len(rep)) && size <= p9.DefaultMessageSize
	if !wellDelimited || !c.TagOK {
		if r.err == nil {
			return failf("client-accepted-bad-frame", "GetAttr succeeded although the reply %x (%s) is not a well-delimited frame for its tag", rep[:min(len(rep), 64)], c.How)
		}
		return nil
	}
	m, serr := refcodec.DecodeStrict(rep)
	_, perr := refcodec.DecodePrefix(rep)
	switch {
	case serr == nil && m.Type == refcodec.Rgetattr:
		if r.err != nil {
			return failf("client-rejected-valid-reply", "GetAttr failed with %v on a valid Rgetattr", r.err)
		}
		if qidR(r.q) != m.Q("qid") || maskU(r.v) != m.U("valid")&0x3fff || attrR(r.a) != m.A("attr") {
			return failf("client-wrong-values", "GetAttr returned %v %v %v for %s", r.q, r.v, r.a, m)
		}
	case serr == nil && m.Type == refcodec.Rlerror:
		if r.err == nil {
			return failf("client-ignored-rlerror", "GetAttr succeeded although the server answered %s", m)
		}
	case perr != nil || (serr == nil && m.Type != refcodec.Rgetattr):
		// undecodable, or a reply type that does not match the request
		if r.err == nil {
			return failf("client-accepted-bad-frame", "GetAttr succeeded although the reply %x (%s) cannot be an answer to it", rep[:min(len(rep), 64)], c.How)
		}
	}
	return nil
}

func genClientRecvCase(rt *rapid.T) clientRecvCase {
	a := refcodec.Attr{}
	for i := range a {
		a[i] = genU64(rt, "a")
		if i < 3 {
			a[i] &= 0xffffffff
		}
	}
	good := refcodec.Encode(refcodec.New(refcodec.Rgetattr, 0, "valid", uint64(rapid.IntRange(0, 0x3fff).Draw(rt, "valid")), "qid", refcodec.QID{Type: rapid.Byte().Draw(rt, "qt"), Version: genU32(rt, "qv"), Path: genU64(rt, "qp")}, "attr", a))
	c := clientRecvCase{Reply: good, TagOK: true, How: "valid"}
	switch rapid.IntRange(0, 9).Draw(rt, "how") {
	case 0, 1:
	case 2:
		c.Reply = refcodec.Encode(refcodec.New(refcodec.Rlerror, 0, "ecode", genU32(rt, "ecode")))
		c.How = "rlerror"
	case 3:
		n := rapid.IntRange(7, len(good)-1).Draw(rt, "cut")
		c.Reply = append([]byte{}, good[:n]...)
		setSize(c.Reply, uint32(n))
		c.How = "truncated-body"
	case 4:
		it := genFrame(rt)
		c.Reply, c.How = it.Frame, "generated:"+it.How
	case 5:
		c.TagOK = false
		binary.LittleEndian.PutUint16(c.Reply[5:], 0x7777)
		c.How = "unknown-tag"
	case 6:
		c.Reply[4] = rapid.SampledFrom([]byte{refcodec.Rstatfs, refcodec.Rwalk, refcodec.Tgetattr, refcodec.Rread, 0, 255}).Draw(rt, "wrongtype")
		c.How = "wrong-reply-type"
	case 7:
		c.Reply = append([]byte{}, good[:rapid.IntRange(0, len(good)-1).Draw(rt, "part")]...)
		c.How = "stream-ends-mid-frame"
	case 8:
		setSize(c.Reply, rapid.SampledFrom([]uint32{0, 6, 1 << 20, 1<<32 - 1}).Draw(rt, "badsize"))
		c.How = "bad-size-field"
	default:
		for k := rapid.IntRange(1, 3).Draw(rt, "nflip"); k > 0; k-- {
			i := rapid.IntRange(7, len(c.Reply)-1).Draw(rt, "pos")
			c.Reply[i] ^= 1 << rapid.IntRange(0, 7).Draw(rt, "bit")
		}
		c.How = "bit-flips-in-body"
	}
	return c
}

// --- bounded buffering ----------------------------------------------------------------

func allocDuring(fn func()) uint64 {
	runtime.GC()
	var a, b runtime.MemStats
	runtime.ReadMemStats(&a)
	fn()
	runtime.ReadMemStats(&b)
	return b.TotalAlloc - a.TotalAlloc
}

func runAllocCase(size uint32, msize uint32) *fail {
	s := peers.Start(p9.NewServer(nullAttacher{}))
	defer s.Close(10 * time.Second)
	if _, err := s.Version(msize, "9P2000.L.Google.7"); err != nil {
		return failf("harness-version", "HARNESS-ERROR %v", err)
	}
	neg := msize
	if neg > 4<<20 {
		neg = 4 << 20
	}
	hdr := refcodec.Encode(tClunk(1))[:7]
	setSize(hdr, size)
	var ended bool
	got := allocDuring(func() {
		s.Send(hdr)
		if size < 7 || size > neg {
			select {
			case <-s.Done():
				ended = true
			case <-time.After(20 * time.Second):
			}
		} else {
			s.C2S.WaitBlockedAt(s.C2S.Written(), 5*time.Second)
			time.Sleep(5 * time.Millisecond)
		}
	})
	if size < 7 || size > neg {
		if !ended {
			return failf("bad-size-not-fatal", "header with size %d (msize %d): the connection did not end", size, neg)
		}
		if got > 1<<20 {
			return failf("unbounded-buffering", "header with out-of-range size %d (msize %d): %d bytes were allocated", size, neg, got)
		}
		return nil
	}
	if got > uint64(size)+2<<20 {
		return failf("unbounded-buffering", "header announcing a %d-byte frame (msize %d): %d bytes were allocated", size, neg, got)
	}
	return nil
}

func init() {
	replayRegistrars = append(replayRegistrars, func() {
		registerReplay("C02/server-stream", func(c streamCase) *fail { return runStreamCase(c, nil) })
		registerReplay("C02/renegotiated-limit", runRenegCase)
		registerReplay("C02/client-limit", runClientLimitCase)
		registerReplay("C02/socket-stream", runSockStreamCase)
		registerReplay("C02/concurrent-receivers", runConcRecvCase)
		registerReplay("C02/stream", func(c rawStreamCase) *fail { return checkStream(c.Data, c.Msize) })
		registerReplay("C02/client-recv", runClientRecvCase)
	})
}

func TestC02(t *testing.T) {
	h := begin(t, "C02")
	defer h.Finish()
	env := h.Env

	if env.Shard == 0 {
		// truncation of every frame type at every offset (in process)
		for _, typ := range refcodec.Types() {
			m := &refcodec.Msg{Type: typ, Tag: 3, F: map[string]any{}}
			switch typ {
			case refcodec.Twalk:
				m = tWalk(1, 2, "ab", "c")
			case refcodec.Twrite:
				m = tWrite(1, 2, "data")
			case refcodec.Rread:
				m = refcodec.New(refcodec.Rread, 3, "data", []byte("data"))
			}
			full := refcodec.Encode(m)
			for cut := 0; cut <= len(full); cut++ {
				// (a) the stream simply ends there, (b) the size field says so
				f := checkStream(full[:cut], c02Msize)
				h.Case(evid.Hash64([]byte("cutA"), full, u32b(uint32(cut))), cut > 0 && cut < len(full), "truncation:stream-ends")
				if h.report("stream", f, rawStreamCase{full[:cut], c02Msize}) {
					return
				}
				if cut >= 7 {
					g := append([]byte{}, full[:cut]...)
					setSize(g, uint32(cut))
					g = append(g, refcodec.Encode(tClunk(9))...)
					f := checkStream(g, c02Msize)
					h.Case(evid.Hash64([]byte("cutB"), full, u32b(uint32(cut))), cut < len(full), "truncation:consistent-size")
					if h.report("stream", f, rawStreamCase{g, c02Msize}) {
						return
					}
				}
			}
		}
		h.Exhaustive("every registered type truncated at every offset (stream end / consistent size field)")
		// the 4 MiB ceiling holds whatever limit the receiver was configured with
		for _, ms := range []uint32{4 << 20, 4<<20 + 1, 8 << 20, 1<<32 - 1} {
			for _, sz := range []uint32{4<<20 - 1, 4 << 20, 4<<20 + 1, 8 << 20, 1<<32 - 1} {
				g := append(refcodec.Encode(tClunk(1))[:7:7], make([]byte, 300)...)
				setSize(g, sz)
				f := checkStream(g, ms)
				h.Case(evid.Hash64([]byte("ceiling"), u32b(ms, sz)), true, "size-ceiling")
				if h.report("stream", f, rawStreamCase{g, ms}) {
					return
				}
			}
		}
		// bounded buffering
		for _, sz := range []uint32{0, 6, 7, 4096, 4<<20 - 1, 4 << 20, 4<<20 + 1, 1 << 31, 1<<32 - 1} {
			for _, ms := range []uint32{8192, 4 << 20, 1<<32 - 1} {
				f := runAllocCase(sz, ms)
				h.Case(evid.Hash64([]byte("alloc"), u32b(sz, ms)), true, "bounded-buffering")
				if h.report("alloc", f, map[string]uint32{"size": sz, "msize": ms}) {
					return
				}
			}
		}
	}

	// the client as receiver behind a server that lowered msize
	rapidCases(h, "client-limit", env.PerShard(env.Pick(1200, 40000)), func(rt *rapid.T) clientLimitCase {
		c := clientLimitCase{Ask: rapid.SampledFrom([]uint32{8192, 65536, 1 << 20}).Draw(rt, "ask")}
		c.Offer = rapid.SampledFrom([]uint32{4096, 8192, 20000, 60000}).Draw(rt, "offer")
		if c.Offer > c.Ask {
			c.Offer = c.Ask
		}
		c.Size = rapid.SampledFrom([]uint32{c.Offer, c.Offer - 1, c.Offer + 1, c.Offer + 1000, c.Ask, c.Ask + 1, (c.Offer + c.Ask) / 2, 4000, 100}).Draw(rt, "size")
		if c.Size <= c.Offer && c.Size > 60000 {
			c.Size = 60000 // (a name holds at most 65535 bytes)
		}
		return c
	}, func(c clientLimitCase) *fail {
		h.Case(evid.HashJSON(c), c.Offer < c.Ask && c.Size > c.Offer && c.Size <= c.Ask, "client-limit")
		if h.WantSample("client-limit") {
			h.Sample("client-limit", c)
		}
		return runClientLimitCase(c)
	})
	// the limit that applies to the first frame after a second Tversion
	rapidCases(h, "renegotiated-limit", env.PerShard(env.Pick(4000, 160000)), func(rt *rapid.T) renegCase {
		c := renegCase{First: rapid.SampledFrom([]uint32{4096, 8192, 65536, 1 << 20}).Draw(rt, "first"),
			Second:  rapid.SampledFrom([]uint32{200, 4096, 8192, 65536, 1 << 20}).Draw(rt, "second"),
			PauseUs: rapid.SampledFrom([]int{0, 50, 300, 1000, 3000}).Draw(rt, "pause"), Probes: rapid.IntRange(0, 3).Draw(rt, "probes"),
			Refused: rapid.IntRange(0, 3).Draw(rt, "refused") == 0}
		lo, hi := min(c.First, c.Second), max(c.First, c.Second)
		c.Size = rapid.SampledFrom([]uint32{c.Second + 1, c.Second, c.Second - 1, c.First + 1, c.First, lo + 1, hi, hi + 1, (lo + hi) / 2, 6, 7, 11, 23, 24}).Draw(rt, "size")
		return c
	}, func(c renegCase) *fail {
		h.Case(evid.HashJSON(c), c.First != c.Second && c.Size > min(c.First, c.Second) && c.Size <= max(c.First, c.Second), "renegotiated-limit")
		if c.First != c.Second && h.WantSample("renegotiated-limit") {
			h.Sample("renegotiated-limit", c)
		}
		return runRenegCase(c)
	})
	rapidCases(h, "server-stream", env.PerShard(env.Pick(12000, 400000)), func(rt *rapid.T) streamCase {
		var c streamCase
		n := rapid.IntRange(1, 8).Draw(rt, "n")
		for i := 0; i < n; i++ {
			c.Items = append(c.Items, genFrame(rt))
		}
		return c
	}, func(c streamCase) *fail {
		st := &streamStats{classes: map[string]int{}}
		f := runStreamCase(c, st)
		var parts [][]byte
		for _, it := range c.Items {
			parts = append(parts, it.Frame)
		}
		h.Case(evid.Hash64(parts...), st.rejectedThenProbe > 0 || st.fatal > 0, "server-stream")
		for k, v := range st.classes {
			h.Count("frames:"+k, int64(v))
		}
		h.Count("frames:fatal-size", int64(st.fatal))
		if st.rejectedThenProbe > 1 && h.WantSample("server-stream") {
			var hows []string
			for _, it := range c.Items {
				hows = append(hows, fmt.Sprintf("%s:%dB:type%d", it.How, len(it.Frame), it.Frame[4]))
			}
			h.Sample("server-stream", hows)
		}
		return f
	})

	rapidCases(h, "stream", env.PerShard(env.Pick(200000, 4000000)), genRawStream, func(c rawStreamCase) *fail {
		f := checkStream(c.Data, c.Msize)
		h.Case(evid.Hash64(c.Data, u32b(c.Msize)), len(c.Data) > 7, "in-process-stream")
		return f
	})

	for rep := 0; rep < env.Pick(48, 960)/env.NShards+1; rep++ {
		c := concRecvCase{Receivers: 8 + (rep%4)*8, Frames: 60, MaxRead: []int{3, 7, 16, 1 << 20}[rep%4]}
		f := runConcRecvCase(c)
		h.Case(evid.HashJSON(c)+uint64(rep*64+env.Shard), true, "concurrent-receivers")
		if h.report("concurrent-receivers", f, c) {
			return
		}
	}
	rapidCases(h, "socket-stream", env.PerShard(env.Pick(4000, 200000)), func(rt *rapid.T) sockStreamCase {
		rc := genRawStream(rt)
		c := sockStreamCase{Data: rc.Data, Msize: rc.Msize}
		// split points: frame-internal boundaries (after the header, after 4/8/16 more bytes) and random ones
		off := 0
		for off+7 <= len(c.Data) && len(c.Splits) < 12 {
			sz := int(binary.LittleEndian.Uint32(c.Data[off:]))
			if sz < 7 || off+sz > len(c.Data) {
				break
			}
			for _, d := range []int{7, 11, 15, 23, 27, sz - 1} {
				if d > 0 && d < sz && rapid.IntRange(0, 3).Draw(rt, "pick") == 0 {
					c.Splits = append(c.Splits, off+d)
				}
			}
			off += sz
		}
		for k := rapid.IntRange(0, 3).Draw(rt, "nrand"); k > 0 && len(c.Data) > 1; k-- {
			c.Splits = append(c.Splits, rapid.IntRange(1, len(c.Data)-1).Draw(rt, "rs"))
		}
		sort.Ints(c.Splits)
		return c
	}, func(c sockStreamCase) *fail {
		var sp []uint32
		for _, x := range c.Splits {
			sp = append(sp, uint32(x))
		}
		h.Case(evid.Hash64(c.Data, u32b(c.Msize), u32b(sp...)), len(c.Splits) > 0, "socket-stream")
		return runSockStreamCase(c)
	})
	rapidCases(h, "client-recv", env.PerShard(env.Pick(2400, 60000)), genClientRecvCase, func(c clientRecvCase) *fail {
		h.Danger("client-recv", "client-panic", "the client process died while receiving a reply", c)
		f := runClientRecvCase(c)
		h.Safe()
		h.Case(evid.Hash64(c.Reply, []byte{b2u(c.TagOK)}), c.How != "valid", "client-recv:"+c.How)
		if c.How != "valid" && h.WantSample("client-recv") {
			h.Sample("client-recv", map[string]any{"how": c.How, "reply_hex": fmt.Sprintf("%x", c.Reply[:min(len(c.Reply), 80)])})
		}
		return f
	})

	// replay tier: saved corpus inputs
	if env.Shard == 0 {
		dir := filepath.Join("..", "corpus", "c02")
		if ents, err := os.ReadDir(dir); err == nil {
			for _, e := range ents {
				if b, err := os.ReadFile(filepath.Join(dir, e.Name())); err == nil {
					f := checkStream(b, c02Msize)
					h.Case(evid.Hash64([]byte("corpus"), b), true, "saved-corpus")
					if h.report("stream", f, rawStreamCase{b, c02Msize}) {
						return
					}
				}
			}
		}
	}
}
