package checks

import (
	"fmt"
	"strings"
	"testing"
	"time"

	"p9verif/evid"
	"p9verif/memfs"
	"p9verif/memtree"
	"p9verif/peers"
	"p9verif/refcodec"

	"github.com/hugelgupf/p9/p9"
	"pgregory.net/rapid"
)

// ---------------------------------------------------------------------------
// shared: a pipelined raw session over an instrumented backend where every
// request works on its own fid (a clone of the root walked to its own
// directory), so that the harness can hold each one separately.

type pipe struct {
	fs      *memfs.FS
	srv     *p9.Server
	s       *peers.Session
	s2      *peers.Session // second connection to the same server
	handles map[uint64]int // fid -> backend handle
	frames  []*refcodec.Msg
	rawErr  *fail
}

// slots: fid 100+i is bound to /P/kdX (cloned per slot) — all slots share the
// path but have their own File, so read-class requests on them are unordered.
func newPipe(nslots int, native bool) (*pipe, *fail) {
	fs := memfs.New(memfs.Options{NativeWalkGetAttr: native})
	populateCC(fs.Tree)
	p := &pipe{fs: fs, srv: p9.NewServer(fs), handles: map[uint64]int{}}
	p.s = peers.Start(p.srv)
	p.s2 = peers.Start(p.srv)
	p.s.S2C.YieldOnWrite(true)
	for _, s := range []*peers.Session{p.s, p.s2} {
		if _, err := s.Version(64<<10, "9P2000.L.Google.7"); err != nil {
			return nil, failf("harness-version", "HARNESS-ERROR %v", err)
		}
		r, err := s.Call(withTag(tAttach(0, nofid, ""), 1))
		if err != nil || r.Type == refcodec.Rlerror {
			return nil, failf("harness-attach", "HARNESS-ERROR attach: %v %v", r, err)
		}
	}
	for i := 0; i < nslots; i++ {
		fid := uint64(100 + i)
		before := fs.Seq()
		r, err := p.s.Call(withTag(tWalk(0, fid, "P", "kdX"), 2))
		if err != nil || r.Type == refcodec.Rlerror {
			return nil, failf("harness-walk", "HARNESS-ERROR walk: %v %v", r, err)
		}
		for _, c := range fs.LogSince(before) {
			if c.New != 0 {
				p.handles[fid] = c.New
			}
		}
	}
	// an open file for reads/writes: fid 90
	for _, m := range []*refcodec.Msg{tWalk(0, 90, "P", "kfX"), tOpen(90, 2), tWalk(0, 91, "P", "kdA"), tWalk(0, 92, "P", "kdB")} {
		before := fs.Seq()
		r, err := p.s.Call(withTag(m, 3))
		if err != nil || r.Type == refcodec.Rlerror {
			return nil, failf("harness-setup", "HARNESS-ERROR %s: %v %v", m, r, err)
		}
		if m.Type == refcodec.Twalk {
			for _, c := range fs.LogSince(before) {
				if c.New != 0 {
					p.handles[m.U("newfid")] = c.New
				}
			}
		}
	}
	r, err := p.s2.Call(withTag(tWalk(0, 100, "P", "kdX"), 2))
	if err != nil || r.Type == refcodec.Rlerror {
		return nil, failf("harness-walk2", "HARNESS-ERROR %v %v", r, err)
	}
	return p, nil
}

func withTag(m *refcodec.Msg, tag uint16) *refcodec.Msg {
	m.Tag = tag
	return m
}

// drain collects every complete reply frame available within d of quiet time.
func (p *pipe) drain(d time.Duration) *fail {
	for {
		raw, err := p.s.Recv(d)
		if err != nil {
			return nil
		}
		m, derr := refcodec.DecodeStrict(raw)
		if derr != nil {
			return failf("reply-stream-corrupt", "reply frame %x does not parse strictly (%v): interleaved or malformed frames", raw, derr)
		}
		p.frames = append(p.frames, m)
	}
}

// waitFor waits until a reply with the tag (counting from the n-th such
// reply) has arrived.
func (p *pipe) waitFor(tag uint16, nth int, d time.Duration) (bool, *fail) {
	deadline := time.Now().Add(d)
	for {
		n := 0
		for _, f := range p.frames {
			if f.Tag == tag {
				n++
			}
		}
		if n >= nth {
			return true, nil
		}
		if time.Now().After(deadline) {
			return false, nil
		}
		if f := p.drain(2 * time.Millisecond); f != nil {
			return false, f
		}
	}
}

func (p *pipe) count(tag uint16) int {
	n := 0
	for _, f := range p.frames {
		if f.Tag == tag {
			n++
		}
	}
	return n
}

func (p *pipe) close() *fail {
	p.fs.ClearGates()
	ok1 := p.s.Close(20 * time.Second)
	ok2 := p.s2.Close(20 * time.Second)
	if !ok1 || !ok2 {
		return failf("handle-did-not-return", "Server.Handle did not return within 20 s after the request stream ended; inside backend: %v", p.fs.Inside())
	}
	return p.drain(time.Millisecond)
}

// ---------------------------------------------------------------------------
// C06 — exactly one tagged reply per request; requests served concurrently

type batchReq struct {
	Kind string `json:"kind"` // gated | free | statfs | badfid | flush-own | flush-idle | flush-of | mkdir | walk | unknown-type
	Tag  uint16 `json:"tag"`
	Of   int    `json:"of,omitempty"` // flush-of: index of the target request
	// Held (gated only): which backend call the request is held in: "" GetAttr of
	// a Tgetattr; "clunk" the Close made by a Tclunk; "replace" the Close of the
	// File a Twalk's newfid was bound to before
	Held string `json:"held,omitempty"`
}

type batchCase struct {
	Native  bool       `json:"native_walkgetattr"`
	Reqs    []batchReq `json:"reqs"`
	Release []int      `json:"release"` // order in which gated requests are released (indices into Reqs)
	// Fatal: before the releases the request stream ends in a way that stops the
	// server's receiver for good (oversize | undersize | halfclose); the requests
	// already received must still be answered
	Fatal string `json:"fatal,omitempty"`
}

type batchStats struct {
	inFlightAtOnce int
	dupInFlight    int
	reuse          int
}

func runBatchCase(c batchCase, st *batchStats) *fail {
	p, f := newPipe(len(c.Reqs), c.Native)
	if f != nil {
		return f
	}
	defer p.close()
	type state struct {
		sent      bool
		certain   bool // tag was certainly free when sent: exactly one reply required
		gated     bool
		gate      *memfs.Gate
		released  bool
		wantAfter int // flush-of: index of the gated target (reply only after its release), -1 none
		rtype     uint8
	}
	sts := make([]*state, len(c.Reqs))
	tagReqs := map[uint16]int{}
	heldTags := map[uint16]bool{}
	desc := func() string { return fmt.Sprintf("%+v", c) }
	build := func(i int, r batchReq) *refcodec.Msg {
		fid := uint64(100 + i)
		var m *refcodec.Msg
		switch r.Kind {
		case "gated", "free":
			m = tGetattr(fid)
			if r.Kind == "gated" && r.Held == "clunk" {
				m = tClunk(fid)
			} else if r.Kind == "gated" && r.Held == "replace" {
				m = tWalk(0, fid, "P", "kdB")
			}
		case "statfs":
			m = tStatfs(fid)
		case "badfid":
			m = tClunk(7777)
		case "flush-own":
			m = tFlush(uint64(r.Tag))
		case "flush-idle":
			m = tFlush(0x7A7A)
		case "flush-of":
			m = tFlush(uint64(c.Reqs[r.Of].Tag))
		case "mkdir":
			// on another directory: a write-class call is ordered after the
			// held read-class calls on its own path by the File contract
			m = tMkdir(91, fmt.Sprintf("b%d", i))
		case "walk":
			m = tWalk(fid, uint64(200+i), "wA")
		default:
			m = tGetattr(fid)
		}
		m.Tag = r.Tag
		return m
	}
	for i, r := range c.Reqs {
		s := &state{wantAfter: -1}
		sts[i] = s
		m := build(i, r)
		s.rtype = m.Type + 1
		if r.Kind == "unknown-type" && !heldTags[r.Tag] && tagReqs[r.Tag] == 0 {
			// a frame the server rejects when it receives it (answered with Rlerror
			// and the same tag by the receiving goroutine itself)
			s.rtype, s.certain, s.sent = refcodec.Rlerror, true, true
			p.s.Send(refcodec.Frame(99, r.Tag, []byte{9, 8, 7, 6, 5, 4, 3}))
			tagReqs[r.Tag]++
			continue
		}
		// is this tag in flight for certain (an earlier request with it is held)?
		if heldTags[r.Tag] {
			// duplicate of an in-flight tag: the server may drop it; not gated
			if st != nil {
				st.dupInFlight++
			}
			s.certain = false
			if r.Kind == "gated" || r.Kind == "mkdir" {
				m = tStatfs(uint64(100 + i))
				m.Tag = r.Tag
				s.rtype = m.Type + 1
			}
			p.s.Send(refcodec.Encode(m))
			s.sent = true
			tagReqs[r.Tag]++
			continue
		}
		// tag used before by a request that is not held: make sure its reply has arrived
		if tagReqs[r.Tag] > 0 {
			ok, f := p.waitFor(r.Tag, tagReqs[r.Tag], 20*time.Second)
			if f != nil {
				return f
			}
			if !ok {
				// may legitimately be waiting behind a held request (flush-of); then the tag is in flight
				s.certain = false
				p.s.Send(refcodec.Encode(m))
				s.sent = true
				tagReqs[r.Tag]++
				continue
			}
			if st != nil {
				st.reuse++
			}
		}
		s.certain = true
		if r.Kind == "gated" {
			h := p.handles[uint64(100+i)]
			s.gated = true
			op := "GetAttr"
			if r.Held != "" {
				op = "Close"
			}
			s.gate = memfs.NewGate(func(cl *memfs.Call) bool { return cl.Handle == h && cl.Op == op })
			p.fs.AddGate(s.gate)
			heldTags[r.Tag] = true
		}
		if r.Kind == "flush-of" {
			// the flush names a tag; it waits for whatever request holds that tag now
			ttag := c.Reqs[r.Of].Tag
			if heldTags[ttag] {
				for j := i - 1; j >= 0; j-- {
					if c.Reqs[j].Tag == ttag && (sts[j].gated || sts[j].wantAfter >= 0) {
						s.wantAfter = j
						break
					}
				}
				if s.wantAfter < 0 {
					s.wantAfter = r.Of
				}
				heldTags[r.Tag] = true // the flush itself stays in flight until its target is done
			}
		}
		p.s.Send(refcodec.Encode(m))
		s.sent = true
		tagReqs[r.Tag]++
		if strings.HasPrefix(r.Kind, "flush") && s.wantAfter < 0 {
			// a flush that names nothing in flight is answered at once; wait for
			// it before any later request may re-use the tag it names (the server
			// would otherwise be entitled to make the flush wait for that request)
			ok, f := p.waitFor(r.Tag, tagReqs[r.Tag], 20*time.Second)
			if f != nil {
				return f
			}
			if !ok {
				return failf("flush-not-answered-at-once", "request %d (%s) names a tag that is not in flight but was not answered within 20 s: %s", i, m, desc())
			}
		}
		if s.gated {
			select {
			case <-s.gate.Entered:
			case <-time.After(20 * time.Second):
				return failf("request-not-served:gated", "request %d (%s) never reached the backend while %d others were held: %s", i, m, len(heldTags)-1, desc())
			}
		}
	}
	held := 0
	for _, s := range sts {
		if s.gated {
			held++
		}
	}
	if st != nil {
		st.inFlightAtOnce = held
	}
	// every certain request that is not held must be answered now, while the
	// gated ones are still inside the backend
	need := map[uint16]int{}
	for i, r := range c.Reqs {
		s := sts[i]
		if s.certain && !s.gated && s.wantAfter < 0 {
			need[r.Tag]++
		}
	}
	// count replies already required for tags (earlier certain requests with the same tag)
	for tag, n := range need {
		ok, f := p.waitFor(tag, n, 20*time.Second)
		if f != nil {
			return f
		}
		if !ok {
			return failf("request-delayed-by-unrelated-blocked-request", "with %d request(s) held inside the backend, %d reply(ies) for tag %d did not arrive within 20 s (got %d): %s", held, n, tag, p.count(tag), desc())
		}
	}
	// another connection to the same server is served as well
	if held > 0 {
		r, err := p.s2.Call(withTag(tGetattr(100), 9))
		if err != nil || r.Type != refcodec.Rgetattr {
			return failf("other-connection-delayed", "with %d request(s) held on one connection, a getattr on another connection got %v / %v", held, r, err)
		}
	}
	switch c.Fatal {
	case "oversize", "undersize":
		bad := refcodec.Encode(withTag(tStatfs(0), 0x7e7e))
		if c.Fatal == "oversize" {
			bad[0], bad[1], bad[2], bad[3] = 0xff, 0xff, 0xff, 0x7f
		} else {
			bad[0], bad[1], bad[2], bad[3] = 3, 0, 0, 0
		}
		p.s.Send(bad)
		time.Sleep(10 * time.Millisecond)
	case "halfclose":
		p.s.C2S.CloseWrite()
		time.Sleep(10 * time.Millisecond)
	}
	// release in the given order; each release must produce that request's reply
	for _, idx := range c.Release {
		if idx < 0 || idx >= len(sts) || !sts[idx].gated || sts[idx].released {
			continue
		}
		s := sts[idx]
		s.gate.Release()
		s.released = true
		tag := c.Reqs[idx].Tag
		ok, f := p.waitFor(tag, p.count(tag)+1, 20*time.Second)
		if f != nil {
			return f
		}
		if !ok {
			return failf("no-reply-after-release", "request %d (tag %d) was released inside the backend but no reply arrived within 20 s: %s", idx, tag, desc())
		}
	}
	for _, s := range sts {
		if s.gated && !s.released {
			s.gate.Release()
			s.released = true
		}
	}
	// settle: all certain requests must end up with their replies
	certain := map[uint16]int{}
	for i, r := range c.Reqs {
		if sts[i].certain {
			certain[r.Tag]++
		}
	}
	for tag, n := range certain {
		ok, f := p.waitFor(tag, n, 20*time.Second)
		if f != nil {
			return f
		}
		if !ok {
			return failf("missing-reply", "tag %d: %d request(s) whose tag was free when sent, %d reply(ies): %s", tag, n, p.count(tag), desc())
		}
	}
	if f := p.close(); f != nil {
		return f
	}
	// final accounting over the complete reply stream
	got := map[uint16]int{}
	for _, fr := range p.frames {
		got[fr.Tag]++
	}
	for tag, n := range got {
		if n > tagReqs[tag] {
			return failf("more-replies-than-requests", "tag %d: %d request(s), %d reply(ies): %s", tag, tagReqs[tag], n, desc())
		}
	}
	for tag, n := range certain {
		if got[tag] < n {
			return failf("missing-reply", "tag %d: %d certain request(s), %d reply(ies): %s", tag, n, got[tag], desc())
		}
	}
	// reply types: the matching R-type of some request with that tag, or Rlerror
	for _, fr := range p.frames {
		if fr.Type == refcodec.Rlerror {
			continue
		}
		ok := false
		for i, r := range c.Reqs {
			if r.Tag == fr.Tag && sts[i].rtype == fr.Type {
				ok = true
			}
		}
		if !ok {
			return failf("reply-type-mismatch", "reply %s matches no request with tag %d: %s", fr, fr.Tag, desc())
		}
	}
	return nil
}

// noneClassCase: a request is held inside a backend call for which the File
// interface gives no concurrency guarantee (StatFS, Close, Lock); the contract
// therefore orders nothing behind it, and any other request - a write-class
// operation on the same path and a rename included - must complete while it is
// still held, on the same and on another connection.
type noneClassCase struct {
	Native  bool   `json:"native_walkgetattr"`
	Held    string `json:"held"`  // lock | statfs | close
	Other   string `json:"other"` // setattr-same-path | mkdir-same-dir | unlinkat | renameat | getattr | walk | create
	TwoConn bool   `json:"two_connections"`
}

var noneClassHeld = []string{"lock", "statfs", "close"}
var noneClassOthers = []string{"setattr-same-path", "mkdir-same-dir", "unlinkat", "renameat", "getattr", "walk", "create"}

// read-class calls held, and requests that nothing orders after them
var readClassHeld = []string{"read", "write", "getattr-held"}
var readClassOthers = []string{"version", "getattr-elsewhere", "read-same-file", "getattr"}

func runNoneClassCase(c noneClassCase) *fail {
	p, f := newPipe(1, c.Native)
	if f != nil {
		return f
	}
	defer p.close()
	desc := fmt.Sprintf("%+v", c)
	// the held request works on fid 100 (a clone of /P/kdX) or on fid 90 (/P/kfX, open)
	var held *refcodec.Msg
	var op string
	var hh int
	switch c.Held {
	case "lock":
		held, op, hh = tLock(90), "Lock", p.handles[90]
	case "statfs":
		held, op, hh = tStatfs(100), "StatFS", p.handles[100]
	case "link": // write-class on the directory /P/kdB only; its target /P/kfX is not ordered after it
		held, op, hh = tLink(92, 90, "hl"), "Link", p.handles[92]
	case "read": // read-class calls: only requests the contract does not order after them are tried
		held, op, hh = tRead(90, 0, 4), "ReadAt", p.handles[90]
	case "write":
		held, op, hh = tWrite(90, 0, "zz"), "WriteAt", p.handles[90]
	case "getattr-held":
		held, op, hh = tGetattr(100), "GetAttr", p.handles[100]
	default:
		held, op, hh = tClunk(100), "Close", p.handles[100]
	}
	gate := memfs.NewGate(func(cl *memfs.Call) bool { return cl.Op == op && cl.Handle == hh })
	p.fs.AddGate(gate)
	defer gate.Release()
	// the other request's fids are bound first (on the connection that will send it)
	o := p.s
	if c.TwoConn {
		o = p.s2
	}
	prep := []*refcodec.Msg{tWalk(0, 70, "P", "kfX"), tWalk(0, 71, "P", "kdX"), tWalk(0, 72, "P", "kdA"), tWalk(0, 73, "P", "kdB")}
	for i, m := range prep {
		if r, err := o.Call(withTag(m, uint16(200+i))); err != nil || r.Type == refcodec.Rlerror {
			return failf("harness-setup", "HARNESS-ERROR %s: %v %v", m, r, err)
		}
	}
	held.Tag = 50
	p.s.Send(refcodec.Encode(held))
	select {
	case <-gate.Entered:
	case <-time.After(20 * time.Second):
		return failf("harness-gate", "HARNESS-ERROR %s never reached %s (%s)", held, op, desc)
	}
	var other *refcodec.Msg
	switch c.Other {
	case "setattr-same-path":
		other = tSetattr(70, 1, 0o600, 0) // /P/kfX: the path of the held Lock
		if c.Held != "lock" {
			other = tSetattr(71, 1, 0o700, 0) // /P/kdX: the path of the held StatFS / Close
		}
	case "mkdir-same-dir":
		other = tMkdir(71, "made")
	case "unlinkat":
		other = tUnlinkat(72, "rA")
	case "renameat":
		other = tRenameat(72, "rA", 73, "moved")
	case "walk":
		other = tWalk(71, 75, "wA")
	case "create":
		other = tCreate(71, "created", 2, 0o644)
	case "version":
		// a second Tversion in mid-session (same parameters): handled by the receiver
		// itself, ordered after nothing
		other = refcodec.New(refcodec.Tversion, 0, "msize", 64<<10, "version", "9P2000.L.Google.7")
	case "setattr-link-target":
		other = tSetattr(70, 1, 0o600, 0) // /P/kfX, the target of the held Link
	case "link-directory-to-itself":
		// (a request nobody makes on purpose: it must be answered, whatever the answer)
		other = tLink(72, 72, "self") // /P/kdA, not the directory of the held Link
	case "getattr-elsewhere":
		other = tGetattr(72)
	case "read-same-file":
		other = tRead(90, 1, 2) // read-class next to read-class
		if c.TwoConn {
			other = tGetattr(70)
		}
	default:
		other = tGetattr(70)
	}
	other.Tag = 60
	var rep *refcodec.Msg
	var err error
	if c.TwoConn {
		rep, err = o.Call(other)
	} else {
		p.s.Send(refcodec.Encode(other))
		var ok bool
		ok, f = p.waitFor(60, 1, 20*time.Second)
		if f != nil {
			return f
		}
		if !ok {
			err = fmt.Errorf("no reply within 20 s")
		} else {
			for _, fr := range p.frames {
				if fr.Tag == 60 {
					rep = fr
				}
			}
		}
	}
	if err != nil {
		if c.Held == "read" || c.Held == "write" || c.Held == "getattr-held" || c.Held == "link" {
			return failf("request-delayed-by-read-class-call:"+c.Held+":"+c.Other, "%s was not answered while %s was held inside %s, after which the File contract orders only write-class and global calls on that path: %v (%s)", other, held, op, err, desc)
		}
		return failf("request-delayed-by-none-class-call:"+c.Held, "%s was not answered while %s was held inside %s, for which the File interface gives no concurrency guarantee: %v (%s)", other, held, op, err, desc)
	}
	if rep.Type == refcodec.Rlerror && c.Other != "link-directory-to-itself" {
		return failf("harness-other", "HARNESS-ERROR %s => %s (%s)", other, rep, desc)
	}
	if p.count(50) != 0 {
		return failf("harness-gate", "HARNESS-ERROR the held request was answered before its release (%s)", desc)
	}
	gate.Release()
	if ok, f := p.waitFor(50, 1, 20*time.Second); f != nil || !ok {
		if f != nil {
			return f
		}
		return failf("no-reply-after-release", "%s was released inside the backend but no reply arrived within 20 s (%s)", held, desc)
	}
	return nil
}

var batchTags = []uint16{0, refcodec.NOTAG, 5, 5, 6, 7, 0xfffe, 4}

func genBatchCase(rt *rapid.T, maxN int) batchCase {
	c := batchCase{Native: rapid.Bool().Draw(rt, "native")}
	n := rapid.IntRange(1, maxN).Draw(rt, "n")
	var gated []int
	for i := 0; i < n; i++ {
		r := batchReq{Tag: rapid.SampledFrom(batchTags).Draw(rt, "tag")}
		k := rapid.IntRange(0, 11).Draw(rt, "kind")
		switch {
		case k <= 4:
			r.Kind = "gated"
			r.Held = rapid.SampledFrom([]string{"", "", "", "clunk", "replace"}).Draw(rt, "held")
			gated = append(gated, i)
		case k == 5:
			r.Kind = "free"
		case k == 6:
			r.Kind = "statfs"
		case k == 7:
			r.Kind = "badfid"
		case k == 8:
			r.Kind = "flush-own"
		case k == 9:
			r.Kind = "flush-idle"
		case k == 10 && i > 0:
			r.Kind = "flush-of"
			r.Of = rapid.IntRange(0, i-1).Draw(rt, "of")
		default:
			r.Kind = rapid.SampledFrom([]string{"mkdir", "walk", "unknown-type", "unknown-type"}).Draw(rt, "k2")
		}
		c.Reqs = append(c.Reqs, r)
	}
	c.Release = rapid.Permutation(gated).Draw(rt, "release")
	if len(gated) > 0 && rapid.IntRange(0, 3).Draw(rt, "fatalk") == 0 {
		c.Fatal = rapid.SampledFrom([]string{"oversize", "undersize", "halfclose"}).Draw(rt, "fatal")
	}
	return c
}

func permutations(xs []int) [][]int {
	if len(xs) <= 1 {
		return [][]int{append([]int{}, xs...)}
	}
	var out [][]int
	for i := range xs {
		rest := append(append([]int{}, xs[:i]...), xs[i+1:]...)
		for _, p := range permutations(rest) {
			out = append(out, append([]int{xs[i]}, p...))
		}
	}
	return out
}

func init() {
	replayRegistrars = append(replayRegistrars, func() {
		registerReplay("C06/tag-reuse", func(c flushCase) *fail { return runFlushCase(c, nil) })
		registerReplay("C06/batches", func(c batchCase) *fail { return runBatchCase(c, nil) })
		registerReplay("C06/enumerated", func(c batchCase) *fail { return runBatchCase(c, nil) })
		registerReplay("C06/none-class", runNoneClassCase)
	})
}

func TestC06(t *testing.T) {
	h := begin(t, "C06")
	defer h.Finish()
	env := h.Env
	// every request answered under schedules the harness owns (engine of C07):
	// 2-4 requests whose backend calls are released one at a time in a generated
	// order, among them multi-step walks overtaken by renames and removals
	schedSubCheck(h, env.PerShard(env.Pick(2400, 60000)), []string{"f", "k", "e", "dir"}, keepC06)
	record := func(c batchCase, st *batchStats, cls string) {
		h.Case(evid.HashJSON(c), st.inFlightAtOnce >= 2, cls)
		if st.dupInFlight > 0 {
			h.Count("batches:duplicate-of-in-flight-tag", 1)
		}
		if st.reuse > 0 {
			h.Count("batches:tag-reused-after-reply", 1)
		}
	}
	// enumerated: k gated requests with distinct tags, every release order, plus
	// a flush of each kind in between
	if env.Shard == 0 {
		maxK := env.Pick(4, 5)
		for k := 1; k <= maxK; k++ {
			idx := make([]int, k)
			for i := range idx {
				idx[i] = i
			}
			for _, perm := range permutations(idx) {
				for _, extra := range []string{"", "flush-own", "flush-idle", "flush-of", "free"} {
					c := batchCase{Native: k%2 == 0}
					for i := 0; i < k; i++ {
						c.Reqs = append(c.Reqs, batchReq{Kind: "gated", Tag: uint16(10 + i)})
					}
					if extra != "" {
						c.Reqs = append(c.Reqs, batchReq{Kind: extra, Tag: 40, Of: 0})
					}
					c.Release = perm
					st := &batchStats{}
					f := runBatchCase(c, st)
					record(c, st, "enumerated")
					if h.report("enumerated", f, c) {
						return
					}
				}
			}
		}
		h.Exhaustive(fmt.Sprintf("1..%d simultaneously held requests x every release order x {no extra, flush of own tag, of an idle tag, of a held request, an unrelated request}", maxK))
		// the request stream ends fatally while requests are held: they are still answered
		for _, fatal := range []string{"oversize", "undersize", "halfclose"} {
			for k := 1; k <= 3; k++ {
				c := batchCase{Native: k%2 == 0, Fatal: fatal}
				for i := 0; i < k; i++ {
					c.Reqs = append(c.Reqs, batchReq{Kind: "gated", Tag: uint16(10 + i), Held: []string{"", "clunk", ""}[i]})
					c.Release = append(c.Release, k-1-i)
				}
				st := &batchStats{}
				f := runBatchCase(c, st)
				record(c, st, "enumerated:fatal-end-of-requests")
				if h.report("enumerated", f, c) {
					return
				}
			}
		}
		// the same with requests held inside the release (Close) of a File
		for _, heldIn := range []string{"clunk", "replace"} {
			for k := 1; k <= 3; k++ {
				idx := make([]int, k)
				for i := range idx {
					idx[i] = i
				}
				for _, perm := range permutations(idx) {
					for _, extra := range []string{"free", "statfs", "walk", "flush-of", "flush-idle"} {
						c := batchCase{Native: k%2 == 0}
						for i := 0; i < k; i++ {
							c.Reqs = append(c.Reqs, batchReq{Kind: "gated", Tag: uint16(10 + i), Held: heldIn})
						}
						c.Reqs = append(c.Reqs, batchReq{Kind: extra, Tag: 40, Of: 0})
						c.Release = perm
						st := &batchStats{}
						f := runBatchCase(c, st)
						record(c, st, "enumerated:held-in-close")
						if h.report("enumerated", f, c) {
							return
						}
					}
				}
			}
		}
		h.Exhaustive("1..3 requests held inside the Close of a File (Tclunk; Twalk replacing a bound fid) x every release order x {unrelated getattr, statfs, walk, flush of a held request, flush of an idle tag}")
	}
	// a tag is free again as soon as its reply is out - a Tflush's own tag included -
	// even while the goroutine that wrote the reply is still inside the transport
	// Write (engine of C14, the re-using request must be served and answered)
	if env.Shard == 2%env.NShards {
		for _, tgt := range []string{"read", "getattr", "write"} {
			for _, rf := range []bool{false, true} {
				c := flushCase{Native: rf, Target: tgt, HoldAt: 1, Events: []string{"R"}, Reuse: true, ReuseFlush: rf}
				f := runFlushCase(c, &flushStats{})
				h.Case(evid.HashJSON(c), true, "tag-reuse-after-reply")
				if f != nil && strings.HasPrefix(f.Sig, "harness-") {
					t.Errorf("HARNESS-ERROR %s", f.Msg)
					continue
				}
				if h.report("tag-reuse", f, c) {
					return
				}
			}
		}
	}
	// held calls without a concurrency guarantee delay nothing
	if env.Shard == 1%env.NShards {
		for _, held := range noneClassHeld {
			for _, other := range noneClassOthers {
				for _, two := range []bool{false, true} {
					c := noneClassCase{Native: two, Held: held, Other: other, TwoConn: two}
					f := runNoneClassCase(c)
					h.Case(evid.HashJSON(c), true, "none-class-held:"+held)
					if f != nil && strings.HasPrefix(f.Sig, "harness-") {
						t.Errorf("HARNESS-ERROR %s", f.Msg)
						continue
					}
					if h.report("none-class", f, c) {
						return
					}
				}
			}
		}
		h.Exhaustive(fmt.Sprintf("%d calls without a concurrency guarantee held x %d other requests (write-class on the same path, renames, ...) x {same, other connection}", len(noneClassHeld), len(noneClassOthers)))
		// held read-class calls delay nothing but what the contract orders after them -
		// not a Tversion in mid-session, not reads of the same file, not other paths
		for _, held := range readClassHeld {
			for _, other := range readClassOthers {
				for _, two := range []bool{false, true} {
					c := noneClassCase{Native: !two, Held: held, Other: other, TwoConn: two}
					f := runNoneClassCase(c)
					h.Case(evid.HashJSON(c), true, "read-class-held:"+held)
					if f != nil && strings.HasPrefix(f.Sig, "harness-") {
						t.Errorf("HARNESS-ERROR %s", f.Msg)
						continue
					}
					if h.report("none-class", f, c) {
						return
					}
				}
			}
		}
		for _, other := range []string{"setattr-link-target", "link-directory-to-itself", "getattr", "getattr-elsewhere"} {
			for _, two := range []bool{false, true} {
				c := noneClassCase{Native: two, Held: "link", Other: other, TwoConn: two}
				f := runNoneClassCase(c)
				h.Case(evid.HashJSON(c), true, "link-held")
				if f != nil && strings.HasPrefix(f.Sig, "harness-") {
					t.Errorf("HARNESS-ERROR %s", f.Msg)
					continue
				}
				if h.report("none-class", f, c) {
					return
				}
			}
		}
		h.Exhaustive(fmt.Sprintf("%d read-class calls held x %d requests not ordered after them (mid-session Tversion, reads of the same file, other paths) x {same, other connection}", len(readClassHeld), len(readClassOthers)))
	}
	rapidCases(h, "batches", env.PerShard(env.Pick(2400, 200000)), func(rt *rapid.T) batchCase {
		return genBatchCase(rt, env.Pick(6, 24))
	}, func(c batchCase) *fail {
		st := &batchStats{}
		f := runBatchCase(c, st)
		record(c, st, "batches")
		if st.inFlightAtOnce >= 2 && h.WantSample("batches") {
			h.Sample("batches", c)
		}
		return f
	})
	_ = strings.Join
	_ = memtree.TDir
}
