package checks

import (
	"bytes"
	"fmt"
	"sort"
	"strings"
	"testing"
	"time"

	"p9verif/evid"
	"p9verif/mockfs"
	"p9verif/peers"
	"p9verif/refcodec"
	"p9verif/vconn"

	"github.com/hugelgupf/p9/p9"
	"pgregory.net/rapid"
)

// ---------------------------------------------------------------------------
// C01 — wire layout conformance and lossless round trip

// genField draws a boundary-biased value for a field kind.
func genField(rt *rapid.T, fd refcodec.Field, budget *int) any {
	l := fd.Name
	str := func() string {
		var b []byte
		switch rapid.IntRange(0, 9).Draw(rt, l+"sk") {
		case 0:
			b = []byte{}
		case 1:
			n := rapid.SampledFrom([]int{1, 2, 255, 256, 32767, 32768, 65535}).Draw(rt, l+"sl")
			if n > *budget {
				n = *budget
			}
			b = bytes.Repeat([]byte{0xC3}, n)
			if n > 0 {
				b[n-1] = rapid.Byte().Draw(rt, l+"last")
			}
		case 2, 3:
			b = rapid.SliceOfN(rapid.Byte(), 0, 24).Draw(rt, l+"sb")
		default:
			b = []byte(rapid.SampledFrom([]string{"a", "name", "/", ".", "..", "a/b", "x\x00y", "\xff"}).Draw(rt, l+"ss"))
		}
		*budget -= len(b) + 2
		return string(b)
	}
	qid := func() refcodec.QID {
		return refcodec.QID{Type: rapid.Byte().Draw(rt, l+"qt"), Version: genU32(rt, l+"qv"), Path: genU64(rt, l+"qp")}
	}
	switch fd.Kind {
	case refcodec.U8:
		return uint64(rapid.Byte().Draw(rt, l))
	case refcodec.U16:
		return uint64(rapid.SampledFrom([]uint16{0, 1, 0x7fff, 0x8000, 0xfffe, 0xffff, rapid.Uint16().Draw(rt, l+"r")}).Draw(rt, l))
	case refcodec.U32:
		return uint64(genU32(rt, l))
	case refcodec.Perm32:
		return uint64(genU32(rt, l)) & 0o7777
	case refcodec.U64:
		if l == "request_mask" || l == "valid" {
			return uint64(rapid.IntRange(0, 0x3fff).Draw(rt, l))
		}
		return genU64(rt, l)
	case refcodec.Str:
		return str()
	case refcodec.QIDK:
		return qid()
	case refcodec.AttrK:
		var a refcodec.Attr
		for i, w := range refcodec.AttrWidths {
			a[i] = genU64(rt, l+"a")
			if w == 4 {
				a[i] &= 0xffffffff
			}
		}
		return a
	case refcodec.Names:
		n := rapid.SampledFrom([]int{0, 1, 2, 16, 17, 300}).Draw(rt, l+"n")
		ns := []string{}
		for i := 0; i < n && *budget > 8; i++ {
			ns = append(ns, str())
		}
		return ns
	case refcodec.QIDs:
		n := rapid.SampledFrom([]int{0, 1, 2, 16, 17, 300}).Draw(rt, l+"n")
		qs := []refcodec.QID{}
		for i := 0; i < n; i++ {
			qs = append(qs, qid())
		}
		return qs
	case refcodec.Data:
		n := rapid.SampledFrom([]int{0, 1, 2, 511, 512, 4096, 70000}).Draw(rt, l+"n")
		d := bytes.Repeat([]byte{0x5a}, n)
		if n > 0 {
			d[0], d[n-1] = rapid.Byte().Draw(rt, l+"d0"), rapid.Byte().Draw(rt, l+"d1")
		}
		return d
	case refcodec.Dirents:
		n := rapid.IntRange(0, 6).Draw(rt, l+"n")
		ds := []refcodec.Dirent{}
		for i := 0; i < n; i++ {
			ds = append(ds, refcodec.Dirent{QID: qid(), Offset: genU64(rt, l+"o"), Type: rapid.Byte().Draw(rt, l+"t"), Name: str()})
		}
		return ds
	}
	return nil
}

func genMsgOfType(rt *rapid.T, typ uint8) *refcodec.Msg {
	spec := refcodec.Table[typ]
	m := &refcodec.Msg{Type: typ, Tag: uint16(rapid.SampledFrom([]int{0, 1, 0x7fff, 0xfffe, 0xffff, rapid.IntRange(0, 0xffff).Draw(rt, "tagr")}).Draw(rt, "tag")), F: map[string]any{}}
	budget := 200000
	for _, fd := range spec.Fields {
		m.F[fd.Name] = genField(rt, fd, &budget)
		if typ == refcodec.Tsetattr && fd.Name == "valid" {
			m.F[fd.Name] = uint64(rapid.IntRange(0, 0x1ff).Draw(rt, "svalid"))
		}
	}
	return m
}

type wireCase struct {
	Msg     *refcodec.Msg `json:"msg"`
	RawPerm uint32        `json:"raw_perm,omitempty"` // upper bits put on the wire in a permission field
	RawMask uint64        `json:"raw_mask,omitempty"` // undefined bits put on the wire in a mask field
	// Sock: the frame reaches the receiver through a real AF_UNIX socket (the
	// vectorised receive path) in the chunks given by Splits
	Sock   bool  `json:"sock,omitempty"`
	Splits []int `json:"splits,omitempty"`
}

// pipeCase: requests and frames the server rejects at receive time (unknown
// type, undecodable body) are written in one go; the replies are produced by
// different server goroutines at the same time. The reply stream must still be
// a sequence of whole, correctly laid out frames, one per request.
type pipeCase struct {
	Kinds []string `json:"kinds"` // getattr | statfs | unknown | short
}

func runPipeCase(c pipeCase) *fail {
	mock := mockfs.New(true)
	s := peers.Start(p9.NewServer(mock))
	defer s.Close(10 * time.Second)
	if _, err := s.Version(1<<20, "9P2000.L.Google.7"); err != nil {
		return failf("harness-version", "HARNESS-ERROR %v", err)
	}
	if r, err := s.Call(withTag(tAttach(1, nofid, ""), 1)); err != nil || r.Type == refcodec.Rlerror {
		return failf("harness-attach", "HARNESS-ERROR %v %v", r, err)
	}
	s.S2C.YieldOnWrite(true)
	var stream []byte
	want := map[uint16]uint8{}
	for i, k := range c.Kinds {
		tag := uint16(100 + i)
		switch k {
		case "getattr":
			stream = append(stream, refcodec.Encode(withTag(tGetattr(1), tag))...)
			want[tag] = refcodec.Rgetattr
		case "statfs":
			stream = append(stream, refcodec.Encode(withTag(tStatfs(1), tag))...)
			want[tag] = refcodec.Rstatfs
		case "unknown":
			stream = append(stream, refcodec.Frame(99, tag, []byte{1, 2, 3, 4, 5})...)
			want[tag] = refcodec.Rlerror
		default: // a Tgetattr whose body is too short
			stream = append(stream, refcodec.Frame(refcodec.Tgetattr, tag, []byte{1, 0, 0})...)
			want[tag] = refcodec.Rlerror
		}
	}
	// (an undecodable body is answered without its tag - NOTAG - so those replies are only counted)
	shorts := 0
	for i, k := range c.Kinds {
		if k == "short" {
			shorts++
			delete(want, uint16(100+i))
		}
	}
	s.Send(stream)
	got := map[uint16]int{}
	notag := 0
	for len(got) < len(want) || notag < shorts {
		raw, err := s.Recv(20 * time.Second)
		if err != nil {
			return failf("no-reply:pipelined", "%d of %d replies arrived (%v); kinds %v", len(got), len(want), err, c.Kinds)
		}
		rep, derr := refcodec.DecodeStrict(raw)
		if derr != nil {
			return failf("wire:reply-stream-not-whole-frames", "the reply stream contains %x, which the reference codec rejects (%v): replies produced at the same time were not written as whole frames; kinds %v", raw[:min(len(raw), 48)], derr, c.Kinds)
		}
		if rep.Tag == refcodec.NOTAG && rep.Type == refcodec.Rlerror && notag < shorts {
			notag++
			continue
		}
		wt, ok := want[rep.Tag]
		if !ok || (rep.Type != wt && rep.Type != refcodec.Rlerror) {
			return failf("wire:reply-stream-not-whole-frames", "unexpected reply %s (kinds %v)", rep, c.Kinds)
		}
		got[rep.Tag]++
		if got[rep.Tag] > 1 {
			return failf("wire:reply-stream-not-whole-frames", "two replies with tag %d (kinds %v)", rep.Tag, c.Kinds)
		}
	}
	return nil
}

type wireStats struct {
	classes []string
}

// runWireCase: reference frame -> real recv -> real send must reproduce the
// canonical reference frame (all 65 types, in process through the hook).
func runWireCase(c wireCase, st *wireStats) *fail {
	m := c.Msg
	spec := refcodec.Table[m.Type]
	if spec == nil {
		return failf("harness-type", "HARNESS-ERROR type %d", m.Type)
	}
	send := &refcodec.Msg{Type: m.Type, Tag: m.Tag, F: map[string]any{}}
	for k, v := range m.F {
		send.F[k] = v
	}
	for _, fd := range spec.Fields {
		if fd.Kind == refcodec.Perm32 && c.RawPerm != 0 {
			send.F[fd.Name+"#raw"] = uint64(c.RawPerm&^0o7777) | m.U(fd.Name)
		}
		if c.RawMask != 0 {
			switch {
			case (m.Type == refcodec.Tgetattr && fd.Name == "request_mask") || ((m.Type == refcodec.Rgetattr || m.Type == refcodec.Rwalkgetattr) && fd.Name == "valid"):
				send.F[fd.Name] = m.U(fd.Name) | (c.RawMask &^ 0x3fff)
			case m.Type == refcodec.Tsetattr && fd.Name == "valid":
				send.F[fd.Name] = m.U(fd.Name) | (c.RawMask&0xffffffff)&^0x1ff
			}
		}
	}
	frame := refcodec.Encode(send)
	want := refcodec.Encode(m) // permission fields masked, undefined mask bits gone
	var tag uint16
	var typ uint8
	var canon []byte
	var kind int
	var err error
	if c.Sock {
		sock, serr := vconn.NewSock()
		if serr != nil {
			return failf("harness-sock", "HARNESS-ERROR %v", serr)
		}
		defer sock.Close()
		sock.Conn.SetReadDeadline(time.Now().Add(30 * time.Second))
		done := make(chan struct{})
		go func() {
			defer close(done)
			tag, typ, canon, kind, err = p9.VerifRecvReencode(sock.Conn, 4<<20)
		}()
		prev := 0
		for _, sp := range append(append([]int{}, c.Splits...), len(frame)) {
			if sp <= prev || sp > len(frame) {
				continue
			}
			if derr := sock.Deliver(frame[prev:sp], 10*time.Second); derr != nil {
				return failf("reader-stalled", "%s: the receiver did not take bytes %d..%d of a %d-byte frame: %v", spec.Name, prev, sp, len(frame), derr)
			}
			prev = sp
		}
		select {
		case <-done:
		case <-time.After(20 * time.Second):
			return failf("reader-stalled", "%s: the receiver did not return after the whole %d-byte frame was delivered in chunks %v", spec.Name, len(frame), c.Splits)
		}
	} else {
		tag, typ, canon, kind, err = p9.VerifRecvReencode(bytes.NewReader(frame), 4<<20)
	}
	if kind != 0 {
		return failf("wire:valid-frame-rejected:"+spec.Name, "a valid %s frame (%d bytes) was rejected: kind=%d err=%v; message %s", spec.Name, len(frame), kind, err, m)
	}
	if tag != m.Tag || typ != m.Type {
		return failf("wire:header:"+spec.Name, "%s: header decoded as type %d tag %d, sent type %d tag %d", spec.Name, typ, tag, m.Type, m.Tag)
	}
	if !bytes.Equal(canon, want) {
		got, _ := refcodec.DecodePrefix(canon)
		d := firstDiff(canon, want)
		return failf("wire:roundtrip:"+spec.Name, "%s: decode+encode of the reference frame differs at byte %d: got %s, sent %s (got %d bytes, want %d)", spec.Name, d, got, m, len(canon), len(want))
	}
	if st != nil {
		for _, fd := range spec.Fields {
			switch v := m.F[fd.Name].(type) {
			case string:
				if len(v) >= 32768 {
					st.classes = append(st.classes, "string>=32768")
				}
			case []string:
				if len(v) == 0 {
					st.classes = append(st.classes, "empty-list")
				}
				if len(v) > 16 {
					st.classes = append(st.classes, "list>16")
				}
			case []refcodec.QID:
				if len(v) == 0 {
					st.classes = append(st.classes, "empty-list")
				}
				if len(v) > 16 {
					st.classes = append(st.classes, "list>16")
				}
			case uint64:
				if v == 0xffffffff || v == ^uint64(0) || v == 0xffff {
					st.classes = append(st.classes, "sentinel/max-integer")
				}
			}
		}
	}
	return nil
}

func firstDiff(a, b []byte) int {
	n := min(len(a), len(b))
	for i := 0; i < n; i++ {
		if a[i] != b[i] {
			return i
		}
	}
	return n
}

// --- raw peer: T types the client never sends, raw upper bits -------------------

type rawCase struct {
	Kind   string `json:"kind"` // auth | flush | xattrcreate | rawperm-lcreate | rawperm-mkdir | rawperm-setattr | rawmask-getattr | attach-fields
	Native bool   `json:"native_walkgetattr"`
	Name   []byte `json:"name,omitempty"`
	Data   []byte `json:"data,omitempty"`
	Split  []int  `json:"split,omitempty"`
	Flags  uint32 `json:"flags,omitempty"`
	Mode   uint32 `json:"mode,omitempty"`
	Mask   uint64 `json:"mask,omitempty"`
	UID    uint32 `json:"uid,omitempty"`
	GID    uint32 `json:"gid,omitempty"`
	Tag    uint16 `json:"tag,omitempty"`
	S1     []byte `json:"s1,omitempty"`
	S2     []byte `json:"s2,omitempty"`
	U1     uint32 `json:"u1,omitempty"`
}

func runRawCase(c rawCase) *fail {
	mock := mockfs.New(c.Native)
	srv := p9.NewServer(mock)
	s := peers.Start(srv)
	defer s.Close(10 * time.Second)
	if _, err := s.Version(1<<20, "9P2000.L.Google.7"); err != nil {
		return failf("harness-version", "HARNESS-ERROR %v", err)
	}
	tag := c.Tag
	if tag == refcodec.NOTAG {
		tag = 9
	}
	call := func(m *refcodec.Msg) ([]byte, *refcodec.Msg, *fail) {
		m.Tag = tag
		raw, err := s.RPC(refcodec.Encode(m))
		if err != nil {
			return nil, nil, failf("no-reply:"+refcodec.Name(m.Type), "%s: %v", m, err)
		}
		rep, derr := refcodec.DecodeStrict(raw)
		if derr != nil {
			return raw, nil, failf("wire:R-undecodable:"+refcodec.Name(m.Type), "%s: reply %x rejected by the reference codec: %v", m, raw, derr)
		}
		return raw, rep, nil
	}
	expect := func(m *refcodec.Msg, want *refcodec.Msg) *fail {
		raw, _, f := call(m)
		if f != nil {
			return f
		}
		want.Tag = tag
		if !bytes.Equal(raw, refcodec.Encode(want)) {
			got, _ := refcodec.DecodePrefix(raw)
			return failf("wire:R-layout:"+refcodec.Name(want.Type), "%s: the server wrote %x (%v), expected %x (%s)", m, raw, got, refcodec.Encode(want), want)
		}
		return nil
	}
	if c.Kind != "auth" && c.Kind != "flush" && c.Kind != "attach-fields" {
		if f := expect(tAttach(1, nofid, ""), refcodec.New(refcodec.Rattach, 0, "qid", refcodec.QID{Type: 0x80, Path: 1})); f != nil {
			return f
		}
	}
	from := mock.NCalls()
	last := func(op string) *mockfs.Rec {
		var r *mockfs.Rec
		for _, rc := range mock.Calls(from) {
			if rc.Op == op {
				cp := rc
				r = &cp
			}
		}
		return r
	}
	switch c.Kind {
	case "auth":
		return expect(refcodec.New(refcodec.Tauth, 0, "afid", c.U1, "uname", string(c.S1), "aname", string(c.S2), "n_uname", c.UID),
			refcodec.New(refcodec.Rlerror, 0, "ecode", 38))
	case "flush":
		return expect(refcodec.New(refcodec.Tflush, 0, "oldtag", uint64(c.U1&0xffff)), refcodec.New(refcodec.Rflush, 0))
	case "attach-fields":
		// uname / n_uname are carried but unused; the reply is the root's QID
		mock.Push("GetAttr", &mockfs.Result{QID: p9.QID{Type: p9.QIDType(c.Flags), Version: c.Mode, Path: c.Mask}, Valid: p9.AttrMaskAll, Attr: p9.Attr{Mode: p9.ModeDirectory}})
		return expect(refcodec.New(refcodec.Tattach, 0, "fid", c.U1, "afid", nofid, "uname", string(c.S1), "aname", "", "n_uname", c.UID),
			refcodec.New(refcodec.Rattach, 0, "qid", refcodec.QID{Type: uint8(c.Flags), Version: c.Mode, Path: c.Mask}))
	case "xattrcreate":
		size := uint64(len(c.Data))
		if f := expect(refcodec.New(refcodec.Txattrcreate, 0, "fid", 1, "name", string(c.Name), "attr_size", size, "flags", c.Flags), refcodec.New(refcodec.Rxattrcreate, 0)); f != nil {
			return f
		}
		off := 0
		for _, n := range append(append([]int{}, c.Split...), len(c.Data)) {
			if n > len(c.Data)-off {
				n = len(c.Data) - off
			}
			if n <= 0 {
				continue
			}
			if f := expect(refcodec.New(refcodec.Twrite, 0, "fid", 1, "offset", uint64(off), "data", c.Data[off:off+n]), refcodec.New(refcodec.Rwrite, 0, "count", n)); f != nil {
				return f
			}
			off += n
		}
		if f := expect(tClunk(1), refcodec.New(refcodec.Rclunk, 0)); f != nil {
			return f
		}
		if c.Flags == 2 && size == 0 {
			r := last("RemoveXattr")
			if r == nil || r.Name != string(c.Name) {
				return failf("backend-args:RemoveXattr", "xattr replace with size 0: backend saw %+v", mock.Calls(from))
			}
			return nil
		}
		r := last("SetXattr")
		if r == nil {
			return failf("backend-calls:SetXattr", "Txattrcreate+Twrite+Tclunk never reached SetXattr: %+v", mock.Calls(from))
		}
		if r.Name != string(c.Name) || !bytes.Equal(r.Data, c.Data) || r.U[0] != uint64(c.Flags) {
			return failf("backend-args:SetXattr", "SetXattr saw name %q, %d bytes, flags %d; sent name %q, %d bytes, flags %d", r.Name, len(r.Data), r.U[0], c.Name, len(c.Data), c.Flags)
		}
	case "rawperm-lcreate":
		m := refcodec.New(refcodec.Tlcreate, 0, "fid", 1, "name", string(c.Name), "flags", c.Flags, "mode", c.Mode&0o7777, "gid", c.GID)
		m.F["mode#raw"] = uint64(c.Mode)
		mock.Push("Create", &mockfs.Result{QID: p9.QID{Path: 9}, IOUnit: c.U1})
		if f := expect(m, refcodec.New(refcodec.Rlcreate, 0, "qid", refcodec.QID{Path: 9}, "iounit", c.U1)); f != nil {
			return f
		}
		r := last("Create")
		if r == nil || r.Name != string(c.Name) || r.U[0] != uint64(c.Flags) || r.U[1] != uint64(c.Mode&0o7777) || r.U[2] != refcodec.NOUID || r.U[3] != uint64(c.GID) {
			return failf("backend-args:Create", "Tlcreate(name=%q flags=%#x mode=%#o gid=%d) reached the backend as %+v", c.Name, c.Flags, c.Mode, c.GID, r)
		}
	case "rawperm-mkdir":
		m := refcodec.New(refcodec.Tumkdir, 0, "dfid", 1, "name", string(c.Name), "mode", c.Mode&0o7777, "gid", c.GID, "uid", c.UID)
		m.F["mode#raw"] = uint64(c.Mode)
		mock.Push("Mkdir", &mockfs.Result{QID: p9.QID{Type: 0x80, Path: 10}})
		if f := expect(m, refcodec.New(refcodec.Rumkdir, 0, "qid", refcodec.QID{Type: 0x80, Path: 10})); f != nil {
			return f
		}
		r := last("Mkdir")
		if r == nil || r.Name != string(c.Name) || r.U[0] != uint64(c.Mode&0o7777) || r.U[1] != uint64(c.UID) || r.U[2] != uint64(c.GID) {
			return failf("backend-args:Mkdir", "Tumkdir(name=%q mode=%#o uid=%d gid=%d) reached the backend as %+v", c.Name, c.Mode, c.UID, c.GID, r)
		}
	case "rawperm-setattr":
		m := refcodec.New(refcodec.Tsetattr, 0, "fid", 1, "valid", c.Flags&0x1ff, "mode", c.Mode&0o7777, "uid", c.UID, "gid", c.GID, "size", c.Mask,
			"atime_sec", 1, "atime_nsec", 2, "mtime_sec", 3, "mtime_nsec", 4)
		m.F["mode#raw"] = uint64(c.Mode)
		if f := expect(m, refcodec.New(refcodec.Rsetattr, 0)); f != nil {
			return f
		}
		r := last("SetAttr")
		want := p9.SetAttr{Permissions: p9.FileMode(c.Mode & 0o7777), UID: p9.UID(c.UID), GID: p9.GID(c.GID), Size: c.Mask, ATimeSeconds: 1, ATimeNanoSeconds: 2, MTimeSeconds: 3, MTimeNanoSeconds: 4}
		if r == nil || r.SAttr != want || r.SMask != smaskP(uint16(c.Flags&0x1ff)) {
			return failf("backend-args:SetAttr", "Tsetattr(valid=%#x mode=%#o) reached the backend as %+v", c.Flags&0x1ff, c.Mode, r)
		}
	case "rawmask-getattr":
		mock.Push("GetAttr", &mockfs.Result{QID: p9.QID{Path: 3}, Valid: maskP(uint16(c.Mask >> 20 & 0x3fff)), Attr: p9.Attr{Mode: p9.ModeDirectory}})
		a := refcodec.Attr{}
		a[0] = uint64(p9.ModeDirectory)
		if f := expect(refcodec.New(refcodec.Tgetattr, 0, "fid", 1, "request_mask", c.Mask),
			refcodec.New(refcodec.Rgetattr, 0, "valid", c.Mask>>20&0x3fff, "qid", refcodec.QID{Path: 3}, "attr", a)); f != nil {
			return f
		}
		r := last("GetAttr")
		if r == nil || r.Mask != maskP(uint16(c.Mask&0x3fff)) {
			return failf("backend-args:GetAttr", "Tgetattr(request_mask=%#x) reached the backend with mask %v", c.Mask, r)
		}
	}
	return nil
}

func genRawCase(rt *rapid.T) rawCase {
	c := rawCase{Kind: rapid.SampledFrom([]string{"auth", "flush", "xattrcreate", "rawperm-lcreate", "rawperm-mkdir", "rawperm-setattr", "rawmask-getattr", "attach-fields"}).Draw(rt, "kind"),
		Native: rapid.Bool().Draw(rt, "native"), Name: genSafeName(rt, "name"), Flags: genU32(rt, "flags"), Mode: genU32(rt, "mode"), Mask: genU64(rt, "mask"),
		UID: genU32(rt, "uid"), GID: genU32(rt, "gid"), Tag: uint16(genU32(rt, "tag")), S1: genAnyString(rt, "s1"), S2: genAnyString(rt, "s2"), U1: genU32(rt, "u1")}
	if c.Kind == "xattrcreate" {
		n := rapid.SampledFrom([]int{0, 1, 2, 100, 4096, 70000}).Draw(rt, "xn")
		c.Data = bytes.Repeat([]byte{7}, n)
		if n > 0 {
			c.Data[n-1] = rapid.Byte().Draw(rt, "xlast")
		}
		for i := rapid.IntRange(0, 2).Draw(rt, "nsplit"); i > 0 && n > 0; i-- {
			c.Split = append(c.Split, rapid.IntRange(1, n).Draw(rt, "split"))
		}
		c.Name = genAnyString(rt, "xname")
		c.Flags = rapid.SampledFrom([]uint32{0, 1, 2, 3, 0xffffffff}).Draw(rt, "xflags")
	}
	return c
}

func init() {
	replayRegistrars = append(replayRegistrars, func() {
		registerReplay("C01/inprocess", func(c wireCase) *fail { return runWireCase(c, nil) })
		registerReplay("C01/raw-peer", runRawCase)
		registerReplay("C01/client-pairs", runClientPairCase)
		registerReplay("C01/concurrent-reads", runConcReadCase)
	})
}

func TestC01(t *testing.T) {
	h := begin(t, "C01")
	defer h.Finish()
	env := h.Env
	// two reads in flight after reads that ended at the end of the file: the payload
	// of each Rread is what the backend produced for that request (engine of C11)
	rapidCases(h, "concurrent-reads", env.PerShard(env.Pick(400, 20000)), func(rt *rapid.T) concReadCase {
		return concReadCase{EOFReads: rapid.IntRange(1, 4).Draw(rt, "eof"), SizeA: rapid.SampledFrom([]int{1, 100, 3000, 5000, 12000}).Draw(rt, "sa"),
			SizeB: rapid.SampledFrom([]int{1, 100, 3000, 5000}).Draw(rt, "sb"), Msize: rapid.SampledFrom([]uint32{4096, 8192, 65536}).Draw(rt, "msize"),
			After: rapid.Bool().Draw(rt, "after")}
	}, func(c concReadCase) *fail {
		h.Case(evid.HashJSON(c), true, "concurrent-reads")
		return runConcReadCase(c)
	})
	// two replies to one client decoded back to back: every caller reconstructs the
	// values of its own reply frame (engine of C18)
	for rep := 0; rep < env.Pick(48, 640)/env.NShards+1; rep++ {
		c := clientPairCase{Native: rep%2 == 1}
		for i := 0; i < 30; i++ {
			if rep%2 == 0 {
				c.Kinds = append(c.Kinds, []string{"fail-fail", "fail-fail", "fail-attr", "fail-read"}[i%4])
				continue
			}
			c.Kinds = append(c.Kinds, clientPairKinds[(i+rep+env.Shard)%len(clientPairKinds)])
		}
		f := runClientPairCase(c)
		h.Case(evid.HashJSON(c)+uint64(rep*64+env.Shard), true, "client:two-replies-back-to-back")
		if f != nil && strings.HasPrefix(f.Sig, "harness-") {
			t.Errorf("HARNESS-ERROR %s", f.Msg)
			continue
		}
		if h.report("client-pairs", f, c) {
			return
		}
	}
	// the hook's registry and the reference table must name the same 65 types
	if env.Shard == 0 {
		reg := p9.VerifRegisteredTypes()
		ref := refcodec.Types()
		if fmt.Sprint(reg) != fmt.Sprint(ref) {
			h.report("inprocess", failf("wire:registered-types", "registered message types %v, 9P2000.L(.Google.N) defines %v", reg, ref), "types")
		}
		h.Case(evid.Hash64([]byte("types")), true, "registered-types")
	}
	types := refcodec.Types()
	// (3) in process, all 65 types
	rapidCases(h, "inprocess", env.PerShard(env.Pick(160000, 4000000)), func(rt *rapid.T) wireCase {
		c := wireCase{Msg: genMsgOfType(rt, rapid.SampledFrom(types).Draw(rt, "type"))}
		if rapid.IntRange(0, 3).Draw(rt, "raw") == 0 {
			c.RawPerm = genU32(rt, "rawperm")
			c.RawMask = genU64(rt, "rawmask")
		}
		return c
	}, func(c wireCase) *fail {
		st := &wireStats{}
		f := runWireCase(c, st)
		frame := refcodec.Encode(c.Msg)
		h.Case(evid.Hash64(frame, u32b(c.RawPerm), u64b(c.RawMask)), len(frame) > 7, append([]string{"inprocess:" + refcodec.Name(c.Msg.Type)}, st.classes...)...)
		if len(frame) > 30 && len(frame) < 400 && h.WantSample("inprocess") {
			h.Sample("inprocess", c)
		}
		return f
	})
	// (3b) the same through a real socket (vectorised receive path), the frame cut into chunks
	rapidCases(h, "socket", env.PerShard(env.Pick(8000, 400000)), func(rt *rapid.T) wireCase {
		c := wireCase{Msg: genMsgOfType(rt, rapid.SampledFrom(types).Draw(rt, "type")), Sock: true}
		n := len(refcodec.Encode(c.Msg))
		for k := rapid.IntRange(0, 3).Draw(rt, "nsplit"); k > 0 && n > 1; k-- {
			lo := 1
			if n > 8 && rapid.IntRange(0, 3).Draw(rt, "inbody") != 0 {
				lo = 8 // mostly inside the body
			}
			c.Splits = append(c.Splits, rapid.IntRange(lo, n-1).Draw(rt, "split"))
		}
		sort.Ints(c.Splits)
		return c
	}, func(c wireCase) *fail {
		f := runWireCase(c, nil)
		frame := refcodec.Encode(c.Msg)
		var sp []uint32
		inBody := false
		for _, x := range c.Splits {
			sp = append(sp, uint32(x))
			inBody = inBody || x > 7
		}
		cls := "socket:whole"
		if inBody {
			cls = "socket:split-inside-body"
		} else if len(c.Splits) > 0 {
			cls = "socket:split-inside-header"
		}
		h.Case(evid.Hash64(frame, u32b(sp...)), len(c.Splits) > 0, cls)
		return f
	})
	// replies produced at the same time, incl. the error replies to frames rejected at receive time
	rapidCases(h, "pipelined", env.PerShard(env.Pick(1600, 60000)), func(rt *rapid.T) pipeCase {
		var c pipeCase
		for i := rapid.IntRange(2, 12).Draw(rt, "n"); i > 0; i-- {
			c.Kinds = append(c.Kinds, rapid.SampledFrom([]string{"getattr", "getattr", "statfs", "unknown", "unknown", "short"}).Draw(rt, "kind"))
		}
		return c
	}, func(c pipeCase) *fail {
		rej := 0
		for _, k := range c.Kinds {
			if k == "unknown" || k == "short" {
				rej++
			}
		}
		h.Case(evid.HashJSON(c), rej > 0 && rej < len(c.Kinds), "pipelined")
		return runPipeCase(c)
	})
	// (1)+(2) at the connection: real client, tap, real server, recording backend
	rapidCases(h, "client-server", env.PerShard(env.Pick(24000, 400000)), genCallCase, func(c callCase) *fail {
		st := &callStats{}
		f := runCallCase(c, st)
		h.Case(callHash(c), st.nonDefault, "connection:"+c.Method)
		if st.nonDefault && h.WantSample("client-server") {
			h.Sample("client-server", c)
		}
		return f
	})
	// (2b) raw peer: T types the client never sends, raw upper bits
	rapidCases(h, "raw-peer", env.PerShard(env.Pick(16000, 200000)), genRawCase, func(c rawCase) *fail {
		f := runRawCase(c)
		h.Case(evid.HashJSON(c), true, "raw-peer:"+c.Kind)
		if h.WantSample("raw-peer") {
			h.Sample("raw-peer", c)
		}
		return f
	})
}
