package checks

import (
	"bytes"
	"errors"
	"fmt"
	"io"
	"os"
	"runtime"
	"sort"
	"strings"
	"sync"
	"sync/atomic"
	"testing"
	"time"

	"p9verif/evid"
	"p9verif/memfs"
	"p9verif/memtree"

	"github.com/hugelgupf/p9/linux"
	"github.com/hugelgupf/p9/p9"
	"pgregory.net/rapid"
)

// ---------------------------------------------------------------------------
// C16 — global progress and isolation across concurrent sessions

type isoCase struct {
	Seed    uint64 `json:"seed"`
	Conns   int    `json:"conns"`
	Workers int    `json:"workers"` // isolated workers, each confined to its own subtree and fids
	Noise   int    `json:"noise"`   // goroutines doing cross-directory renames/unlinks in a shared area
	Ops     int    `json:"ops_per_worker"`
	Native  bool   `json:"native_walkgetattr"`
	Perturb bool   `json:"perturb"`
	Mix     int    `json:"noise_mix,omitempty"` // 0: renames/unlinks/creates; 1: also kept fids, Trename, directory moves, throw-away connections; 2: the same concentrated on two directories and two names
}

func (c isoCase) encode() string {
	return fmt.Sprintf("%d,%d,%d,%d,%d,%v,%v,%d", c.Seed, c.Conns, c.Workers, c.Noise, c.Ops, c.Native, c.Perturb, c.Mix)
}

func decodeIso(s string) isoCase {
	var c isoCase
	fmt.Sscanf(s, "%d,%d,%d,%d,%d,%t,%t,%d", &c.Seed, &c.Conns, &c.Workers, &c.Noise, &c.Ops, &c.Native, &c.Perturb, &c.Mix)
	return c
}

func errnoOfClient(err error) int {
	if err == nil {
		return 0
	}
	if errors.Is(err, io.EOF) {
		return -1
	}
	var e linux.Errno
	if errors.As(err, &e) {
		return int(e)
	}
	return -2
}

// isoBody runs the workload in this process and returns the first violation.
func isoBody(c isoCase) *fail {
	f, _ := isoBodyFS(c)
	return f
}

// isoBodyFS also returns the backend, for checks that look at what happened to
// its Files (C05 runs the same workloads with lifecycle assertions).
func isoBodyFS(c isoCase) (*fail, *memfs.FS) {
	// every other workload runs on a backend that returns the last bytes of a
	// file together with io.EOF, as os.File-like backends may
	fs := memfs.New(memfs.Options{NativeWalkGetAttr: c.Native, TailEOF: c.Seed%2 == 0})
	for w := 0; w < c.Workers; w++ {
		fs.Tree.Mkdir(fs.Tree.Root, fmt.Sprintf("g%d", w), 0o755, 0, 0)
	}
	sh, _ := fs.Tree.Mkdir(fs.Tree.Root, "shared", 0o755, 0, 0)
	for i := 0; i < 4; i++ {
		d, _ := fs.Tree.Mkdir(sh, fmt.Sprintf("s%d", i), 0o755, 0, 0)
		for j := 0; j < 3; j++ {
			fs.Tree.Create(d, fmt.Sprintf("n%d", j), 0o644, 0, 0)
		}
	}
	if c.Perturb {
		rng := newSplitMix(c.Seed)
		var pmu sync.Mutex
		fs.Perturb = func(*memfs.Call) {
			pmu.Lock()
			r := rng.next() % 16
			pmu.Unlock()
			switch {
			case r < 4:
				time.Sleep(0)
			case r == 4:
				time.Sleep(10 * time.Microsecond)
			}
		}
	}
	srv := p9.NewServer(fs)
	var clients []*p9.Client
	var closers []func()
	for i := 0; i < c.Conns; i++ {
		cl, closeFn, err := dialPipe(srv)
		if err != nil {
			return failf("harness-dial", "HARNESS-ERROR %v", err), fs
		}
		clients = append(clients, cl)
		closers = append(closers, closeFn)
	}
	var wg sync.WaitGroup
	var vmu sync.Mutex
	var first *fail
	report := func(f *fail) {
		vmu.Lock()
		if first == nil {
			first = f
		}
		vmu.Unlock()
	}
	progress := make([]int64, c.Workers+c.Noise)
	stop := make(chan struct{})
	for w := 0; w < c.Workers; w++ {
		wg.Add(1)
		go func(w int) {
			defer wg.Done()
			if f := isoWorker(c, w, clients[w%len(clients)], &progress[w]); f != nil {
				report(f)
			}
		}(w)
	}
	for n := 0; n < c.Noise; n++ {
		wg.Add(1)
		go func(n int) {
			defer wg.Done()
			if c.Mix >= 1 {
				isoNoiseWild(c, n, srv, clients[(c.Workers+n)%len(clients)], &progress[c.Workers+n], stop)
				return
			}
			isoNoise(c, n, clients[(c.Workers+n)%len(clients)], &progress[c.Workers+n], stop)
		}(n)
	}
	done := make(chan struct{})
	go func() { wg.Wait(); close(done) }()
	// watchdog: the workload must finish; a stuck request is a violation. A
	// healthy workload finishes in well under a second; it counts as stuck when
	// no worker made any progress for 30 s, or after 180 s in total.
	start := time.Now()
	lastSum, lastChange := int64(-1), time.Now()
	for finished := false; !finished; {
		select {
		case <-done:
			finished = true
		case <-time.After(250 * time.Millisecond):
			var sum int64
			for i := range progress {
				sum += atomic.LoadInt64(&progress[i])
			}
			if sum != lastSum {
				lastSum, lastChange = sum, time.Now()
			}
			if time.Since(lastChange) > 30*time.Second || time.Since(start) > 180*time.Second {
				buf := make([]byte, 4<<20)
				buf = buf[:runtime.Stack(buf, true)]
				var stuck []string
				for _, g := range strings.Split(string(buf), "\n\n") {
					if strings.Contains(g, "hugelgupf/p9/p9.") && !strings.Contains(g, "vconn.(*Stream).Read") {
						lines := strings.Split(g, "\n")
						var fr []string
						for _, l := range lines {
							if strings.HasPrefix(l, "github.com/hugelgupf/p9/p9.") || strings.HasPrefix(l, "sync.") || strings.HasPrefix(l, "goroutine ") {
								fr = append(fr, strings.TrimPrefix(strings.SplitN(l, "(0x", 2)[0], "github.com/hugelgupf/p9/p9."))
							}
						}
						stuck = append(stuck, strings.Join(fr, " < "))
					}
				}
				fmt.Printf("STUCK-STACKS\n%s\nEND-STUCK-STACKS\n", strings.Join(stuck, "\n"))
				return failf("workload-stuck", "concurrent workload made no progress for %v (total %v): a request was never answered; calls inside the backend: %v; case %+v", time.Since(lastChange).Round(time.Second), time.Since(start).Round(time.Second), fs.Inside(), c), fs
			}
		}
	}
	close(stop)
	for _, f := range closers {
		f()
	}
	return first, fs
}

// isoWorker performs a deterministic sequence of operations confined to /g<w>
// and compares every result with a private sequential model of that subtree.
func isoWorker(c isoCase, w int, cl *p9.Client, progress *int64) *fail {
	r := newSplitMix(c.Seed*7919 + uint64(w)*104729)
	model := memtree.New()
	mdir := model.Root // stands for /g<w>
	root, err := cl.Attach("")
	if err != nil {
		return failf("iso-attach", "worker %d: attach: %v", w, err)
	}
	defer root.Close()
	_, dir, err := root.Walk([]string{fmt.Sprintf("g%d", w)})
	if err != nil {
		return failf("iso-walk", "worker %d: walk to own directory: %v", w, err)
	}
	defer dir.Close()
	names := []string{"a", "b", "c", "d"}
	bad := func(op string, i int, got, want any) *fail {
		return failf("isolation:"+op, "worker %d (alone in /g%d, own fids) step %d: %s returned %v, its sequential model says %v; case %+v", w, w, i, op, got, want, c)
	}
	for i := 0; i < c.Ops; i++ {
		atomic.StoreInt64(progress, int64(i))
		n1, n2 := names[r.next()%4], names[r.next()%4]
		switch r.next() % 9 {
		case 0:
			_, err := dir.Mkdir(n1, 0o755, 0, 0)
			_, en := model.Mkdir(mdir, n1, 0o755, 0, 0)
			if errnoOfClient(err) != en {
				return bad("mkdir", i, err, en)
			}
		case 1:
			_, f, err := dir.Walk(nil)
			if err != nil {
				return bad("clone", i, err, 0)
			}
			data := []byte(fmt.Sprintf("w%d-%d", w, i))
			nf, _, _, err := f.Create(n1, p9.ReadWrite, 0o644, 0, 0)
			ino, en := model.Create(mdir, n1, 0o644, 0, 0)
			if errnoOfClient(err) != en {
				f.Close()
				return bad("create", i, err, en)
			}
			if err == nil {
				if n, err := nf.WriteAt(data, 0); err != nil || n != len(data) {
					f.Close()
					return bad("write", i, fmt.Sprint(n, err), len(data))
				}
				ino.WriteAt(data, 0)
				buf := make([]byte, 32)
				n, err := nf.ReadAt(buf, 0)
				if err != nil && !errors.Is(err, io.EOF) || !bytes.Equal(buf[:n], data) {
					f.Close()
					return bad("read-back", i, fmt.Sprintf("%q %v", buf[:n], err), string(data))
				}
			}
			f.Close()
		case 2:
			err := dir.UnlinkAt(n1, 0)
			en := model.Unlink(mdir, n1)
			if errnoOfClient(err) != en {
				return bad("unlinkat", i, err, en)
			}
		case 3:
			err := dir.RenameAt(n1, dir, n2)
			en := 0
			if n1 != n2 { // renaming an entry onto itself succeeds without reaching the backend
				en = model.Rename(mdir, n1, mdir, n2)
			}
			if errnoOfClient(err) != en {
				return bad("renameat", i, err, en)
			}
		case 4:
			_, f, err := dir.Walk([]string{n1})
			mi, en := memtree.Lookup(mdir, n1)
			if errnoOfClient(err) != en {
				return bad("walk", i, err, en)
			}
			if err == nil {
				_, _, attr, err := f.GetAttr(p9.AttrMaskAll)
				if err != nil || attr.Size != mi.Size || uint32(attr.Mode)&memtree.TMask != mi.Type {
					f.Close()
					return bad("getattr", i, fmt.Sprint(attr.Size, attr.Mode, err), fmt.Sprint(mi.Size, mi.Type))
				}
				if mi.Type == memtree.TReg {
					if _, _, err := f.Open(p9.ReadOnly); err != nil {
						f.Close()
						return bad("open", i, err, 0)
					}
					buf := make([]byte, 32)
					n, err := f.ReadAt(buf, 0)
					want := make([]byte, 32)
					wn := mi.ReadAt(want, 0)
					if err != nil && !errors.Is(err, io.EOF) || !bytes.Equal(buf[:n], want[:wn]) {
						f.Close()
						return bad("read", i, fmt.Sprintf("%q %v", buf[:n], err), string(want[:wn]))
					}
				}
				f.Close()
			}
		case 5:
			_, f, err := dir.Walk(nil)
			if err != nil {
				return bad("clone", i, err, 0)
			}
			if _, _, err := f.Open(p9.ReadOnly); err != nil {
				f.Close()
				return bad("open-dir", i, err, 0)
			}
			ents, err := f.Readdir(0, 8000)
			f.Close()
			if err != nil {
				return bad("readdir", i, err, 0)
			}
			var got []string
			for _, e := range ents {
				got = append(got, e.Name)
			}
			sort.Strings(got)
			want := memtree.Names(mdir)
			if strings.Join(got, ",") != strings.Join(want, ",") {
				return bad("readdir", i, got, want)
			}
		case 6:
			// rename through a fid on the entry itself (Trename)
			_, f, err := dir.Walk([]string{n1})
			_, en := memtree.Lookup(mdir, n1)
			if errnoOfClient(err) != en {
				return bad("walk", i, err, en)
			}
			if err == nil {
				err := f.Rename(dir, n2)
				en := 0
				if n1 != n2 {
					en = model.Rename(mdir, n1, mdir, n2)
				}
				f.Close()
				if errnoOfClient(err) != en {
					return bad("rename", i, err, en)
				}
			}
		case 7:
			// into / out of an own subdirectory
			sub, en := memtree.Lookup(mdir, n1)
			if en == 0 && sub.IsDir() && n1 != n2 {
				_, sf, err := dir.Walk([]string{n1})
				if err != nil {
					return bad("walk", i, err, 0)
				}
				err = dir.RenameAt(n2, sf, "moved")
				en := model.Rename(mdir, n2, sub, "moved")
				sf.Close()
				if errnoOfClient(err) != en {
					return bad("renameat-into-subdir", i, err, en)
				}
			}
		default:
			_, err := dir.Symlink("target", n1, 0, 0)
			_, en := model.Symlink(mdir, n1, "target", 0, 0)
			if errnoOfClient(err) != en {
				return bad("symlink", i, err, en)
			}
		}
	}
	return nil
}

// isoNoise renames and unlinks across directories of the shared area (results
// are not compared; they only create global-lock traffic).
func isoNoise(c isoCase, n int, cl *p9.Client, progress *int64, stop <-chan struct{}) {
	r := newSplitMix(c.Seed*31 + uint64(n))
	root, err := cl.Attach("")
	if err != nil {
		return
	}
	defer root.Close()
	for i := 0; i < c.Ops; i++ {
		select {
		case <-stop:
			return
		default:
		}
		atomic.StoreInt64(progress, int64(i))
		a, b := fmt.Sprintf("s%d", r.next()%4), fmt.Sprintf("s%d", r.next()%4)
		_, da, err := root.Walk([]string{"shared", a})
		if err != nil {
			continue
		}
		_, db, err := root.Walk([]string{"shared", b})
		if err != nil {
			da.Close()
			continue
		}
		n1, n2 := fmt.Sprintf("n%d", r.next()%3), fmt.Sprintf("n%d", r.next()%3)
		switch r.next() % 4 {
		case 0, 1:
			da.RenameAt(n1, db, n2)
		case 2:
			da.UnlinkAt(n1, 0)
		default:
			if _, f, err := da.Walk(nil); err == nil {
				f.Create(n1, p9.ReadWrite, 0o644, 0, 0)
				f.Close()
			}
		}
		da.Close()
		db.Close()
	}
}

// isoNoiseWild is the richer noise mix: besides renames, unlinks and creates it
// keeps fids on shared entries across operations and clunks them later, renames
// through such fids (Trename), moves directories, lists and stats, and opens
// throw-away connections that are cut off with their fids still bound. Every
// goroutine works sequentially on fids of its own (one request outstanding per
// fid); results are not compared, only completion, survival and race reports.
func isoNoiseWild(c isoCase, n int, srv *p9.Server, cl *p9.Client, progress *int64, stop <-chan struct{}) {
	r := newSplitMix(c.Seed*131 + uint64(n)*7)
	root, err := cl.Attach("")
	if err != nil {
		return
	}
	defer root.Close()
	var keep []p9.File
	var side *p9.Client
	var sideClose func()
	var sideKeep []p9.File
	dropSide := func() {
		if side != nil {
			sideClose()
			side, sideKeep = nil, nil
		}
	}
	defer func() {
		for _, f := range keep {
			f.Close()
		}
		dropSide()
	}()
	// Mix 2 is the "hot spot" variant: two directories, two names and mostly
	// operations through kept fids, so that different goroutines keep meeting on
	// the same entries.
	hot := c.Mix == 2
	hotOps := []uint64{0, 0, 2, 4, 4, 5, 5, 6, 6, 9, 9, 9, 9, 9, 9, 9, 9, 8, 7, 10, 12, 13, 14}
	sdir := func() string {
		if hot {
			return fmt.Sprintf("s%d", r.next()%2)
		}
		return fmt.Sprintf("s%d", r.next()%4)
	}
	ent := func() string {
		if hot {
			return fmt.Sprintf("n%d", r.next()%2)
		}
		if r.next()%5 == 0 {
			return fmt.Sprintf("d%d", r.next()%2)
		}
		return fmt.Sprintf("n%d", r.next()%3)
	}
	walk := func(from p9.File, names ...string) p9.File {
		_, f, err := from.Walk(names)
		if err != nil {
			return nil
		}
		return f
	}
	for i := 0; i < c.Ops; i++ {
		select {
		case <-stop:
			return
		default:
		}
		atomic.StoreInt64(progress, int64(i))
		op := r.next() % 15
		if hot {
			op = hotOps[r.next()%uint64(len(hotOps))]
		}
		if len(keep) > 16 { // bound the number of fids a goroutine holds
			op = 2
		}
		switch op {
		case 0, 1: // bind a fid to an entry and keep it
			if f := walk(root, "shared", sdir(), ent()); f != nil {
				keep = append(keep, f)
			}
		case 2, 3: // clunk a kept fid while others rename around it
			if len(keep) > 0 {
				k := int(r.next() % uint64(len(keep)))
				keep[k].Close()
				keep = append(keep[:k], keep[k+1:]...)
			}
		case 4: // rename within one directory
			if d := walk(root, "shared", sdir()); d != nil {
				d.RenameAt(ent(), d, ent())
				d.Close()
			}
		case 5: // rename across directories (files and directories)
			da, db := walk(root, "shared", sdir()), walk(root, "shared", sdir())
			if da != nil && db != nil {
				da.RenameAt(ent(), db, ent())
			}
			if da != nil {
				da.Close()
			}
			if db != nil {
				db.Close()
			}
		case 6: // Trename through a kept fid
			if len(keep) > 0 {
				if d := walk(root, "shared", sdir()); d != nil {
					keep[int(r.next()%uint64(len(keep)))].Rename(d, ent())
					d.Close()
				}
			}
		case 7: // unlink
			if d := walk(root, "shared", sdir()); d != nil {
				d.UnlinkAt(ent(), 0)
				d.Close()
			}
		case 8: // create (rebinding a clone) or mkdir
			if d := walk(root, "shared", sdir()); d != nil {
				if r.next()%3 == 0 {
					d.Mkdir(fmt.Sprintf("d%d", r.next()%2), 0o755, 0, 0)
					d.Close()
				} else if _, _, _, err := d.Create(fmt.Sprintf("n%d", r.next()%3), p9.ReadWrite, 0o644, 0, 0); err == nil {
					if r.next()%2 == 0 {
						keep = append(keep, d) // an open fid on the new entry
					} else {
						d.Close()
					}
				} else {
					d.Close()
				}
			}
		case 9: // use a kept fid
			if len(keep) > 0 {
				f := keep[int(r.next()%uint64(len(keep)))]
				k := r.next() % 3
				if hot && r.next()%2 == 0 {
					k = 2
				}
				switch k {
				case 0:
					f.GetAttr(p9.AttrMaskAll)
				case 1:
					f.SetAttr(p9.SetAttrMask{Permissions: true}, p9.SetAttr{Permissions: 0o640})
				default:
					if g := walk(f); g != nil { // clone
						g.Close()
					}
				}
			}
		case 10: // list a shared directory
			if d := walk(root, "shared", sdir()); d != nil {
				if _, _, err := d.Open(p9.ReadOnly); err == nil {
					d.Readdir(0, 4096)
				}
				d.Close()
			}
		case 11: // multi-component walk through the shared area
			if f := walk(root, "shared", sdir(), "d0", ent()); f != nil {
				f.Close()
			}
		case 14: // hard links: of a kept fid's entry, and (refused by the backend) of directories, the target directory itself included
			if d := walk(root, "shared", sdir()); d != nil {
				switch r.next() % 3 {
				case 0:
					d.Link(d, ent())
				case 1:
					if t := walk(root, "shared", sdir()); t != nil {
						d.Link(t, ent())
						t.Close()
					}
				default:
					if len(keep) > 0 {
						d.Link(keep[int(r.next()%uint64(len(keep)))], ent())
					}
				}
				d.Close()
			}
		case 12: // a throw-away connection binds some fids
			if side == nil {
				if sc, closeFn, err := dialPipe(srv); err == nil {
					side, sideClose = sc, closeFn
				}
			}
			if side != nil {
				if sr, err := side.Attach(""); err == nil {
					sideKeep = append(sideKeep, sr)
					for k := uint64(0); k < 1+r.next()%3; k++ {
						if f := walk(sr, "shared", sdir(), ent()); f != nil {
							sideKeep = append(sideKeep, f)
						}
					}
				}
			}
		default: // ... and is cut off with them still bound
			dropSide()
		}
	}
}

// TestC16Child is the child-process body.
func TestC16Child(t *testing.T) {
	if os.Getenv("VERIF_CHILD") == "" {
		t.Skip("child only")
	}
	c := decodeIso(os.Getenv("VERIF_CASE"))
	if f := isoBody(c); f != nil {
		fmt.Printf("CHILD-VIOLATION [%s] %s\n", f.Sig, f.Msg)
		t.Fail()
	}
}

func runIsoCase(c isoCase) *fail {
	code, out, finished := runChild("TestC16Child", map[string]string{"VERIF_CASE": c.encode()}, 240*time.Second)
	if !finished {
		return failf("workload-stuck", "the workload process did not finish within 300 s: %s", tail(out, 3000))
	}
	// race reports that involve the package under test
	if i := strings.Index(out, "WARNING: DATA RACE"); i >= 0 {
		for _, blk := range strings.Split(out[i:], "==================") {
			if strings.Contains(blk, "WARNING: DATA RACE") && strings.Contains(blk, "github.com/hugelgupf/p9/p9.") {
				return failf("data-race:"+raceSite(blk), "race detector report involving the server: %s", firstLines(blk, "WARNING", 40))
			}
		}
	}
	if code == 0 {
		return nil
	}
	if i := strings.Index(out, "CHILD-VIOLATION ["); i >= 0 {
		line := out[i:]
		if j := strings.IndexByte(line, '\n'); j >= 0 {
			line = line[:j]
		}
		msg := line
		if a := strings.Index(out, "STUCK-STACKS"); a >= 0 {
			if b := strings.Index(out, "END-STUCK-STACKS"); b > a {
				msg += " | server goroutines: " + out[a+12:b]
			}
		}
		return &fail{Sig: line[len("CHILD-VIOLATION ["):strings.IndexByte(line, ']')], Msg: msg}
	}
	if strings.Contains(out, "fatal error:") {
		return failf("runtime-abort", "the server process aborted: %s", firstLines(out, "fatal error:", 25))
	}
	if code == 66 {
		return nil // race reports only in harness code
	}
	return failf("harness-child", "HARNESS-ERROR child exit %d: %s", code, tail(out, 3000))
}

// raceSite extracts the first p9 function named in a race report.
func raceSite(blk string) string {
	for _, l := range strings.Split(blk, "\n") {
		l = strings.TrimSpace(l)
		if strings.HasPrefix(l, "github.com/hugelgupf/p9/p9.") {
			l = strings.TrimPrefix(l, "github.com/hugelgupf/p9/p9.")
			if i := strings.IndexByte(l, '('); i > 0 && strings.HasSuffix(l, ")") && !strings.HasPrefix(l, "(") {
				l = l[:i]
			}
			return l
		}
	}
	return "unknown"
}

func init() {
	replayRegistrars = append(replayRegistrars, func() {
		registerReplay("C16/workloads", runIsoCase)
		registerReplay("C16/xattr-isolation", runXattrIsoCase)
		registerReplay("C16/release-during-notification", runNotifyRaceCase)
		registerReplay("C16/flush-waiters", func(c batchCase) *fail { return runBatchCase(c, nil) })
	})
}

func TestC16(t *testing.T) {
	h := begin(t, "C16")
	defer h.Finish()
	env := h.Env
	// attribute values and file contents of equal length set by many sessions at once
	{
		for rep := 0; rep < env.Pick(32, 320)/env.NShards+1; rep++ {
			c := xattrIsoCase{Sessions: 2 + (rep+env.Shard)%7, Rounds: 30, Len: []int{4, 5, 24, 100, 5000}[(rep+env.Shard)%5], Native: rep%2 == 0}
			f := runXattrIsoCase(c)
			h.Case(evid.HashJSON(c)+uint64(rep*64+env.Shard), c.Sessions >= 2, "xattr-isolation")
			if f != nil && strings.HasPrefix(f.Sig, "harness-") {
				t.Errorf("HARNESS-ERROR %s", f.Msg)
				continue
			}
			if h.report("xattr-isolation", f, c) {
				return
			}
		}
	}
	maxW := env.Pick(16, 64)
	// directed schedules that are too rare for the random workloads: the last
	// fid of a File disappears while a rename is inside its notification
	if env.Shard == 0 {
		for _, ren := range notifyRaceRenames {
			for extra := 0; extra <= 2; extra++ {
				for _, native := range []bool{false, true} {
					c := notifyRaceCase{Native: native, Rename: ren, Extra: extra}
					f := runNotifyRaceCase(c)
					h.Case(evid.HashJSON(c), true, "directed:release-during-rename-notification")
					if f != nil && strings.HasPrefix(f.Sig, "harness-") {
						t.Errorf("HARNESS-ERROR %s", f.Msg)
						continue
					}
					if f != nil && !strings.HasPrefix(f.Sig, "hang-") && !strings.HasPrefix(f.Sig, "handle-did-not-return") {
						continue // lifecycle verdicts belong to C05
					}
					if h.report("release-during-notification", f, c) {
						return
					}
				}
			}
		}
	}
	shrinkTime = "1s" // a stuck workload costs 30 s per attempt: do not spend minutes shrinking it
	defer func() { shrinkTime = "20s" }()
	// lost wake-ups around tag waiting: 2-4 Tflush requests wait for the same held
	// request (held in GetAttr, or in the Close made by a Tclunk); after the release
	// every one of them and the request itself must be answered
	if env.Shard == 0 && os.Getenv("VERIF_C16_RACE") == "" {
		for _, heldIn := range []string{"", "clunk"} {
			for k := 2; k <= 4; k++ {
				for _, chained := range []bool{false, true} {
					c := batchCase{Native: k%2 == 0, Reqs: []batchReq{{Kind: "gated", Tag: 10, Held: heldIn}}, Release: []int{0}}
					for j := 0; j < k; j++ {
						of := 0
						if chained && j > 0 {
							of = j // the previous flush
						}
						c.Reqs = append(c.Reqs, batchReq{Kind: "flush-of", Tag: uint16(20 + j), Of: of})
					}
					c.Reqs = append(c.Reqs, batchReq{Kind: "statfs", Tag: 40})
					f := runBatchCase(c, &batchStats{})
					h.Case(evid.HashJSON(c), true, "directed:several-flushes-wait-for-one-request")
					if f != nil && strings.HasPrefix(f.Sig, "harness-") {
						t.Errorf("HARNESS-ERROR %s", f.Msg)
						continue
					}
					if h.report("flush-waiters", f, c) {
						return
					}
				}
			}
		}
	}
	nWork := env.PerShard(env.Pick(400, 32000))
	raceStage := os.Getenv("VERIF_C16_RACE") != "" // the -race stage: fewer, smaller, mostly hot-spot workloads
	if raceStage {
		nWork = env.PerShard(env.Pick(640, 9600))
	}
	rapidCases(h, "workloads", nWork, func(rt *rapid.T) isoCase {
		if raceStage {
			return isoCase{Seed: rapid.Uint64Range(1, 1<<40).Draw(rt, "seed"), Conns: rapid.IntRange(1, 4).Draw(rt, "conns"),
				Workers: rapid.IntRange(2, 6).Draw(rt, "workers"), Noise: rapid.IntRange(2, 4).Draw(rt, "noise"),
				Ops: rapid.IntRange(50, 120).Draw(rt, "ops"), Native: rapid.Bool().Draw(rt, "native"), Perturb: rapid.Bool().Draw(rt, "perturb"),
				Mix: rapid.SampledFrom([]int{0, 1, 2, 2, 2, 2}).Draw(rt, "mix")}
		}
		return isoCase{Seed: rapid.Uint64Range(1, 1<<40).Draw(rt, "seed"), Conns: rapid.IntRange(1, 8).Draw(rt, "conns"),
			Workers: rapid.IntRange(2, maxW).Draw(rt, "workers"), Noise: rapid.IntRange(0, 4).Draw(rt, "noise"),
			Ops: rapid.IntRange(50, 200).Draw(rt, "ops"), Native: rapid.Bool().Draw(rt, "native"), Perturb: rapid.Bool().Draw(rt, "perturb"),
			Mix: rapid.IntRange(0, 2).Draw(rt, "mix")}
	}, func(c isoCase) *fail {
		f := runIsoCase(c)
		cls := "workloads:no-renamer"
		if c.Noise > 0 {
			cls = "workloads:with-cross-directory-renames"
			if c.Mix == 1 {
				cls = "workloads:with-kept-fids-directory-moves-and-dropped-connections"
			} else if c.Mix == 2 {
				cls = "workloads:hot-spot-kept-fids-on-two-names"
			}
		}
		h.Case(evid.HashJSON(c), c.Workers >= 2, cls)
		h.Count("operations-issued", int64((c.Workers+c.Noise)*c.Ops))
		if h.WantSample("workloads") {
			h.Sample("workloads", c)
		}
		return f
	})
}
