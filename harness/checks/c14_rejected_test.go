package checks

import (
	"encoding/binary"
	"fmt"
	"time"

	"p9verif/peers"
	"p9verif/refcodec"

	"github.com/hugelgupf/p9/p9"
)

// rejectedFlushCase (C14): frames the receiver rejects (a known request type
// with a body shorter than its fixed fields, a body that overruns, an unknown
// type) carry tags too. Such a tag is idle afterwards: a Tflush naming it is
// answered at once, a request re-using it is served, and Handle returns when the
// stream ends.
type rejectedFlushCase struct {
	Frames []rejectedFrame `json:"frames"`
}

type rejectedFrame struct {
	Kind string `json:"kind"` // short | overrun | unknown-type | valid
	Type uint8  `json:"type"` // for short / overrun: the T type whose body is damaged
	Tag  uint16 `json:"tag"`
	Then string `json:"then"` // flush | reuse | flush-reuse | reuse-flush | none
}

func runRejectedFlushCase(c rejectedFlushCase) *fail {
	s := peers.Start(p9.NewServer(nullAttacher{}))
	if _, err := s.Version(8192, "9P2000.L.Google.7"); err != nil {
		return failf("harness-version", "HARNESS-ERROR %v", err)
	}
	ftag := uint16(0x7000)
	for i, fr := range c.Frames {
		what := fmt.Sprintf("frame %d (%s type %d tag %d, then %s) of %+v", i, fr.Kind, fr.Type, fr.Tag, fr.Then, c)
		var frame []byte
		switch fr.Kind {
		case "short": // header and four bytes of body
			frame = make([]byte, 11)
			frame[4] = fr.Type
		case "overrun": // a string length that points beyond the frame
			frame = make([]byte, 7+4+2+3)
			frame[4] = refcodec.Tlcreate
			binary.LittleEndian.PutUint16(frame[11:], 4000)
		case "unknown-type":
			frame = make([]byte, 9)
			frame[4] = 55
		default:
			frame = refcodec.Encode(refcodec.New(refcodec.Tclunk, fr.Tag, "fid", probeFid))
		}
		binary.LittleEndian.PutUint32(frame, uint32(len(frame)))
		binary.LittleEndian.PutUint16(frame[5:], fr.Tag)
		raw, err := s.RPC(frame)
		if err != nil {
			return failf("no-reply:rejected-frame", "%s: %v", what, err)
		}
		if rep, derr := refcodec.DecodeStrict(raw); derr != nil || rep.Type != refcodec.Rlerror {
			return failf("rejected-frame-answer", "%s: answered %x (%v)", what, raw[:min(len(raw), 32)], derr)
		}
		flush := func() *fail {
			ftag++
			s.Send(refcodec.Encode(refcodec.New(refcodec.Tflush, ftag, "oldtag", fr.Tag)))
			raw, err := s.Recv(5 * time.Second)
			want := refcodec.Encode(refcodec.New(refcodec.Rflush, ftag))
			if err != nil || string(raw) != string(want) {
				return failf("flush-of-idle-tag-not-answered:after-rejected-frame", "%s: Tflush naming the tag of the rejected frame: %x (%v), want Rflush at once", what, raw, err)
			}
			return nil
		}
		reuse := func() *fail {
			s.Send(refcodec.Encode(refcodec.New(refcodec.Tclunk, fr.Tag, "fid", probeFid)))
			raw, err := s.Recv(5 * time.Second)
			want := refcodec.Encode(refcodec.New(refcodec.Rlerror, fr.Tag, "ecode", 9))
			if err != nil || string(raw) != string(want) {
				return failf("tag-of-rejected-frame-not-reusable", "%s: a request re-using the tag was answered %x (%v)", what, raw, err)
			}
			return nil
		}
		var steps []func() *fail
		switch fr.Then {
		case "flush":
			steps = []func() *fail{flush}
		case "reuse":
			steps = []func() *fail{reuse}
		case "flush-reuse":
			steps = []func() *fail{flush, reuse}
		case "reuse-flush":
			steps = []func() *fail{reuse, flush}
		}
		for _, st := range steps {
			if f := st(); f != nil {
				s.Close(time.Second)
				return f
			}
		}
	}
	if !s.Close(20 * time.Second) {
		return failf("handle-did-not-return:after-rejected-frames", "Handle did not return after the stream ended (%+v)", c)
	}
	return nil
}
