package checks

import (
	"bytes"
	"errors"
	"fmt"
	"io"
	"reflect"
	"runtime"
	"strings"
	"testing"

	"p9verif/evid"
	"p9verif/mockfs"
	"p9verif/refcodec"

	"github.com/hugelgupf/p9/linux"
	"github.com/hugelgupf/p9/p9"
	"pgregory.net/rapid"
)

// ---------------------------------------------------------------------------
// C03 (and the connection-level part of C01): every File method of the real
// client, through a tap, against the real server with a scripted recording
// backend. Four comparisons per call, each against the independent codec or
// the call's own arguments:
//   T frames  == refcodec.Encode(arguments)            (client encoder)
//   backend arguments == call arguments                (server decoder)
//   R frames  == refcodec.Encode(values the backend returned) (server encoder)
//   return values == values the backend returned       (client decoder)

type entSpec struct {
	QID    [3]uint64 `json:"qid"`
	Offset uint64    `json:"offset"`
	Type   uint8     `json:"type"`
	Name   []byte    `json:"name"`
}

type callCase struct {
	Version uint32 `json:"version"`
	Native  bool   `json:"native_walkgetattr"`
	Derive  string `json:"derive"` // attach | attach-name | walk | walkgetattr | create
	Method  string `json:"method"`

	Names  [][]byte  `json:"names,omitempty"`
	Name   []byte    `json:"name,omitempty"`
	Name2  []byte    `json:"name2,omitempty"`
	Flags  uint32    `json:"flags,omitempty"`
	Mode   uint32    `json:"mode,omitempty"`
	UID    uint32    `json:"uid,omitempty"`
	GID    uint32    `json:"gid,omitempty"`
	Major  uint32    `json:"major,omitempty"`
	Minor  uint32    `json:"minor,omitempty"`
	Offset uint64    `json:"offset,omitempty"`
	Count  uint32    `json:"count,omitempty"`
	Data   []byte    `json:"data,omitempty"`
	Mask   uint16    `json:"mask,omitempty"`
	SValid uint16    `json:"svalid,omitempty"`
	SAttr  [8]uint64 `json:"sattr,omitempty"`
	PID    int32     `json:"pid,omitempty"`
	LType  uint8     `json:"ltype,omitempty"`
	LFlags uint32    `json:"lflags,omitempty"`
	Start  uint64    `json:"start,omitempty"`
	Length uint64    `json:"length,omitempty"`

	Msize uint32 `json:"msize,omitempty"` // 0: 256 KiB (every call fits one message); xattr reads also run with small limits

	PreRename []byte `json:"pre_rename,omitempty"`
	// Follow: after a call that the backend failed, another handle on the same
	// entry is used (setattr | open | readlink-or-getattr); it must still reach the backend
	Follow string `json:"follow,omitempty"`

	Err     *errSpec    `json:"err,omitempty"`
	RQID    [3]uint64   `json:"rqid,omitempty"`
	RQIDs   [][3]uint64 `json:"rqids,omitempty"`
	RAttr   [18]uint64  `json:"rattr,omitempty"`
	RValid  uint16      `json:"rvalid,omitempty"`
	RIOUnit uint32      `json:"riounit,omitempty"`
	RN      uint32      `json:"rn,omitempty"`
	RData   []byte      `json:"rdata,omitempty"`
	RStr    []byte      `json:"rstr,omitempty"`
	RStrs   [][]byte    `json:"rstrs,omitempty"`
	REnts   []entSpec   `json:"rents,omitempty"`
	RStat   [9]uint64   `json:"rstat,omitempty"`
	RStatus uint8       `json:"rstatus,omitempty"`
}

// --- conversions between the API's types and the reference codec's ---------

func qidP(q [3]uint64) p9.QID {
	return p9.QID{Type: p9.QIDType(q[0]), Version: uint32(q[1]), Path: q[2]}
}
func qidR(q p9.QID) refcodec.QID {
	return refcodec.QID{Type: uint8(q.Type), Version: q.Version, Path: q.Path}
}

func attrP(a [18]uint64) p9.Attr {
	return p9.Attr{Mode: p9.FileMode(a[0]), UID: p9.UID(a[1]), GID: p9.GID(a[2]), NLink: p9.NLink(a[3]), RDev: p9.Dev(a[4]),
		Size: a[5], BlockSize: a[6], Blocks: a[7], ATimeSeconds: a[8], ATimeNanoSeconds: a[9], MTimeSeconds: a[10],
		MTimeNanoSeconds: a[11], CTimeSeconds: a[12], CTimeNanoSeconds: a[13], BTimeSeconds: a[14], BTimeNanoSeconds: a[15],
		Gen: a[16], DataVersion: a[17]}
}

func attrR(a p9.Attr) refcodec.Attr {
	return refcodec.Attr{uint64(a.Mode), uint64(a.UID), uint64(a.GID), uint64(a.NLink), uint64(a.RDev), a.Size, a.BlockSize, a.Blocks,
		a.ATimeSeconds, a.ATimeNanoSeconds, a.MTimeSeconds, a.MTimeNanoSeconds, a.CTimeSeconds, a.CTimeNanoSeconds,
		a.BTimeSeconds, a.BTimeNanoSeconds, a.Gen, a.DataVersion}
}

// getattr mask bits, as 9P2000.L defines them
func maskP(m uint16) p9.AttrMask {
	return p9.AttrMask{Mode: m&0x1 != 0, NLink: m&0x2 != 0, UID: m&0x4 != 0, GID: m&0x8 != 0, RDev: m&0x10 != 0, ATime: m&0x20 != 0,
		MTime: m&0x40 != 0, CTime: m&0x80 != 0, INo: m&0x100 != 0, Size: m&0x200 != 0, Blocks: m&0x400 != 0, BTime: m&0x800 != 0,
		Gen: m&0x1000 != 0, DataVersion: m&0x2000 != 0}
}

func maskU(a p9.AttrMask) uint64 {
	var m uint64
	for i, b := range []bool{a.Mode, a.NLink, a.UID, a.GID, a.RDev, a.ATime, a.MTime, a.CTime, a.INo, a.Size, a.Blocks, a.BTime, a.Gen, a.DataVersion} {
		if b {
			m |= 1 << uint(i)
		}
	}
	return m
}

// setattr valid bits
func smaskP(m uint16) p9.SetAttrMask {
	return p9.SetAttrMask{Permissions: m&0x1 != 0, UID: m&0x2 != 0, GID: m&0x4 != 0, Size: m&0x8 != 0, ATime: m&0x10 != 0, MTime: m&0x20 != 0,
		CTime: m&0x40 != 0, ATimeNotSystemTime: m&0x80 != 0, MTimeNotSystemTime: m&0x100 != 0}
}

func smaskU(a p9.SetAttrMask) uint64 {
	var m uint64
	for i, b := range []bool{a.Permissions, a.UID, a.GID, a.Size, a.ATime, a.MTime, a.CTime, a.ATimeNotSystemTime, a.MTimeNotSystemTime} {
		if b {
			m |= 1 << uint(i)
		}
	}
	return m
}

func sattrP(s [8]uint64) p9.SetAttr {
	return p9.SetAttr{Permissions: p9.FileMode(s[0]), UID: p9.UID(s[1]), GID: p9.GID(s[2]), Size: s[3], ATimeSeconds: s[4],
		ATimeNanoSeconds: s[5], MTimeSeconds: s[6], MTimeNanoSeconds: s[7]}
}

func entsP(es []entSpec) p9.Dirents {
	var out p9.Dirents
	for _, e := range es {
		out = append(out, p9.Dirent{QID: qidP(e.QID), Offset: e.Offset, Type: p9.QIDType(e.Type), Name: string(e.Name)})
	}
	return out
}

func entsR(es p9.Dirents) []refcodec.Dirent {
	out := []refcodec.Dirent{}
	for _, e := range es {
		out = append(out, refcodec.Dirent{QID: qidR(e.QID), Offset: e.Offset, Type: uint8(e.Type), Name: e.Name})
	}
	return out
}

func strs(bs [][]byte) []string {
	out := []string{}
	for _, b := range bs {
		out = append(out, string(b))
	}
	return out
}

// needKind says what the receiver must be for a method.
func needKind(method string) (mode p9.FileMode, open int) { // open: -1 no, else flags
	switch method {
	case "ReadAt", "WriteAt", "FSync":
		return p9.ModeRegular | 0o644, int(p9.ReadWrite)
	case "Readdir":
		return p9.ModeDirectory | 0o755, int(p9.ReadOnly)
	case "Readlink":
		return p9.ModeSymlink | 0o777, -1
	}
	return p9.ModeDirectory | 0o755, -1
}

type callStats struct {
	reachedBackend bool
	nonDefault     bool
}

// expectFrames compares the frames of one call with the expected messages.
// Fid fields named in fidFields are taken from the actual frame after a
// consistency check by the caller (returned for that purpose).
func frameOf(f tapFrame) (*refcodec.Msg, error) { return refcodec.DecodeStrict(f.Raw) }

func runCallCase(c callCase, st *callStats) *fail {
	msize := uint32(256 << 10)
	if c.Msize != 0 {
		msize = c.Msize
	}
	r, f := newRig(c.Version, c.Native, msize)
	if f != nil {
		return f
	}
	defer r.close()
	what := fmt.Sprintf("%s (version %d, handle by %s)", c.Method, c.Version, c.Derive)
	kind, openFlags := needKind(c.Method)
	derive := c.Derive
	if derive == "create" {
		switch c.Method {
		case "ReadAt", "WriteAt", "FSync", "GetAttr", "SetAttr", "StatFS", "Lock", "GetXattr", "ListXattrs", "Close", "Rename", "Remove":
		default:
			derive = "walk"
		}
	}
	if (c.Method == "Rename" || c.Method == "Remove") && (derive == "attach") {
		derive = "walk" // a root has no name to rename or remove
	}
	// --- derive the receiver -------------------------------------------------
	root, err := r.cl.Attach("")
	if err != nil {
		return failf("harness-attach", "HARNESS-ERROR attach: %v", err)
	}
	// client files have finalizers that send Tclunk: keep every file alive
	// until the case is over so that no clunk lands in the middle of a call
	var keep []p9.File
	defer func() { runtime.KeepAlive(&keep) }()
	keep = append(keep, root)
	rootID := r.lastNew(0)
	var recv p9.File = root
	recvID := rootID
	parentID := 0
	curName := ""
	pushWalk := func(mode p9.FileMode) {
		op := "Walk"
		if c.Native {
			op = "WalkGetAttr"
		}
		r.mock.Push(op, &mockfs.Result{QIDs: []p9.QID{{Type: mode.QIDType(), Path: 77}}, Valid: p9.AttrMaskAll, Attr: p9.Attr{Mode: mode}, NewMode: mode})
		if !c.Native {
			r.mock.Push("GetAttr", &mockfs.Result{QID: p9.QID{Type: mode.QIDType(), Path: 77}, Valid: p9.AttrMaskAll, Attr: p9.Attr{Mode: mode}})
		}
	}
	switch derive {
	case "attach":
		if kind.IsDir() {
			break
		}
		fallthrough
	case "walk", "walkgetattr":
		from := r.mock.NCalls()
		pushWalk(kind)
		var nf p9.File
		if derive == "walkgetattr" {
			_, nf, _, _, err = root.WalkGetAttr([]string{"w0"})
		} else {
			_, nf, err = root.Walk([]string{"w0"})
		}
		if err != nil {
			return failf("harness-derive", "HARNESS-ERROR deriving by %s: %v", derive, err)
		}
		keep = append(keep, nf)
		recv, recvID, parentID, curName = nf, r.lastNew(from), rootID, "w0"
	case "attach-name":
		from := r.mock.NCalls()
		if !c.Native {
			// the attach itself calls GetAttr on the root first
			r.mock.Push("GetAttr", &mockfs.Result{QID: p9.QID{Type: p9.TypeDir, Path: 1}, Valid: p9.AttrMaskAll, Attr: p9.Attr{Mode: p9.ModeDirectory | 0o755}})
		}
		pushWalk(p9.ModeDirectory | 0o755)
		pushWalk(kind)
		nf, err := r.cl.Attach("a0/b0")
		if err != nil {
			return failf("harness-derive", "HARNESS-ERROR attach a0/b0: %v", err)
		}
		calls := r.mock.Calls(from)
		keep = append(keep, nf)
		recv, recvID, curName = nf, r.lastNew(from), "b0"
		for _, cl := range calls {
			if cl.New != 0 && cl.New != recvID {
				parentID = cl.New
			}
		}
	case "create":
		from := r.mock.NCalls()
		_, d, err := root.Walk(nil)
		if err != nil {
			return failf("harness-derive", "HARNESS-ERROR clone: %v", err)
		}
		cloneID := r.lastNew(from)
		keep = append(keep, d)
		from = r.mock.NCalls()
		if _, _, _, err := d.Create("c0", p9.ReadWrite, 0o644, 1, 2); err != nil {
			return failf("harness-derive", "HARNESS-ERROR create: %v", err)
		}
		recv, recvID, parentID, curName = d, r.lastNew(from), cloneID, "c0"
		openFlags = -1 // already open
	}
	if openFlags >= 0 {
		if _, _, err := recv.Open(p9.OpenFlags(openFlags)); err != nil {
			return failf("harness-open", "HARNESS-ERROR open: %v", err)
		}
	}
	// a second directory handle for Link / Rename / RenameAt targets
	from := r.mock.NCalls()
	pushWalk(p9.ModeDirectory | 0o755)
	_, other, err := root.Walk([]string{"other"})
	if err != nil {
		return failf("harness-derive", "HARNESS-ERROR walk other: %v", err)
	}
	otherID := r.lastNew(from)
	keep = append(keep, other)
	if len(c.PreRename) > 0 && parentID != 0 && derive == "walk" && (c.Method == "Rename" || c.Method == "Remove") {
		// the entry is renamed first: Rename/Remove must then use the new name
		if err := root.RenameAt(curName, root, string(c.PreRename)); err != nil {
			return failf("harness-prerename", "HARNESS-ERROR pre-rename: %v", err)
		}
		curName = string(c.PreRename)
	}

	// a second handle on the same entry, for the follow-up after a failed call
	var h2 p9.File
	h2ID := 0
	if c.Follow != "" && c.Err != nil && derive == "walk" {
		from := r.mock.NCalls()
		pushWalk(kind)
		_, nf, err := root.Walk([]string{curName})
		if err != nil {
			return failf("harness-derive", "HARNESS-ERROR second walk: %v", err)
		}
		h2, h2ID = nf, r.lastNew(from)
		keep = append(keep, nf)
	}
	// the receiver's fid as seen on the wire when it was bound
	for _, fr := range r.tap.since(0) {
		if !fr.T {
			continue
		}
		if m, err := refcodec.DecodeStrict(fr.Raw); err == nil {
			switch m.Type {
			case refcodec.Tattach:
				if derive == "attach" && recv == root || derive == "attach-name" {
					r.fidOf[recv] = m.U("fid")
				}
			case refcodec.Twalk, refcodec.Twalkgetattr:
				ns := m.Strs("wnames")
				if _, known := r.fidOf[recv]; !known && (derive == "walk" || derive == "walkgetattr" || derive == "attach") && len(ns) == 1 && ns[0] == "w0" {
					r.fidOf[recv] = m.U("newfid") // the first such walk bound the receiver (a later one the follow-up handle)
				}
				if derive == "create" && len(ns) == 0 {
					r.fidOf[recv] = m.U("newfid")
				}
			}
		}
	}

	// --- script the backend's answer -----------------------------------------
	var wantErr error
	var wantErrno uint32
	if c.Err != nil {
		wantErr = c.Err.build()
		wantErrno = c.Err.want()
	}
	res := &mockfs.Result{Err: wantErr, QID: qidP(c.RQID), Valid: maskP(c.RValid), Attr: attrP(c.RAttr), IOUnit: c.RIOUnit,
		N: int(c.RN), Data: c.RData, Str: string(c.RStr), Strs: strs(c.RStrs), Ents: entsP(c.REnts), Status: p9.LockStatus(c.RStatus),
		FSStat: p9.FSStat{Type: uint32(c.RStat[0]), BlockSize: uint32(c.RStat[1]), Blocks: c.RStat[2], BlocksFree: c.RStat[3],
			BlocksAvailable: c.RStat[4], Files: c.RStat[5], FilesFree: c.RStat[6], FSID: c.RStat[7], NameLength: uint32(c.RStat[8])}}
	for _, q := range c.RQIDs {
		res.QIDs = append(res.QIDs, qidP(q))
	}
	uidArg, gidArg := uint64(c.UID), uint64(c.GID)
	if c.Version < 3 {
		// documented rewrite: below version 3 uid and gid do not travel
		uidArg, gidArg = refcodec.NOUID, refcodec.NOUID
	}
	tmark, cmark := r.tap.mark(), r.mock.NCalls()
	fidRecv := uint64(0) // read from the frame

	type expT struct {
		typ uint8
		kv  []any
	}
	var wantT []expT
	var wantR []*refcodec.Msg // nil entry: not compared
	var wantRecs []mockfs.Rec
	var gotErr error
	var check func() *fail // compares return values
	same := func(what2 string, got, want any) *fail {
		if !reflect.DeepEqual(got, want) {
			return failf("return-value:"+c.Method, "%s: %s returned to the caller is %v, the backend returned %v", what, what2, got, want)
		}
		return nil
	}
	errReply := func() *refcodec.Msg { return refcodec.New(refcodec.Rlerror, 0, "ecode", wantErrno) }
	one := func(t uint8, rmsg *refcodec.Msg, rec mockfs.Rec, kv ...any) {
		wantT = []expT{{t, kv}}
		if c.Err != nil {
			rmsg = errReply()
		}
		wantR = []*refcodec.Msg{rmsg}
		rec.File = recvID
		wantRecs = []mockfs.Rec{rec}
	}
	name, name2 := string(c.Name), string(c.Name2)
	switch c.Method {
	case "StatFS":
		r.mock.Push("StatFS", res)
		one(refcodec.Tstatfs, refcodec.New(refcodec.Rstatfs, 0, "type", c.RStat[0]&0xffffffff, "bsize", c.RStat[1]&0xffffffff, "blocks", c.RStat[2],
			"bfree", c.RStat[3], "bavail", c.RStat[4], "files", c.RStat[5], "ffree", c.RStat[6], "fsid", c.RStat[7], "namelen", c.RStat[8]&0xffffffff),
			mockfs.Rec{Op: "StatFS"}, "fid", "$recv")
		got, err := recv.StatFS()
		gotErr = err
		check = func() *fail { return same("FSStat", got, res.FSStat) }
	case "GetAttr":
		r.mock.Push("GetAttr", res)
		one(refcodec.Tgetattr, refcodec.New(refcodec.Rgetattr, 0, "valid", uint64(c.RValid&0x3fff), "qid", qidR(res.QID), "attr", attrR(res.Attr)),
			mockfs.Rec{Op: "GetAttr", Mask: maskP(c.Mask)}, "fid", "$recv", "request_mask", uint64(c.Mask&0x3fff))
		q, v, a, err := recv.GetAttr(maskP(c.Mask))
		gotErr = err
		check = func() *fail {
			if f := same("QID", q, res.QID); f != nil {
				return f
			}
			if f := same("valid mask", v, res.Valid); f != nil {
				return f
			}
			return same("Attr", a, res.Attr)
		}
	case "SetAttr":
		r.mock.Push("SetAttr", res)
		sa := sattrP(c.SAttr)
		saSeen := sa
		saSeen.Permissions &= 0o7777 // documented rewrite
		one(refcodec.Tsetattr, refcodec.New(refcodec.Rsetattr, 0), mockfs.Rec{Op: "SetAttr", SMask: smaskP(c.SValid), SAttr: saSeen},
			"fid", "$recv", "valid", uint64(c.SValid&0x1ff), "mode", c.SAttr[0]&0xffffffff, "uid", c.SAttr[1]&0xffffffff, "gid", c.SAttr[2]&0xffffffff, "size", c.SAttr[3],
			"atime_sec", c.SAttr[4], "atime_nsec", c.SAttr[5], "mtime_sec", c.SAttr[6], "mtime_nsec", c.SAttr[7])
		gotErr = recv.SetAttr(smaskP(c.SValid), sa)
	case "Open":
		r.mock.Push("Open", res)
		one(refcodec.Tlopen, refcodec.New(refcodec.Rlopen, 0, "qid", qidR(res.QID), "iounit", c.RIOUnit), mockfs.Rec{Op: "Open", U: []uint64{uint64(c.Flags)}},
			"fid", "$recv", "flags", c.Flags)
		q, io, err := recv.Open(p9.OpenFlags(c.Flags))
		gotErr = err
		check = func() *fail {
			if f := same("QID", q, res.QID); f != nil {
				return f
			}
			return same("iounit", io, res.IOUnit)
		}
	case "ReadAt":
		if len(res.Data) > int(c.Count) {
			res.Data = res.Data[:c.Count]
		}
		r.mock.Push("ReadAt", res)
		one(refcodec.Tread, refcodec.New(refcodec.Rread, 0, "data", append([]byte{}, res.Data...)),
			mockfs.Rec{Op: "ReadAt", U: []uint64{c.Offset, uint64(c.Count)}}, "fid", "$recv", "offset", c.Offset, "count", c.Count)
		buf := make([]byte, c.Count)
		n, err := recv.ReadAt(buf, int64(c.Offset))
		gotErr = err
		if c.Err == nil && len(res.Data) == 0 && c.Count > 0 {
			// documented rewrite: an empty read is reported as io.EOF
			if !errors.Is(err, io.EOF) || n != 0 {
				return failf("empty-read-not-eof", "%s: the backend delivered 0 bytes, the caller got n=%d err=%v (want io.EOF)", what, n, err)
			}
			gotErr = nil
		}
		check = func() *fail { return same("data", append([]byte{}, buf[:n]...), append([]byte{}, res.Data...)) }
	case "WriteAt":
		if int(c.RN) > len(c.Data) {
			res.N = len(c.Data)
		}
		r.mock.Push("WriteAt", res)
		one(refcodec.Twrite, refcodec.New(refcodec.Rwrite, 0, "count", uint64(res.N)), mockfs.Rec{Op: "WriteAt", U: []uint64{c.Offset}, Data: append([]byte{}, c.Data...)},
			"fid", "$recv", "offset", c.Offset, "data", append([]byte{}, c.Data...))
		n, err := recv.WriteAt(c.Data, int64(c.Offset))
		gotErr = err
		if len(c.Data) == 0 {
			wantRecs[0].Data = []byte{}
		}
		check = func() *fail { return same("count", n, res.N) }
	case "FSync":
		r.mock.Push("FSync", res)
		one(refcodec.Tfsync, refcodec.New(refcodec.Rfsync, 0), mockfs.Rec{Op: "FSync"}, "fid", "$recv")
		gotErr = recv.FSync()
	case "Lock":
		r.mock.Push("Lock", res)
		one(refcodec.Tlock, refcodec.New(refcodec.Rlock, 0, "status", c.RStatus),
			mockfs.Rec{Op: "Lock", Name: name, U: []uint64{uint64(int64(c.PID)), uint64(c.LType), uint64(c.LFlags), c.Start, c.Length}},
			"fid", "$recv", "type", c.LType, "flags", c.LFlags, "start", c.Start, "length", c.Length, "proc_id", uint64(uint32(c.PID)), "client_id", name)
		s, err := recv.Lock(int(c.PID), p9.LockType(c.LType), p9.LockFlags(c.LFlags), c.Start, c.Length, name)
		gotErr = err
		check = func() *fail { return same("lock status", s, res.Status) }
	case "Create":
		r.mock.Push("Create", res)
		t, rt := uint8(refcodec.Tlcreate), uint8(refcodec.Rlcreate)
		kv := []any{"fid", "$recv", "name", name, "flags", c.Flags, "mode", uint64(c.Mode & 0o7777), "gid", gidArg}
		if c.Version >= 3 {
			t, rt = refcodec.Tucreate, refcodec.Rucreate
			kv = append(kv, "uid", uidArg)
		}
		one(t, refcodec.New(rt, 0, "qid", qidR(res.QID), "iounit", c.RIOUnit),
			mockfs.Rec{Op: "Create", Name: name, U: []uint64{uint64(c.Flags), uint64(c.Mode & 0o7777), uidArg, gidArg}}, kv...)
		nf, q, io, err := recv.Create(name, p9.OpenFlags(c.Flags), p9.FileMode(c.Mode), p9.UID(c.UID), p9.GID(c.GID))
		gotErr = err
		check = func() *fail {
			if nf != recv {
				return failf("return-value:Create", "%s: Create must return the receiver itself (now denoting the new file)", what)
			}
			if f := same("QID", q, res.QID); f != nil {
				return f
			}
			return same("iounit", io, res.IOUnit)
		}
	case "Mkdir":
		r.mock.Push("Mkdir", res)
		t, rt := uint8(refcodec.Tmkdir), uint8(refcodec.Rmkdir)
		kv := []any{"dfid", "$recv", "name", name, "mode", uint64(c.Mode & 0o7777), "gid", gidArg}
		if c.Version >= 3 {
			t, rt = refcodec.Tumkdir, refcodec.Rumkdir
			kv = append(kv, "uid", uidArg)
		}
		one(t, refcodec.New(rt, 0, "qid", qidR(res.QID)), mockfs.Rec{Op: "Mkdir", Name: name, U: []uint64{uint64(c.Mode & 0o7777), uidArg, gidArg}}, kv...)
		q, err := recv.Mkdir(name, p9.FileMode(c.Mode), p9.UID(c.UID), p9.GID(c.GID))
		gotErr = err
		check = func() *fail { return same("QID", q, res.QID) }
	case "Symlink":
		r.mock.Push("Symlink", res)
		t, rt := uint8(refcodec.Tsymlink), uint8(refcodec.Rsymlink)
		kv := []any{"dfid", "$recv", "name", name, "symtgt", name2, "gid", gidArg}
		if c.Version >= 3 {
			t, rt = refcodec.Tusymlink, refcodec.Rusymlink
			kv = append(kv, "uid", uidArg)
		}
		one(t, refcodec.New(rt, 0, "qid", qidR(res.QID)), mockfs.Rec{Op: "Symlink", Name: name, Name2: name2, U: []uint64{uidArg, gidArg}}, kv...)
		q, err := recv.Symlink(name2, name, p9.UID(c.UID), p9.GID(c.GID))
		gotErr = err
		check = func() *fail { return same("QID", q, res.QID) }
	case "Mknod":
		r.mock.Push("Mknod", res)
		t, rt := uint8(refcodec.Tmknod), uint8(refcodec.Rmknod)
		kv := []any{"dfid", "$recv", "name", name, "mode", c.Mode, "major", c.Major, "minor", c.Minor, "gid", gidArg}
		if c.Version >= 3 {
			t, rt = refcodec.Tumknod, refcodec.Rumknod
			kv = append(kv, "uid", uidArg)
		}
		one(t, refcodec.New(rt, 0, "qid", qidR(res.QID)),
			mockfs.Rec{Op: "Mknod", Name: name, U: []uint64{uint64(c.Mode), uint64(c.Major), uint64(c.Minor), uidArg, gidArg}}, kv...)
		q, err := recv.Mknod(name, p9.FileMode(c.Mode), c.Major, c.Minor, p9.UID(c.UID), p9.GID(c.GID))
		gotErr = err
		check = func() *fail { return same("QID", q, res.QID) }
	case "Link":
		r.mock.Push("Link", res)
		one(refcodec.Tlink, refcodec.New(refcodec.Rlink, 0), mockfs.Rec{Op: "Link", Name: name, Other: otherID}, "dfid", "$recv", "fid", "$other", "name", name)
		gotErr = recv.Link(other, name)
	case "RenameAt":
		r.mock.Push("RenameAt", res)
		one(refcodec.Trenameat, refcodec.New(refcodec.Rrenameat, 0), mockfs.Rec{Op: "RenameAt", Name: name, Name2: name2, Other: otherID},
			"olddirfid", "$recv", "oldname", name, "newdirfid", "$other", "newname", name2)
		gotErr = recv.RenameAt(name, other, name2)
	case "UnlinkAt":
		r.mock.Push("UnlinkAt", res)
		one(refcodec.Tunlinkat, refcodec.New(refcodec.Runlinkat, 0), mockfs.Rec{Op: "UnlinkAt", Name: name, U: []uint64{uint64(c.Flags)}},
			"dirfid", "$recv", "name", name, "flags", c.Flags)
		gotErr = recv.UnlinkAt(name, c.Flags)
	case "Rename":
		// arrives as RenameAt on the parent directory under the entry's current name
		r.mock.Push("RenameAt", res)
		one(refcodec.Trename, refcodec.New(refcodec.Rrename, 0), mockfs.Rec{Op: "RenameAt", Name: curName, Name2: name, Other: otherID},
			"fid", "$recv", "dfid", "$other", "name", name)
		wantRecs[0].File = parentID
		gotErr = recv.Rename(other, name)
	case "Remove":
		r.mock.Push("UnlinkAt", res)
		one(refcodec.Tremove, refcodec.New(refcodec.Rremove, 0), mockfs.Rec{Op: "UnlinkAt", Name: curName, U: []uint64{0}}, "fid", "$recv")
		wantRecs[0].File = parentID
		gotErr = recv.(interface{ Remove() error }).Remove()
	case "Readlink":
		r.mock.Push("Readlink", res)
		one(refcodec.Treadlink, refcodec.New(refcodec.Rreadlink, 0, "target", string(c.RStr)), mockfs.Rec{Op: "Readlink"}, "fid", "$recv")
		s, err := recv.Readlink()
		gotErr = err
		check = func() *fail { return same("target", s, string(c.RStr)) }
	case "Readdir":
		r.mock.Push("Readdir", res)
		cut := refcodec.CutDirents(entsR(res.Ents), uint64(c.Count)) // documented rewrite
		if cut == nil {
			cut = []refcodec.Dirent{}
		}
		one(refcodec.Treaddir, refcodec.New(refcodec.Rreaddir, 0, "entries", cut), mockfs.Rec{Op: "Readdir", U: []uint64{c.Offset, uint64(c.Count)}},
			"fid", "$recv", "offset", c.Offset, "count", c.Count)
		ents, err := recv.Readdir(c.Offset, c.Count)
		gotErr = err
		check = func() *fail {
			return same("entries", fmt.Sprint(entsR(ents)), fmt.Sprint(cut))
		}
	case "Close":
		one(refcodec.Tclunk, refcodec.New(refcodec.Rclunk, 0), mockfs.Rec{Op: "Close"}, "fid", "$recv")
		c.Err = nil
		wantErr = nil
		wantR = []*refcodec.Msg{refcodec.New(refcodec.Rclunk, 0)}
		gotErr = recv.Close()
		wantRecs = nil // which Files get closed is the lifecycle property's business (C05)
	case "SetXattr", "RemoveXattr":
		// fail locally with ENOSYS and send nothing
		if c.Method == "SetXattr" {
			gotErr = recv.SetXattr(name, c.Data, p9.XattrFlags(c.Flags))
		} else {
			gotErr = recv.RemoveXattr(name)
		}
		if !errors.Is(gotErr, linux.ENOSYS) {
			return failf("xattr-local-enosys", "%s returned %v, want ENOSYS", what, gotErr)
		}
		if n := len(r.tap.since(tmark)); n != 0 {
			return failf("xattr-local-sent-frames", "%s sent %d frame(s); it must fail locally", what, n)
		}
		if st != nil {
			st.nonDefault = true
		}
		return nil
	case "Renamed":
		recv.Renamed(other, name)
		if n := len(r.tap.since(tmark)); n != 0 {
			return failf("renamed-sent-frames", "Renamed on a client file sent %d frame(s)", n)
		}
		return nil
	case "Walk", "WalkGetAttr":
		return r.walkCall(c, recv, recvID, what, st)
	case "GetXattr", "ListXattrs":
		return r.xattrCall(c, recv, recvID, what, wantErr, wantErrno, st)
	default:
		return failf("harness-method", "HARNESS-ERROR unknown method %s", c.Method)
	}

	// --- compare ---------------------------------------------------------------
	frames := r.tap.since(tmark)
	recs := r.mock.Calls(cmark)
	if st != nil {
		st.reachedBackend = len(recs) > 0
		st.nonDefault = c.Err != nil || len(recs) > 0
	}
	var ts, rs []tapFrame
	for _, fr := range frames {
		if fr.T {
			ts = append(ts, fr)
		} else {
			rs = append(rs, fr)
		}
	}
	if len(ts) != len(wantT) || len(rs) != len(wantR) {
		return failf("frame-count:"+c.Method, "%s: %d request and %d reply frames on the wire, expected %d and %d", what, len(ts), len(rs), len(wantT), len(wantR))
	}
	for i, wt := range wantT {
		got, err := frameOf(ts[i])
		if err != nil {
			return failf("wire:T-undecodable:"+c.Method, "%s: the client wrote a frame the reference codec rejects (%v): %x", what, err, ts[i].Raw)
		}
		if uint64(refcodec.MinVersion(got.Type)) > uint64(c.Version) {
			return failf("message-type-above-version", "%s: negotiated version %d, the client sent %s", what, c.Version, refcodec.Name(got.Type))
		}
		kv := append([]any{}, wt.kv...)
		for j := 1; j < len(kv); j += 2 {
			switch kv[j] {
			case "$recv":
				v := got.U(kv[j-1].(string))
				if known, ok := r.fidOf[recv]; ok && known != v {
					return failf("wrong-fid:"+c.Method, "%s: request names fid %d, the receiver is fid %d", what, v, known)
				}
				fidRecv = v
				kv[j] = v
			case "$other":
				v := got.U(kv[j-1].(string))
				kv[j] = v
			}
		}
		want := refcodec.New(wt.typ, got.Tag, kv...)
		if !bytes.Equal(refcodec.Encode(want), ts[i].Raw) {
			return failf("wire:T-layout:"+refcodec.Name(wt.typ), "%s: the client wrote %x (%s), 9P2000.L lays the call's arguments out as %x (%s)", what, ts[i].Raw, got, refcodec.Encode(want), want)
		}
		if got.Tag == refcodec.NOTAG {
			return failf("client-used-notag", "%s: request sent with NOTAG", what)
		}
	}
	_ = fidRecv
	for i, wr := range wantR {
		if wr == nil {
			continue
		}
		wr.Tag = uint16(rs[i].Raw[5]) | uint16(rs[i].Raw[6])<<8
		if !bytes.Equal(refcodec.Encode(wr), rs[i].Raw) {
			got, _ := refcodec.DecodePrefix(rs[i].Raw)
			sig := "wire:R-layout:" + refcodec.Name(wr.Type)
			if wr.Type == refcodec.Rlerror && got != nil && got.Type == refcodec.Rlerror {
				sig = fmt.Sprintf("errno-mapping:%s:%d->%d", c.Err.Style, wantErrno, got.U("ecode"))
			}
			return failf(sig, "%s: the server wrote %x (%v), expected %x (%s)", what, rs[i].Raw, got, refcodec.Encode(wr), wr)
		}
	}
	if wantRecs != nil {
		var got []mockfs.Rec
		for _, rc := range recs {
			if rc.Op == "Renamed" {
				continue // notification to the moved Files
			}
			if rc.Op != "Close" || c.Method == "Close" {
				got = append(got, rc)
			}
		}
		if len(got) != len(wantRecs) {
			return failf("backend-calls:"+c.Method, "%s: backend saw %v, expected %v", what, got, wantRecs)
		}
		for i := range got {
			g, w := got[i], wantRecs[i]
			g.New = 0
			if g.Data == nil && w.Data != nil && len(w.Data) == 0 {
				g.Data = []byte{}
			}
			if !reflect.DeepEqual(g, w) {
				return failf("backend-args:"+c.Method, "%s: backend saw %+v, the caller passed %+v", what, g, w)
			}
		}
	}
	// errors come back as the equivalent Linux errno
	if c.Err != nil {
		if gotErr == nil {
			return failf("backend-error-swallowed:"+c.Method, "%s: the backend failed with a %s error (errno %d), the caller got success", what, c.Err.Style, wantErrno)
		}
		if !errors.Is(gotErr, linux.Errno(wantErrno)) {
			return failf(fmt.Sprintf("errno-mapping:%s:%d", c.Err.Style, wantErrno), "%s: the backend failed with a %s error carrying errno %d, the caller got %v", what, c.Err.Style, wantErrno, gotErr)
		}
		if c.Follow != "" && c.Method == "Open" {
			// the failed Open changed nothing: the same call on the same handle
			// reaches the File again and returns what it returns now
			cm := r.mock.NCalls()
			ok := &mockfs.Result{QID: res.QID, IOUnit: res.IOUnit}
			r.mock.Push("Open", ok)
			_, _, ferr := recv.Open(p9.OpenFlags(c.Flags))
			reached := false
			for _, rc := range r.mock.Calls(cm) {
				if rc.Op == "Open" && rc.File == recvID {
					reached = true
				}
			}
			if ferr != nil || !reached {
				return failf("handle-broken-by-failed-call:Open:retry", "%s failed in the backend (errno %d); the same Open repeated on the same handle returned %v and %s the backend File", what, wantErrno, ferr, map[bool]string{true: "reached", false: "did not reach"}[reached])
			}
		}
		if h2 != nil && c.Method != "Close" {
			// the failed call changed nothing: another handle on the same entry still
			// reaches the File it denotes
			cm := r.mock.NCalls()
			var ferr error
			op := "SetAttr"
			switch c.Follow {
			case "open":
				if kind.IsSymlink() {
					_, ferr = h2.Readlink()
					op = "Readlink"
				} else {
					_, _, ferr = h2.Open(p9.ReadOnly)
					op = "Open"
				}
			case "getattr":
				_, _, _, ferr = h2.GetAttr(p9.AttrMaskAll)
				op = "GetAttr"
			default:
				ferr = h2.SetAttr(p9.SetAttrMask{Size: true}, p9.SetAttr{Size: 3})
			}
			reached := false
			for _, rc := range r.mock.Calls(cm) {
				if rc.Op == op && rc.File == h2ID {
					reached = true
				}
			}
			if ferr != nil || !reached {
				return failf("handle-broken-by-failed-call:"+c.Method, "%s failed in the backend (errno %d); afterwards %s through another handle on the same entry returned %v and %s the backend File", what, wantErrno, op, ferr, map[bool]string{true: "reached", false: "did not reach"}[reached])
			}
		}
		return nil
	}
	if gotErr != nil {
		return failf("unexpected-error:"+c.Method, "%s: the backend succeeded, the caller got %v", what, gotErr)
	}
	if check != nil {
		return check()
	}
	return nil
}

// walkCall: a Walk / WalkGetAttr of n names is n single-component steps.
func (r *rig) walkCall(c callCase, recv p9.File, recvID int, what string, st *callStats) *fail {
	names := strs(c.Names)
	useGA := c.Method == "WalkGetAttr"
	if c.Err != nil && c.Err.want() == 38 {
		// ENOSYS from WalkGetAttr is the documented request to fall back to
		// Walk + GetAttr, not a failure: inject another errno
		e := *c.Err
		e.Errno = 95
		c.Err = &e
	}
	// script one step per name; intermediates must be directories
	var qids []p9.QID
	lastAttr := attrP(c.RAttr)
	failAt := -1
	if c.Err != nil && len(names) > 0 {
		failAt = int(c.RN) % len(names)
	}
	for i := range names {
		q := p9.QID{Type: p9.TypeDir, Version: uint32(i), Path: uint64(1000 + i)}
		if i < len(c.RQIDs) {
			q = qidP(c.RQIDs[i])
		}
		mode := p9.ModeDirectory | 0o755
		attr := p9.Attr{Mode: mode}
		if i == len(names)-1 {
			attr = lastAttr
			attr.Mode = p9.ModeRegular | p9.FileMode(c.RAttr[0]&0o7777)
			mode = attr.Mode
		}
		op := "Walk"
		if c.Native {
			op = "WalkGetAttr"
		}
		if i == failAt {
			r.mock.Push(op, &mockfs.Result{Err: c.Err.build()})
			break
		}
		qids = append(qids, q)
		r.mock.Push(op, &mockfs.Result{QIDs: []p9.QID{q}, Valid: p9.AttrMaskAll, Attr: attr, NewMode: mode})
		if !c.Native {
			r.mock.Push("GetAttr", &mockfs.Result{QID: q, Valid: p9.AttrMaskAll, Attr: attr})
		}
	}
	if useGA && c.Version < 2 && len(names) > 0 && failAt < 0 {
		// below version 2 the client itself issues Twalk + Tgetattr
		a := lastAttr
		a.Mode = p9.ModeRegular | p9.FileMode(c.RAttr[0]&0o7777)
		r.mock.Push("GetAttr", &mockfs.Result{QID: qids[len(qids)-1], Valid: p9.AttrMaskAll, Attr: a})
	}
	if len(names) == 0 {
		if c.Native && useGA && c.Version >= 2 {
			r.mock.Push("WalkGetAttr", &mockfs.Result{Valid: p9.AttrMaskAll, Attr: lastAttr, NewMode: p9.ModeDirectory | 0o755})
		} else if useGA {
			// clone + GetAttr on the clone
			r.mock.Push("GetAttr", &mockfs.Result{QID: p9.QID{Path: 5}, Valid: p9.AttrMaskAll, Attr: lastAttr})
		}
	}
	tmark, cmark := r.tap.mark(), r.mock.NCalls()
	var gotQ []p9.QID
	var nf p9.File
	var gotAttr p9.Attr
	var gotValid p9.AttrMask
	var err error
	if useGA {
		gotQ, nf, gotValid, gotAttr, err = recv.WalkGetAttr(names)
	} else {
		gotQ, nf, err = recv.Walk(names)
	}
	recs := r.mock.Calls(cmark)
	frames := r.tap.since(tmark)
	defer runtime.KeepAlive(nf)
	if st != nil {
		st.reachedBackend = len(recs) > 0
		st.nonDefault = len(names) > 0
	}
	// every backend walk has exactly one component, in order, each on the File
	// produced by the previous step
	step := 0
	cur := recvID
	for _, rc := range recs {
		switch rc.Op {
		case "Walk", "WalkGetAttr":
			if len(names) == 0 {
				if len(rc.Names) != 0 || rc.File != recvID {
					return failf("backend-args:"+c.Method, "%s: clone arrived as %+v", what, rc)
				}
				continue
			}
			if step >= len(names) || len(rc.Names) != 1 || rc.Names[0] != names[step] || rc.File != cur {
				return failf("backend-args:"+c.Method, "%s %q: step %d arrived as %+v (expected one component %q on File %d)", what, names, step, rc, names[min(step, len(names)-1)], cur)
			}
			step++
			if rc.New != 0 {
				cur = rc.New
			}
		}
	}
	wantSteps := len(names)
	if failAt >= 0 {
		wantSteps = failAt + 1
	}
	if len(names) > 0 && step != wantSteps {
		return failf("backend-calls:"+c.Method, "%s %q: backend saw %d walk steps, expected %d", what, names, step, wantSteps)
	}
	// frames: version >= 2 uses Twalkgetattr for WalkGetAttr, else Twalk (+ Tgetattr)
	for _, fr := range frames {
		m, derr := refcodec.DecodeStrict(fr.Raw)
		if derr != nil {
			return failf("wire:undecodable:"+c.Method, "%s: frame %x rejected by the reference codec: %v", what, fr.Raw, derr)
		}
		if fr.T && uint64(refcodec.MinVersion(m.Type)) > uint64(c.Version) {
			return failf("message-type-above-version", "%s: negotiated version %d, the client sent %s", what, c.Version, refcodec.Name(m.Type))
		}
		if fr.T && (m.Type == refcodec.Twalk || m.Type == refcodec.Twalkgetattr) {
			want := refcodec.New(m.Type, m.Tag, "fid", m.U("fid"), "newfid", m.U("newfid"), "wnames", names)
			if !bytes.Equal(refcodec.Encode(want), fr.Raw) {
				return failf("wire:T-layout:"+refcodec.Name(m.Type), "%s: the client wrote %x, expected %x", what, fr.Raw, refcodec.Encode(want))
			}
		}
		if !fr.T && failAt < 0 && (m.Type == refcodec.Rwalk || m.Type == refcodec.Rwalkgetattr) {
			qs := []refcodec.QID{}
			for _, q := range qids {
				qs = append(qs, qidR(q))
			}
			var want *refcodec.Msg
			if m.Type == refcodec.Rwalk {
				want = refcodec.New(refcodec.Rwalk, m.Tag, "wqids", qs)
			} else {
				a := lastAttr
				if len(names) > 0 {
					a.Mode = p9.ModeRegular | p9.FileMode(c.RAttr[0]&0o7777)
				}
				want = refcodec.New(refcodec.Rwalkgetattr, m.Tag, "valid", uint64(0x3fff), "attr", attrR(a), "wqids", qs)
			}
			if !bytes.Equal(refcodec.Encode(want), fr.Raw) {
				return failf("wire:R-layout:"+refcodec.Name(m.Type), "%s: the server wrote %x (%s), expected %x (%s)", what, fr.Raw, m, refcodec.Encode(want), want)
			}
		}
	}
	if failAt >= 0 {
		if err == nil || !errors.Is(err, linux.Errno(c.Err.want())) {
			return failf(fmt.Sprintf("errno-mapping:%s:%d", c.Err.Style, c.Err.want()), "%s %q: the backend failed at step %d with errno %d, the caller got %v", what, names, failAt, c.Err.want(), err)
		}
		return nil
	}
	if err != nil {
		return failf("unexpected-error:"+c.Method, "%s %q: %v", what, names, err)
	}
	if nf == nil {
		return failf("return-value:"+c.Method, "%s: no file returned", what)
	}
	if len(gotQ) != len(qids) {
		return failf("return-value:"+c.Method, "%s %q: %d QIDs returned, the backend produced %d", what, names, len(gotQ), len(qids))
	}
	for i := range qids {
		if gotQ[i] != qids[i] {
			return failf("return-value:"+c.Method, "%s %q: QID %d is %v, the backend returned %v", what, names, i, gotQ[i], qids[i])
		}
	}
	if useGA {
		a := lastAttr
		if len(names) > 0 {
			a.Mode = p9.ModeRegular | p9.FileMode(c.RAttr[0]&0o7777)
		}
		if gotAttr != a || gotValid != p9.AttrMaskAll {
			return failf("return-value:"+c.Method, "%s %q: attributes %v (valid %v), the backend returned %v", what, names, gotAttr, gotValid, a)
		}
	}
	return nil
}

// xattrCall: GetXattr / ListXattrs = xattrwalk + reads + clunk.
func (r *rig) xattrCall(c callCase, recv p9.File, recvID int, what string, wantErr error, wantErrno uint32, st *callStats) *fail {
	name := string(c.Name)
	if c.Method == "GetXattr" {
		if name == "" {
			name = "user.x"
		}
		r.mock.Push("GetXattr", &mockfs.Result{Err: wantErr, Data: c.RData})
	} else {
		r.mock.Push("ListXattrs", &mockfs.Result{Err: wantErr, Strs: strs(c.RStrs)})
	}
	tmark, cmark := r.tap.mark(), r.mock.NCalls()
	var gotData []byte
	var gotList []string
	var err error
	if c.Method == "GetXattr" {
		gotData, err = recv.GetXattr(name)
	} else {
		gotList, err = recv.ListXattrs()
	}
	recs := r.mock.Calls(cmark)
	if st != nil {
		st.reachedBackend = len(recs) > 0
		st.nonDefault = true
	}
	for _, fr := range r.tap.since(tmark) {
		m, derr := refcodec.DecodeStrict(fr.Raw)
		if derr != nil {
			return failf("wire:undecodable:"+c.Method, "%s: frame %x rejected by the reference codec: %v", what, fr.Raw, derr)
		}
		if fr.T {
			switch m.Type {
			case refcodec.Txattrwalk, refcodec.Tread, refcodec.Tclunk:
			default:
				return failf("unexpected-message:"+c.Method, "%s sent %s", what, m)
			}
			if m.Type == refcodec.Txattrwalk {
				wn := name
				if c.Method == "ListXattrs" {
					wn = ""
				}
				want := refcodec.New(refcodec.Txattrwalk, m.Tag, "fid", m.U("fid"), "newfid", m.U("newfid"), "name", wn)
				if !bytes.Equal(refcodec.Encode(want), fr.Raw) {
					return failf("wire:T-layout:Txattrwalk", "%s: the client wrote %x, expected %x", what, fr.Raw, refcodec.Encode(want))
				}
			}
		}
	}
	found := false
	for _, rc := range recs {
		if rc.Op == c.Method {
			found = true
			if rc.File != recvID || (c.Method == "GetXattr" && rc.Name != name) {
				return failf("backend-args:"+c.Method, "%s: backend saw %+v", what, rc)
			}
		}
	}
	if !found {
		return failf("backend-calls:"+c.Method, "%s never reached the backend: %v", what, recs)
	}
	if c.Err != nil {
		if err == nil || !errors.Is(err, linux.Errno(wantErrno)) {
			return failf(fmt.Sprintf("errno-mapping:%s:%d", c.Err.Style, wantErrno), "%s: the backend failed with errno %d, the caller got %v", what, wantErrno, err)
		}
		return nil
	}
	if err != nil {
		return failf("unexpected-error:"+c.Method, "%s: %v", what, err)
	}
	if c.Method == "GetXattr" {
		if !bytes.Equal(gotData, c.RData) {
			return failf("return-value:GetXattr", "%s: value %q, the backend returned %q", what, gotData, c.RData)
		}
		return nil
	}
	want := []string{}
	for _, s := range strs(c.RStrs) {
		if s != "" {
			want = append(want, s)
		}
	}
	if fmt.Sprint(gotList) != fmt.Sprint(want) && !(len(gotList) == 0 && len(want) == 0) {
		return failf("return-value:ListXattrs", "%s: names %q, the backend returned %q", what, gotList, want)
	}
	return nil
}

// --- generators -----------------------------------------------------------------

func genU32(rt *rapid.T, l string) uint32 {
	switch rapid.IntRange(0, 5).Draw(rt, l+"k") {
	case 0:
		return rapid.SampledFrom([]uint32{0, 1, 0x7fffffff, 0x80000000, 0xfffffffe, 0xffffffff}).Draw(rt, l)
	case 1:
		return rapid.Uint32Range(0, 300).Draw(rt, l)
	default:
		return rapid.Uint32().Draw(rt, l)
	}
}

func genU64(rt *rapid.T, l string) uint64 {
	switch rapid.IntRange(0, 5).Draw(rt, l+"k") {
	case 0:
		return rapid.SampledFrom([]uint64{0, 1, 0xffffffff, 0x100000000, 1<<63 - 1, 1 << 63, ^uint64(0) - 1, ^uint64(0)}).Draw(rt, l)
	case 1:
		return rapid.Uint64Range(0, 70000).Draw(rt, l)
	default:
		return rapid.Uint64().Draw(rt, l)
	}
}

// genSafeName: a safe path component of arbitrary bytes (no '/', not "", ".", "..").
func genSafeName(rt *rapid.T, l string) []byte {
	var b []byte
	switch rapid.IntRange(0, 9).Draw(rt, l+"k") {
	case 0:
		n := rapid.SampledFrom([]int{255, 256, 4000, 32767, 32768, 65535}).Draw(rt, l+"len")
		b = bytes.Repeat([]byte{'L'}, n)
		b[n/2] = rapid.Byte().Draw(rt, l+"mid")
	case 1, 2:
		b = rapid.SliceOfN(rapid.Byte(), 1, 12).Draw(rt, l)
	case 3:
		b = []byte(rapid.SampledFrom([]string{"...", "..a", " ", "a\x00b", "\x00", "\xff\xfe", "-", "é", "a b", "\t"}).Draw(rt, l))
	default:
		b = []byte(rapid.StringMatching(`[a-zA-Z0-9_.-]{1,12}`).Draw(rt, l))
	}
	for i := range b {
		if b[i] == '/' {
			b[i] = '_'
		}
	}
	if s := string(b); s == "" || s == "." || s == ".." {
		b = []byte("n")
	}
	return b
}

func genAnyString(rt *rapid.T, l string) []byte {
	switch rapid.IntRange(0, 6).Draw(rt, l+"k") {
	case 0:
		return []byte{}
	case 1:
		n := rapid.SampledFrom([]int{255, 256, 32767, 32768, 65535}).Draw(rt, l+"len")
		return bytes.Repeat([]byte{'/', 'x'}, n/2+1)[:n]
	case 2:
		return rapid.SliceOfN(rapid.Byte(), 0, 20).Draw(rt, l)
	default:
		return []byte(rapid.SampledFrom([]string{"target", "../../etc", "/abs/path", "a/b", ".", "..", "x\x00y"}).Draw(rt, l))
	}
}

func genQID3(rt *rapid.T, l string) [3]uint64 {
	return [3]uint64{uint64(rapid.Byte().Draw(rt, l+"t")), uint64(genU32(rt, l+"v")), genU64(rt, l+"p")}
}

var callMethods = []string{"StatFS", "GetAttr", "SetAttr", "Open", "ReadAt", "WriteAt", "FSync", "Lock", "Create", "Mkdir", "Symlink", "Mknod",
	"Link", "RenameAt", "UnlinkAt", "Rename", "Remove", "Readlink", "Readdir", "Close", "SetXattr", "RemoveXattr", "Renamed", "Walk", "WalkGetAttr",
	"GetXattr", "ListXattrs"}

func genCallCase(rt *rapid.T) callCase {
	c := callCase{Version: uint32(rapid.IntRange(0, 7).Draw(rt, "version")), Native: rapid.Bool().Draw(rt, "native"),
		Derive: rapid.SampledFrom([]string{"attach", "attach-name", "walk", "walkgetattr", "create"}).Draw(rt, "derive"),
		Method: rapid.SampledFrom(callMethods).Draw(rt, "method")}
	if rapid.IntRange(0, 3).Draw(rt, "fail") == 0 {
		e := genErrSpec(rt)
		c.Err = &e
	}
	if c.Err != nil && rapid.Bool().Draw(rt, "followup") {
		c.Follow = rapid.SampledFrom([]string{"setattr", "open", "getattr"}).Draw(rt, "follow")
		if rapid.Bool().Draw(rt, "fw") {
			c.Derive = "walk"
		}
	}
	c.Name, c.Name2 = genSafeName(rt, "name"), genSafeName(rt, "name2")
	c.Flags, c.Mode, c.UID, c.GID = genU32(rt, "flags"), genU32(rt, "mode"), genU32(rt, "uid"), genU32(rt, "gid")
	c.Major, c.Minor = genU32(rt, "major"), genU32(rt, "minor")
	c.Offset = genU64(rt, "offset")
	c.RQID = genQID3(rt, "rqid")
	c.RIOUnit = genU32(rt, "iounit")
	switch c.Method {
	case "Open":
		// flags whose mode makes sense for the receiver (a directory opens read-only)
		c.Flags &^= 3
	case "Symlink":
		c.Name2 = genAnyString(rt, "target")
	case "Mknod":
		c.Mode = uint32(rapid.SampledFrom([]int{0o010000, 0o020000, 0o060000, 0o100000, 0o140000}).Draw(rt, "ntype")) | (c.Mode & 0o7777)
		if rapid.Bool().Draw(rt, "rawmode") {
			c.Mode = genU32(rt, "mode2")
		}
	case "ReadAt":
		c.Count = uint32(rapid.SampledFrom([]int{0, 1, 2, 100, 4096, 8192, 30000}).Draw(rt, "count"))
		n := rapid.IntRange(0, int(c.Count)).Draw(rt, "rn")
		if rapid.Bool().Draw(rt, "full") {
			n = int(c.Count)
		}
		c.RData = rapid.SliceOfN(rapid.Byte(), n, n).Draw(rt, "rdata")
		if c.Offset > 1<<62 {
			c.Offset = 1<<62 + c.Offset%1000
		}
	case "WriteAt":
		n := rapid.SampledFrom([]int{0, 1, 2, 100, 4096, 30000}).Draw(rt, "wn")
		c.Data = rapid.SliceOfN(rapid.Byte(), n, n).Draw(rt, "data")
		c.RN = uint32(n)
		if c.Offset > 1<<62 {
			c.Offset = 1<<62 + c.Offset%1000
		}
	case "GetAttr":
		c.Mask = uint16(rapid.IntRange(0, 0x3fff).Draw(rt, "mask"))
		c.RValid = uint16(rapid.IntRange(0, 0x3fff).Draw(rt, "rvalid"))
		for i := range c.RAttr {
			c.RAttr[i] = genU64(rt, "attr")
			if i < 3 {
				c.RAttr[i] &= 0xffffffff
			}
		}
	case "SetAttr":
		c.SValid = uint16(rapid.IntRange(0, 0x1ff).Draw(rt, "svalid"))
		for i := range c.SAttr {
			c.SAttr[i] = genU64(rt, "sattr")
			if i < 3 {
				c.SAttr[i] &= 0xffffffff
			}
		}
	case "StatFS":
		for i := range c.RStat {
			c.RStat[i] = genU64(rt, "stat")
		}
		c.RStat[0] &= 0xffffffff
		c.RStat[1] &= 0xffffffff
		c.RStat[8] &= 0xffffffff
	case "Lock":
		c.PID = int32(genU32(rt, "pid"))
		c.LType = rapid.Byte().Draw(rt, "ltype")
		c.LFlags = genU32(rt, "lflags")
		c.Start, c.Length = genU64(rt, "start"), genU64(rt, "length")
		c.Name = genAnyString(rt, "client")
		c.RStatus = rapid.Byte().Draw(rt, "status")
	case "Readlink":
		c.RStr = genAnyString(rt, "rtarget")
	case "Readdir":
		n := rapid.IntRange(0, 12).Draw(rt, "nents")
		for i := 0; i < n; i++ {
			c.REnts = append(c.REnts, entSpec{QID: genQID3(rt, "eq"), Offset: genU64(rt, "eo"), Type: rapid.Byte().Draw(rt, "et"), Name: genSafeName(rt, "en")})
		}
		c.Count = uint32(rapid.SampledFrom([]int{0, 24, 25, 30, 100, 1000, 60000}).Draw(rt, "count"))
		c.Offset = genU64(rt, "roff")
	case "Walk", "WalkGetAttr":
		n := rapid.SampledFrom([]int{0, 1, 1, 2, 3, 16, 17, 40}).Draw(rt, "nw")
		for i := 0; i < n; i++ {
			nm := genSafeName(rt, "wn")
			if len(nm) > 300 && i > 0 {
				nm = nm[:300]
			}
			if len(nm) > 40000 {
				nm = nm[:40000]
			}
			c.Names = append(c.Names, nm)
			c.RQIDs = append(c.RQIDs, genQID3(rt, "wq"))
		}
		for i := range c.RAttr {
			c.RAttr[i] = genU64(rt, "attr")
			if i < 3 {
				c.RAttr[i] &= 0xffffffff
			}
		}
		c.RN = genU32(rt, "failat")
		if n == 0 {
			c.Err = nil
		}
	case "GetXattr":
		// values larger than one message payload are read back in several Treads
		c.Msize = uint32(rapid.SampledFrom([]int{0, 0, 4096, 8192}).Draw(rt, "xmsize"))
		n := rapid.SampledFrom([]int{0, 1, 5, 100, 5000, 4085, 4086, 8181, 8182, 20000}).Draw(rt, "xn")
		c.RData = rapid.SliceOfN(rapid.Byte(), n, n).Draw(rt, "xdata")
		c.Name = []byte(rapid.SampledFrom([]string{"user.a", "security.selinux", "x"}).Draw(rt, "xname"))
	case "ListXattrs":
		n := rapid.IntRange(0, 5).Draw(rt, "xl")
		c.Msize = uint32(rapid.SampledFrom([]int{0, 0, 4096}).Draw(rt, "xmsize"))
		if c.Msize != 0 && rapid.Bool().Draw(rt, "xlong") {
			n = rapid.IntRange(400, 1200).Draw(rt, "xl2") // a name list longer than one payload
		}
		for i := 0; i < n; i++ {
			c.RStrs = append(c.RStrs, []byte(rapid.StringMatching(`[a-z.]{1,10}`).Draw(rt, "xs")))
		}
	case "Rename", "Remove":
		if rapid.Bool().Draw(rt, "prerename") {
			c.PreRename = genSafeName(rt, "pre")
			if len(c.PreRename) > 200 {
				c.PreRename = c.PreRename[:200]
			}
		}
	}
	return c
}

func init() {
	replayRegistrars = append(replayRegistrars, func() {
		registerReplay("C03/calls", func(c callCase) *fail { return runCallCase(c, nil) })
		registerReplay("C03/concurrent-reads", runConcReadCase)
		registerReplay("C03/close-bind-race", runCloseBindRaceCase)
		registerReplay("C01/client-server", func(c callCase) *fail { return runCallCase(c, nil) })
	})
}

func callHash(c callCase) uint64 { return evid.HashJSON(c) }

func TestC03(t *testing.T) {
	h := begin(t, "C03")
	defer h.Finish()
	env := h.Env
	// a handle bound while the Close of another one is in flight
	for rep := 0; rep < env.Pick(32, 640)/env.NShards+1; rep++ {
		c := closeBindRaceCase{Native: rep%2 == 0}
		for i := 0; i < 6; i++ {
			c.Binds = append(c.Binds, []string{"walk", "walkgetattr", "attach"}[(i+rep+env.Shard)%3])
		}
		f := runCloseBindRaceCase(c)
		h.Case(evid.HashJSON(c)+uint64(rep*64+env.Shard), true, "close-bind-race")
		if f != nil && strings.HasPrefix(f.Sig, "harness-") {
			t.Errorf("HARNESS-ERROR %s", f.Msg)
			continue
		}
		if h.report("close-bind-race", f, c) {
			return
		}
	}
	// two reads in flight on one connection after reads that ended at the end of
	// the file (the backend returns data together with io.EOF): each caller gets
	// the bytes its own File returned (engine of C11)
	rapidCases(h, "concurrent-reads", env.PerShard(env.Pick(400, 20000)), func(rt *rapid.T) concReadCase {
		return concReadCase{EOFReads: rapid.IntRange(1, 4).Draw(rt, "eof"), SizeA: rapid.SampledFrom([]int{1, 100, 3000, 5000, 12000}).Draw(rt, "sa"),
			SizeB: rapid.SampledFrom([]int{1, 100, 3000, 5000}).Draw(rt, "sb"), Msize: rapid.SampledFrom([]uint32{4096, 8192, 65536}).Draw(rt, "msize"),
			After: rapid.Bool().Draw(rt, "after")}
	}, func(c concReadCase) *fail {
		h.Case(evid.HashJSON(c), true, "concurrent-reads")
		return runConcReadCase(c)
	})
	// every method x every version x both backends once with plain arguments
	if env.Shard == 0 {
		for _, m := range callMethods {
			for v := uint32(0); v <= 7; v++ {
				for _, native := range []bool{false, true} {
					c := callCase{Version: v, Native: native, Derive: "walk", Method: m, Name: []byte("nm"), Name2: []byte("nm2"), Mode: 0o7777 | 0o170000,
						UID: 11, GID: 12, Count: 10, Data: []byte("d"), RN: 1, RData: []byte("abc"), Mask: 0x3fff, RValid: 0x7ff, Names: [][]byte{[]byte("x"), []byte("y")}}
					st := &callStats{}
					f := runCallCase(c, st)
					h.Case(callHash(c), st.nonDefault, "enumerated:"+m)
					if h.report("calls", f, c) {
						return
					}
				}
			}
		}
		h.Exhaustive("27 client methods x versions 0..7 x 2 backends with plain arguments")
	}
	rapidCases(h, "calls", env.PerShard(env.Pick(48000, 2400000)), genCallCase, func(c callCase) *fail {
		st := &callStats{}
		f := runCallCase(c, st)
		cls := "calls:" + c.Method
		h.Case(callHash(c), st.nonDefault, cls)
		h.Count(fmt.Sprintf("version:%d", c.Version), 1)
		if c.Err != nil {
			h.Count("backend-error:"+c.Err.Style, 1)
		}
		if st.nonDefault && h.WantSample("calls") {
			h.Sample("calls", c)
		}
		return f
	})
}
