package checks

import (
	"fmt"
	"os"
	"path/filepath"
	"sort"

	"p9verif/memfs"

	"github.com/hugelgupf/p9/fsimpl/composefs"
	"github.com/hugelgupf/p9/fsimpl/localfs"
	"github.com/hugelgupf/p9/fsimpl/staticfs"
	"github.com/hugelgupf/p9/p9"
	"pgregory.net/rapid"
)

// nestCase (C20): a generated composition - plain files, WithDir levels, and
// mounts of staticfs, localfs, an in-memory backend and further compositions,
// nested up to three deep - is traversed completely, directly on the File
// interface or through client and server. Every file's QID is learnt in every
// way there is (Walk from its directory, GetAttr and Open on the walked File, the
// directory's listing, a multi-component walk from the root, a second
// traversal): all must agree (stable), distinct files must have distinct paths
// (injective), and the QID type must match the mode's type.
type nestCase struct {
	Root   []nestNode `json:"root"`
	Server bool       `json:"through_server"`
}

type nestNode struct {
	Name string     `json:"name"`
	Kind string     `json:"kind"` // file | dir | static | local | mem | compose
	Kids []nestNode `json:"kids,omitempty"`
	N    int        `json:"n,omitempty"` // files in a static / local / mem mount
}

func genNestNodes(rt *rapid.T, depth int, prefix string) []nestNode {
	n := rapid.IntRange(1, 3).Draw(rt, "n")
	var out []nestNode
	for i := 0; i < n; i++ {
		kinds := []string{"file", "file", "static", "local", "mem"}
		if depth < 3 {
			kinds = append(kinds, "dir", "dir", "compose", "compose")
		}
		nd := nestNode{Name: fmt.Sprintf("%s%d", prefix, i), Kind: rapid.SampledFrom(kinds).Draw(rt, "kind")}
		switch nd.Kind {
		case "dir", "compose":
			nd.Kids = genNestNodes(rt, depth+1, nd.Name+"_")
		case "static", "local", "mem":
			nd.N = rapid.IntRange(1, 3).Draw(rt, "files")
		}
		out = append(out, nd)
	}
	return out
}

func buildNest(nodes []nestNode, tmp string, cleanup *[]func()) ([]composefs.Opt, error) {
	var opts []composefs.Opt
	for _, nd := range nodes {
		switch nd.Kind {
		case "file":
			opts = append(opts, composefs.WithFile(nd.Name, staticfs.ReadOnlyFile("content of "+nd.Name)))
		case "dir":
			sub, err := buildNest(nd.Kids, tmp, cleanup)
			if err != nil {
				return nil, err
			}
			opts = append(opts, composefs.WithDir(nd.Name, sub...))
		case "compose":
			sub, err := buildNest(nd.Kids, tmp, cleanup)
			if err != nil {
				return nil, err
			}
			inner, err := composefs.New(sub...)
			if err != nil {
				return nil, err
			}
			opts = append(opts, composefs.WithMount(nd.Name, inner))
		case "static":
			var so []staticfs.Option
			for i := 0; i < nd.N; i++ {
				so = append(so, staticfs.WithFile(fmt.Sprintf("s%d", i), fmt.Sprintf("static %s %d", nd.Name, i)))
			}
			a, err := staticfs.New(so...)
			if err != nil {
				return nil, err
			}
			opts = append(opts, composefs.WithMount(nd.Name, a))
		case "local":
			dir := filepath.Join(tmp, nd.Name)
			if err := os.MkdirAll(filepath.Join(dir, "sd"), 0o755); err != nil {
				return nil, err
			}
			for i := 0; i < nd.N; i++ {
				os.WriteFile(filepath.Join(dir, fmt.Sprintf("l%d", i)), []byte("x"), 0o644)
				os.WriteFile(filepath.Join(dir, "sd", fmt.Sprintf("z%d", i)), []byte("y"), 0o644)
			}
			os.Symlink("l0", filepath.Join(dir, "ln"))
			opts = append(opts, composefs.WithMount(nd.Name, localfs.Attacher(dir)))
		case "mem":
			fs := memfs.New(memfs.Options{NativeWalkGetAttr: nd.N%2 == 0})
			d, _ := fs.Tree.Mkdir(fs.Tree.Root, "md", 0o755, 0, 0)
			for i := 0; i < nd.N; i++ {
				fs.Tree.Create(fs.Tree.Root, fmt.Sprintf("m%d", i), 0o644, 0, 0)
				fs.Tree.Create(d, fmt.Sprintf("n%d", i), 0o600, 0, 0)
			}
			fs.Tree.Symlink(fs.Tree.Root, "ml", "m0", 0, 0)
			opts = append(opts, composefs.WithMount(nd.Name, fs))
		default:
			return nil, fmt.Errorf("kind %q", nd.Kind)
		}
	}
	return opts, nil
}

type nestSeen struct {
	server bool
	owner  map[uint64]string // QID path -> file
	qid    map[string]p9.QID // file -> QID
	files  int
	depth  int
}

func (ns *nestSeen) learn(who string, q p9.QID, how string) *fail {
	if prev, ok := ns.qid[who]; ok {
		if how == "Open" {
			// (the composed directories answer Open with a QID whose type and version are
			// zero; the property's type clause is about localfs - only the path is judged)
			q.Type, q.Version = prev.Type, prev.Version
		}
		if prev != q {
			return failf("qid-unstable:nested", "%s: %s reports QID {type %#x path %#x}, an earlier way reported {type %#x path %#x}", who, how, uint8(q.Type), q.Path, uint8(prev.Type), prev.Path)
		}
	} else if how == "Open" {
		return nil // nothing to compare with yet
	} else {
		ns.qid[who] = q
		ns.files++
	}
	if prev, ok := ns.owner[q.Path]; ok && prev != who {
		return failf("qid-collision:nested", "%s and %s are distinct files with the same QID path %#x (%s)", prev, who, q.Path, how)
	}
	ns.owner[q.Path] = who
	return nil
}

// traverse visits dir (already walked to, not open) and everything below it.
func (ns *nestSeen) traverse(root, dir p9.File, at []string, depth int) *fail {
	if depth > ns.depth {
		ns.depth = depth
	}
	where := "/" + filepath.Join(at...)
	_, l, err := dir.Walk(nil)
	if err != nil {
		return failf("harness-clone", "HARNESS-ERROR clone %s: %v", where, err)
	}
	defer l.Close()
	oq, _, err := l.Open(p9.ReadOnly)
	if err != nil {
		return failf("harness-open", "HARNESS-ERROR open %s: %v", where, err)
	}
	if f := ns.learn(where, oq, "Open"); f != nil {
		return f
	}
	var ents p9.Dirents
	off := uint64(0)
	for iter := 0; iter < 1000; iter++ {
		page, err := l.Readdir(off, 1<<16)
		if err != nil {
			return failf("listing-failed:nested", "Readdir(%s, offset %d): %v", where, off, err)
		}
		if len(page) == 0 {
			break
		}
		ents = append(ents, page...)
		off = page[len(page)-1].Offset
	}
	sort.Slice(ents, func(i, j int) bool { return ents[i].Name < ents[j].Name })
	for _, e := range ents {
		who := "/" + filepath.Join(append(append([]string{}, at...), e.Name)...)
		if f := ns.learn(who, e.QID, "the listing of "+where); f != nil {
			return f
		}
		qs, f1, err := dir.Walk([]string{e.Name})
		if err != nil || len(qs) != 1 {
			return failf("listed-entry-not-walkable:nested", "%s is listed but Walk fails: %v", who, err)
		}
		if f := ns.learn(who, qs[0], "Walk"); f != nil {
			f1.Close()
			return f
		}
		gq, _, attr, err := f1.GetAttr(p9.AttrMaskAll)
		if err != nil {
			f1.Close()
			return failf("harness-getattr", "HARNESS-ERROR GetAttr(%s): %v", who, err)
		}
		if f := ns.learn(who, gq, "GetAttr"); f != nil {
			f1.Close()
			return f
		}
		wantType := uint8(0) // QTFILE
		switch uint32(attr.Mode) & 0o170000 {
		case 0o040000:
			wantType = 0x80 // QTDIR
		case 0o120000:
			wantType = 0x02 // QTSYMLINK
		}
		if uint8(gq.Type) != wantType {
			f1.Close()
			return failf("qid-type-mismatch:nested", "%s: QID type %#x, mode %o (type %#x expected)", who, uint8(gq.Type), uint32(attr.Mode), wantType)
		}
		// from the root in one walk (through the server only, which advances one
		// component at a time; multi-component Walk calls on the sample file systems'
		// Files themselves are outside the property)
		if len(at) > 0 && ns.server {
			full := append(append([]string{}, at...), e.Name)
			rq, f2, err := root.Walk(full)
			if err != nil || len(rq) != len(full) {
				f1.Close()
				return failf("deep-walk-failed:nested", "Walk(%v) from the root: %d QIDs, %v", full, len(rq), err)
			}
			f2.Close()
			if f := ns.learn(who, rq[len(rq)-1], "a walk from the root"); f != nil {
				f1.Close()
				return f
			}
		}
		if attr.Mode.IsDir() {
			if f := ns.traverse(root, f1, append(append([]string{}, at...), e.Name), depth+1); f != nil {
				f1.Close()
				return f
			}
		} else if attr.Mode.IsRegular() {
			if _, c, err := f1.Walk(nil); err == nil {
				if q, _, err := c.Open(p9.ReadOnly); err == nil {
					if f := ns.learn(who, q, "Open"); f != nil {
						c.Close()
						f1.Close()
						return f
					}
				}
				c.Close()
			}
		}
		f1.Close()
	}
	return nil
}

type nestStats struct{ files, depth int }

func runNestCase(c nestCase, st *nestStats) *fail {
	tmp, err := os.MkdirTemp("", "p9verif-nest")
	if err != nil {
		return failf("harness-tmp", "HARNESS-ERROR %v", err)
	}
	defer os.RemoveAll(tmp)
	var cleanup []func()
	opts, err := buildNest(c.Root, tmp, &cleanup)
	if err != nil {
		return failf("harness-build", "HARNESS-ERROR %v", err)
	}
	cfs, err := composefs.New(opts...)
	if err != nil {
		return failf("harness-composefs", "HARNESS-ERROR %v", err)
	}
	var root p9.File
	if c.Server {
		cl, closeFn, err := dialPipe(p9.NewServer(cfs))
		if err != nil {
			return failf("harness-dial", "HARNESS-ERROR %v", err)
		}
		defer closeFn()
		root, err = cl.Attach("")
		if err != nil {
			return failf("harness-attach", "HARNESS-ERROR %v", err)
		}
	} else {
		root, err = cfs.Attach()
		if err != nil {
			return failf("harness-attach", "HARNESS-ERROR %v", err)
		}
	}
	defer root.Close()
	ns := &nestSeen{server: c.Server, owner: map[uint64]string{}, qid: map[string]p9.QID{}}
	for pass := 0; pass < 2; pass++ { // the second traversal must find every QID unchanged
		if f := ns.traverse(root, root, nil, 0); f != nil {
			f.Msg += fmt.Sprintf(" (traversal %d; %+v)", pass+1, c)
			return f
		}
	}
	if st != nil {
		st.files, st.depth = ns.files, ns.depth
	}
	return nil
}
