package checks

import (
	"encoding/json"
	"fmt"
	"os"
	"path/filepath"
	"strings"
	"time"

	"p9verif/evid"
	"p9verif/memfs"
	"p9verif/peers"
	"p9verif/refcodec"

	"github.com/hugelgupf/p9/p9"
	"pgregory.net/rapid"
)

// The schedule-owning check: 2-4 requests are sent at the same moment, each on
// a connection of its own; EVERY backend call stops at its entry and the
// generated case decides which of the stopped calls proceeds next. Calls the
// server's locks keep out simply do not arrive. So the harness enumerates
// interleavings at the granularity of backend calls, with the real server in
// between. Oracle: the overlap monitor (File concurrency contract, C07), no
// path-dependent call on a File whose entry is gone (fencing, C08), File
// lifecycle, and every request answered.

type schedCase struct {
	Native bool     `json:"native_walkgetattr"`
	Reqs   []string `json:"reqs"`  // request kinds (see schedAlphabet), request i on connection i
	Picks  []int    `json:"picks"` // which of the stopped calls goes next (modulo their number)
	// Delay[i]: request i is sent only after this many stopped calls have been
	// released (0 or absent: at the start, together with the others)
	Delay []int `json:"delay,omitempty"`
	// SameConn: all requests travel on connection 0 (the fid table of one
	// connection is then shared by requests in flight); else one connection each
	SameConn bool `json:"same_conn,omitempty"`
}

// schedThemes: requests that meet on one entry; a case draws most of its
// requests from one theme.
var schedThemes = map[string][]string{
	"f":      {"ren-f-f", "walk-f", "walk-D-f", "clone-2", "open-2", "getattr-2", "getattr-2", "setattr-2", "setattr-mtime-2", "setattr-times-2", "setattr-size-2", "xattrwalk-2", "unlink-f", "unlink-f2", "ren-f-f2", "ren-g-f", "ren-f-E", "trename-2", "remove-2", "create-D", "link-D", "clunk-2"},
	"k":      {"ren-k-k", "walk-sub-k", "walk-D-sub-k", "walk-3-k", "clone-4", "open-4", "getattr-4", "setattr-4", "unlink-k", "ren-k-D", "trename-4", "remove-4", "ren-sub-E", "ren-sub-sub3", "setattr-3", "create-sub", "mkdir-sub", "clunk-3", "clone-3"},
	"e":      {"walk-D-e", "walk-D-e-x", "walk-D-e-x", "unlink-e", "remove-8", "mkdir-e", "ren-e-E", "getattr-8", "clone-8", "setattr-8"},
	"fnew":   {"ren-f-f", "remove-2", "unlink-f", "create-f", "create-f", "ren-g-f", "walk-f", "open-2", "ren-f-f2", "mkdir-f"},
	"knew":   {"remove-4", "unlink-k", "create-k", "create-k", "walk-3-k", "ren-k-D", "open-4", "ren-sub-E"},
	"create": {"hangup", "create-D", "create-D", "create-sub", "create-sub", "ren-new-new2", "ren-new-E", "ren-subnew-D", "ren-sub-E", "ren-D-E", "unlink-new", "walk-new", "ren-sub-sub3"},
	"io":     {"read-10", "write-10", "fsync-10", "setattr-2", "setattr-mtime-2", "setattr-size-2", "unlink-f", "ren-g-f", "readdir-9", "create-D", "mkdir-D", "unlink-g", "getattr-2", "clunk-10", "remove-2", "hangup", "hangup"},
	"dir":    {"create-D", "mkdir-D", "symlink-D", "unlink-g", "unlink-s", "readlink-7", "walk-f", "ren-g-f", "ren-f-f2", "link-D", "setattr-D", "setattr-mtime-D", "getattr-D"},
}

var schedAlphabet = []string{
	"walk-f", "walk-sub-k", "walk-D-f", "walk-D-sub-k", "walk-3-k", "walk-D-e", "clone-2", "clone-4", "clone-3",
	"open-2", "open-4", "getattr-2", "getattr-4", "setattr-2", "setattr-3", "setattr-4", "readlink-7", "xattrwalk-2",
	"unlink-f", "unlink-g", "unlink-k", "unlink-e", "unlink-s", "ren-f-f2", "ren-g-f", "ren-sub-E", "ren-f-E", "ren-k-D", "ren-sub-sub3",
	"trename-2", "trename-4", "remove-2", "remove-8", "remove-4", "create-D", "create-sub", "mkdir-D", "mkdir-sub", "symlink-D", "link-D", "clunk-2", "clunk-3",
	"ren-f-f", "ren-k-k", "readdir-9", "read-10", "write-10", "fsync-10", "clunk-10", "hangup", "setattr-mtime-2", "setattr-times-2", "setattr-size-2", "setattr-mtime-D",
	"create-f", "create-k", "mkdir-f", "ren-new-new2", "ren-new-E", "ren-subnew-D", "unlink-new", "walk-new", "ren-D-E",
	"unlink-f2", "walk-D-e-x", "mkdir-e", "ren-e-E", "getattr-8", "clone-8", "setattr-8", "setattr-D", "getattr-D",
}

func schedMsg(kind string) *refcodec.Msg {
	switch kind {
	case "walk-f":
		return tWalk(1, 20, "f")
	case "walk-sub-k":
		return tWalk(1, 20, "sub", "k")
	case "walk-D-f":
		return tWalk(0, 20, "D", "f")
	case "walk-D-sub-k":
		return tWalk(0, 20, "D", "sub", "k")
	case "walk-3-k":
		return tWalk(3, 20, "k")
	case "walk-D-e":
		return tWalk(0, 20, "D", "e")
	case "clone-2":
		return tWalk(2, 20)
	case "clone-4":
		return tWalk(4, 20)
	case "clone-3":
		return tWalk(3, 20)
	case "open-2":
		return tOpen(2, 0)
	case "open-4":
		return tOpen(4, 2)
	case "getattr-2":
		return tGetattr(2)
	case "getattr-4":
		return tGetattr(4)
	case "setattr-2":
		return tSetattr(2, 1, 0o600, 0)
	case "setattr-mtime-2":
		return tSetattr(2, 0x20, 0, 0)
	case "setattr-times-2":
		return tSetattr(2, 0x1b0, 0, 0)
	case "setattr-size-2":
		return tSetattr(2, 8, 0, 3)
	case "setattr-mtime-D":
		return tSetattr(1, 0x20, 0, 0)
	case "setattr-3":
		return tSetattr(3, 1, 0o700, 0)
	case "setattr-4":
		return tSetattr(4, 1, 0o640, 0)
	case "readlink-7":
		return tReadlink(7)
	case "xattrwalk-2":
		return tXattrwalk(2, 21, "user.a")
	case "unlink-f":
		return tUnlinkat(1, "f")
	case "unlink-g":
		return tUnlinkat(1, "g")
	case "unlink-k":
		return tUnlinkat(3, "k")
	case "unlink-e":
		return tUnlinkat(1, "e")
	case "unlink-s":
		return tUnlinkat(1, "s")
	case "ren-f-f2":
		return tRenameat(1, "f", 1, "f2")
	case "ren-f-f":
		return tRenameat(1, "f", 11, "f") // onto itself, the directory named through two fids
	case "ren-k-k":
		return tRenameat(3, "k", 3, "k")
	case "ren-new-new2":
		return tRenameat(1, "new", 1, "new2")
	case "ren-new-E":
		return tRenameat(1, "new", 5, "new")
	case "ren-subnew-D":
		return tRenameat(3, "new", 1, "new3")
	case "unlink-new":
		return tUnlinkat(1, "new")
	case "walk-new":
		return tWalk(1, 20, "new")
	case "ren-D-E":
		return tRenameat(0, "D", 5, "D2")
	case "ren-g-f":
		return tRenameat(1, "g", 1, "f")
	case "ren-sub-E":
		return tRenameat(1, "sub", 5, "sub2")
	case "ren-f-E":
		return tRenameat(1, "f", 5, "f")
	case "ren-k-D":
		return tRenameat(3, "k", 1, "k2")
	case "ren-sub-sub3":
		return tRenameat(1, "sub", 1, "sub3")
	case "trename-2":
		return tRename(2, 5, "moved")
	case "trename-4":
		return tRename(4, 1, "k-up")
	case "remove-2":
		return tRemove(2)
	case "remove-8":
		return tRemove(8)
	case "remove-4":
		return tRemove(4)
	case "readdir-9":
		return tReaddir(9, 0, 4096)
	case "read-10":
		return tRead(10, 0, 64)
	case "write-10":
		return tWrite(10, 3, "scheduled")
	case "fsync-10":
		return tFsync(10)
	case "clunk-10":
		return tClunk(10)
	case "create-D":
		return tCreate(1, "new", 2, 0o644)
	case "create-f":
		return tCreate(1, "f", 2, 0o644)
	case "create-k":
		return tCreate(3, "k", 2, 0o644)
	case "mkdir-f":
		return tMkdir(1, "f")
	case "create-sub":
		return tCreate(3, "new", 2, 0o644)
	case "mkdir-D":
		return tMkdir(1, "nd")
	case "mkdir-sub":
		return tMkdir(3, "x")
	case "symlink-D":
		return tSymlink(1, "sl", "t")
	case "link-D":
		return tLink(1, 6, "hl")
	case "clunk-2":
		return tClunk(2)
	case "clunk-3":
		return tClunk(3)
	case "unlink-f2":
		return tUnlinkat(1, "f2")
	case "walk-D-e-x":
		return tWalk(0, 20, "D", "e", "x")
	case "mkdir-e":
		return tMkdir(8, "y")
	case "ren-e-E":
		return tRenameat(1, "e", 5, "e2")
	case "getattr-8":
		return tGetattr(8)
	case "clone-8":
		return tWalk(8, 20)
	case "setattr-8":
		return tSetattr(8, 1, 0o710, 0)
	case "setattr-D":
		return tSetattr(1, 1, 0o750, 0)
	case "getattr-D":
		return tGetattr(1)
	}
	return tGetattr(0)
}

type schedStats struct {
	steps      int
	maxStopped int
}

func runSchedCase(c schedCase, st *schedStats) *fail { return runSchedCaseKeep(c, st, nil) }

// runSchedCaseKeep: of the backend anomalies only those whose signature passes
// keep are reported (nil: all).
func runSchedCaseKeep(c schedCase, st *schedStats, keep func(sig string) bool) *fail {
	fs := memfs.New(memfs.Options{NativeWalkGetAttr: c.Native, Monitor: true})
	d, _ := fs.Tree.Mkdir(fs.Tree.Root, "D", 0o755, 0, 0)
	f0, _ := fs.Tree.Create(d, "f", 0o644, 0, 0)
	f0.SetXattr("user.a", []byte("v"), 0)
	fs.Tree.Create(d, "g", 0o644, 0, 0)
	fs.Tree.Symlink(d, "s", "f", 0, 0)
	sub, _ := fs.Tree.Mkdir(d, "sub", 0o755, 0, 0)
	fs.Tree.Create(sub, "k", 0o644, 0, 0)
	fs.Tree.Mkdir(d, "e", 0o755, 0, 0)
	fs.Tree.Mkdir(fs.Tree.Root, "E", 0o755, 0, 0)
	srv := p9.NewServer(fs)
	// (library hook: the moment between Tlcreate's bookkeeping and the
	// installation of the new fid is a stop like a backend call)
	srv.VerifSetPoint(fs.StepPoint)
	defer srv.VerifSetPoint(nil)
	var ss []*peers.Session
	desc := fmt.Sprintf("%+v", c)
	stepCh := make(chan *memfs.StepCall, 256)
	var stopped []*memfs.StepCall
	releaseAll := func() {
		fs.SetStepper(nil)
		for {
			for _, sc := range stopped {
				close(sc.Go)
			}
			stopped = nil
			select {
			case sc := <-stepCh:
				stopped = append(stopped, sc)
			case <-time.After(30 * time.Millisecond):
				return
			}
		}
	}
	defer func() {
		releaseAll()
		for _, s := range ss {
			s.Close(5 * time.Second)
		}
	}()
	for range c.Reqs {
		s := peers.Start(srv)
		ss = append(ss, s)
		if _, err := s.Version(64<<10, "9P2000.L.Google.7"); err != nil {
			return failf("harness-version", "HARNESS-ERROR %v", err)
		}
		for j, m := range []*refcodec.Msg{tAttach(0, nofid, ""), tWalk(0, 1, "D"), tWalk(0, 2, "D", "f"), tWalk(0, 3, "D", "sub"), tWalk(0, 4, "D", "sub", "k"),
			tWalk(0, 5, "E"), tWalk(0, 6, "D", "g"), tWalk(0, 7, "D", "s"), tWalk(0, 8, "D", "e"),
			tWalk(0, 9, "D"), tOpen(9, 0), tWalk(0, 10, "D", "f"), tOpen(10, 2), tWalk(0, 11, "D")} {
			if r, err := s.Call(withTag(m, uint16(1+j))); err != nil || r.Type == refcodec.Rlerror {
				return failf("harness-setup", "HARNESS-ERROR %s: %v %v", m, r, err)
			}
		}
	}
	fs.SetStepper(stepCh)
	sent := make([]bool, len(c.Reqs))
	answered := make([]bool, len(c.Reqs))
	nAnswered := 0
	released := 0
	conn := func(i int) int {
		if c.SameConn {
			return 0
		}
		return i
	}
	sendDue := func(force bool) {
		for i, k := range c.Reqs {
			d := 0
			if i < len(c.Delay) {
				d = c.Delay[i]
			}
			if !sent[i] && (force || d <= released) {
				sent[i] = true
				if k == "hangup" {
					// the connection ends here: its Files are released by the server's
					// teardown, whose backend calls are scheduled like any others
					ss[i].C2S.CloseWrite()
					answered[i] = true
					nAnswered++
					continue
				}
				ss[conn(i)].Send(refcodec.Encode(withTag(schedMsg(k), uint16(100+i))))
			}
		}
	}
	sendDue(false)
	var trace []string
	collect := func(quiet time.Duration) {
		for {
			select {
			case sc := <-stepCh:
				stopped = append(stopped, sc)
			case <-time.After(quiet):
				return
			}
		}
	}
	poll := func() *fail {
		for i, s := range ss {
			if c.SameConn && i > 0 {
				break
			}
			for (c.SameConn || !answered[i]) && s.Pending() > 0 {
				raw, err := s.Recv(20 * time.Millisecond)
				if err != nil {
					break
				}
				rep, derr := refcodec.DecodeStrict(raw)
				if derr != nil {
					return failf("reply-undecodable:scheduled", "request %d (%s): reply %x: %v (%s)", i, c.Reqs[i], raw[:min(len(raw), 40)], derr, desc)
				}
				k := i
				if c.SameConn {
					k = int(rep.Tag) - 100
				}
				if k < 0 || k >= len(answered) || answered[k] {
					return failf("reply-nobody-asked-for:scheduled", "reply %s matches no unanswered request (%s)", rep, desc)
				}
				answered[k] = true
				nAnswered++
			}
		}
		return nil
	}
	// after a release or a send, the next event (a call arriving at the backend or
	// a reply) is awaited for up to 30 ms before the schedule moves on, so that a
	// busy machine does not change which interleavings are explored; a request that
	// the server's locks keep waiting produces no event and costs those 30 ms
	settle := func() {
		for i := 0; i < 150; i++ {
			if len(stepCh) > 0 {
				return
			}
			for j, s := range ss {
				if sent[j] && !answered[j] && ss[conn(j)].Pending() > 0 && (!c.SameConn || s == ss[0]) {
					return
				}
			}
			time.Sleep(200 * time.Microsecond)
		}
	}
	idle := 0
	for step := 0; step < 400 && nAnswered < len(c.Reqs); step++ {
		if idle == 0 {
			settle()
		}
		collect(2 * time.Millisecond)
		if f := poll(); f != nil {
			return f
		}
		if st != nil && len(stopped) > st.maxStopped {
			st.maxStopped = len(stopped)
		}
		if len(stopped) == 0 {
			if idle > 5 {
				sendDue(true) // nothing can be released any more: the delayed requests go out now
			}
			idle++
			if idle > 1500 { // ~ 6 s without a stopped call or a reply
				var out []string
				for i, a := range answered {
					if !a {
						out = append(out, c.Reqs[i])
					}
				}
				return failf("request-never-answered:scheduled", "requests %v were not answered and no backend call is pending (calls inside the backend: %v); schedule so far: %s (%s)", out, fs.Inside(), strings.Join(trace, " > "), desc)
			}
			step--
			time.Sleep(2 * time.Millisecond)
			continue
		}
		idle = 0
		pick := 0
		if len(c.Picks) > 0 {
			pick = c.Picks[len(trace)%len(c.Picks)] % len(stopped)
		}
		sc := stopped[pick]
		stopped = append(stopped[:pick], stopped[pick+1:]...)
		if sc.Exit {
			trace = append(trace, "(return of #"+fmt.Sprint(sc.C.Seq)+")")
		} else {
			trace = append(trace, sc.C.String())
		}
		close(sc.Go)
		released++
		sendDue(false)
		if st != nil {
			st.steps++
		}
	}
	sendDue(true)
	releaseAll()
	for i := 0; i < 200 && nAnswered < len(c.Reqs); i++ {
		if f := poll(); f != nil {
			return f
		}
		time.Sleep(5 * time.Millisecond)
	}
	if nAnswered < len(c.Reqs) {
		return failf("request-never-answered:scheduled", "%d of %d requests were answered; schedule: %s (%s)", nAnswered, len(c.Reqs), strings.Join(trace, " > "), desc)
	}
	// afterwards, in sequence: every fid that is still bound and whose object is
	// still the entry at its path must not be fenced (a fid bound to a new file of
	// a name is unaffected by what happened to the old one)
	hasLink := false
	for _, k := range c.Reqs {
		if k == "link-D" {
			hasLink = true
		}
	}
	if keep == nil || keep("live-fid-fenced:scheduled") {
		for i, s := range ss {
			if c.Reqs[i] == "hangup" {
				continue
			}
			fids := []uint64{1, 2, 3, 4, 5, 6, 7, 8, 9, 10}
			if !c.SameConn && (strings.HasPrefix(c.Reqs[i], "walk-") || strings.HasPrefix(c.Reqs[i], "clone-")) {
				fids = append(fids, 20) // the fid the request bound
			}
			for _, fid := range fids {
				before := fs.Seq()
				r, err := s.Call(withTag(tGetattr(fid), uint16(200+fid)))
				// whatever the answer: the File behind the fid must know where its object is
				// now (not judged when hard links were made: an object then has several names)
				for _, lc := range fs.LogSince(before) {
					if lc.Op != "GetAttr" || hasLink {
						continue
					}
					if at, hp, known := fs.WhereIs(lc.Handle); known && len(at) > 0 && at[0] != hp {
						return failf("file-not-told-its-name:scheduled", "after the schedule, fid %d of connection %d (request %s) stands for h%d, which believes to be at %s, but its object is at %v: the File was not told its new parent and name; schedule: %s (%s)", fid, i, c.Reqs[i], lc.Handle, hp, at, strings.Join(trace, " > "), desc)
					}
				}
				if err != nil {
					return failf("request-never-answered:scheduled", "probe Tgetattr(fid %d) on connection %d was not answered (%v); schedule: %s (%s)", fid, i, err, strings.Join(trace, " > "), desc)
				}
				if r.Type == refcodec.Rlerror {
					continue
				}
				hid := 0
				for _, lc := range fs.LogSince(before) {
					if lc.Op == "GetAttr" {
						hid = lc.Handle
					}
				}
				live, known := fs.LiveAtPath(hid)
				if hid == 0 || !known || !live {
					continue
				}
				r, err = s.Call(withTag(refcodec.New(refcodec.Tsetattr, 0, "fid", fid, "valid", 0), uint16(220+fid)))
				if err != nil {
					return failf("request-never-answered:scheduled", "probe Tsetattr(fid %d) on connection %d was not answered (%v); schedule: %s (%s)", fid, i, err, strings.Join(trace, " > "), desc)
				}
				if e, isErr := refcodec.Errno(refcodec.Encode(r)); isErr {
					hi, _ := fs.HandleByID(hid)
					return failf("live-fid-fenced:scheduled", "after the schedule, fid %d of connection %d (request %s) stands for h%d (%s), whose object is still the entry at that path, but Tsetattr(valid=0) through it is refused with errno %d; schedule: %s (%s)", fid, i, c.Reqs[i], hid, hi.Path, e, strings.Join(trace, " > "), desc)
				}
			}
		}
	}
	for _, an := range fs.Anomalies() {
		if keep != nil && !keep(an.Sig) {
			continue
		}
		switch an.Kind {
		case "overlap":
			return failf(an.Sig+":scheduled", "overlap: %s entered while %s was inside the backend; schedule: %s (%s)", an.B, an.A, strings.Join(trace, " > "), desc)
		case "fenced-path-reached":
			return failf(an.Sig+":scheduled", "%s was made on a File whose entry had been unlinked or replaced; schedule: %s (%s)", an.A, strings.Join(trace, " > "), desc)
		case "use-after-close", "double-close", "close-during-call":
			return failf(an.Sig+":scheduled", "%s: %s %s; schedule: %s (%s)", an.Kind, an.A, an.B, strings.Join(trace, " > "), desc)
		}
	}
	for _, s := range ss {
		if !s.Close(20 * time.Second) {
			return failf("handle-did-not-return:scheduled", "Handle did not return; schedule: %s (%s)", strings.Join(trace, " > "), desc)
		}
	}
	ss = nil
	for _, h := range fs.Handles() {
		if h.Closes != 1 {
			return failf(fmt.Sprintf("closed-%d-times-at-teardown:scheduled", min(h.Closes, 2)), "File h%d (%s) closed %d times; schedule: %s (%s)", h.ID, h.Path, h.Closes, strings.Join(trace, " > "), desc)
		}
	}
	return nil
}

// genSchedCase draws a case that takes most of its requests from one of the
// named themes.
func genSchedCase(rt *rapid.T, themes []string) schedCase {
	c := schedCase{Native: rapid.Bool().Draw(rt, "native")}
	theme := schedThemes[rapid.SampledFrom(themes).Draw(rt, "theme")]
	for i := rapid.IntRange(2, 4).Draw(rt, "n"); i > 0; i-- {
		if rapid.IntRange(0, 5).Draw(rt, "any") == 0 {
			c.Reqs = append(c.Reqs, rapid.SampledFrom(schedAlphabet).Draw(rt, "req"))
		} else {
			c.Reqs = append(c.Reqs, rapid.SampledFrom(theme).Draw(rt, "treq"))
		}
		c.Delay = append(c.Delay, rapid.SampledFrom([]int{0, 0, 0, 1, 2, 3, 5}).Draw(rt, "delay"))
	}
	for i := rapid.IntRange(1, 12).Draw(rt, "np"); i > 0; i-- {
		c.Picks = append(c.Picks, rapid.IntRange(0, 5).Draw(rt, "pick"))
	}
	if rapid.IntRange(0, 4).Draw(rt, "sameconn") == 0 {
		c.SameConn = true
		for i, k := range c.Reqs {
			if k == "hangup" {
				c.Reqs[i] = "clunk-2"
			}
		}
	}
	return c
}

// schedSubCheck is the "scheduled" sub-check of C07, C08 and C09: the same
// engine, each property judging the verdicts that are its own (keep == nil
// keeps all of them).
func schedSubCheck(h *H, n int, themes []string, keep func(sig string) bool) {
	run := func(c schedCase, st *schedStats) *fail {
		f := runSchedCaseKeep(c, st, keep)
		if f != nil && keep != nil && !strings.HasPrefix(f.Sig, "harness-") && !keep(f.Sig) {
			h.Count("scheduled:verdicts-left-to-another-property", 1)
			return nil
		}
		return f
	}
	// replay tier: saved schedules (each once was a violation)
	if h.Env.Shard == 0 {
		if ents, err := os.ReadDir(filepath.Join("..", "corpus", "sched")); err == nil {
			for _, e := range ents {
				rf, err := evid.LoadReplay(filepath.Join("..", "corpus", "sched", e.Name()))
				var sc schedCase
				if err == nil {
					err = json.Unmarshal(rf.Case, &sc)
				}
				if err != nil {
					h.t.Errorf("HARNESS-ERROR corpus %s: %v", e.Name(), err)
					continue
				}
				for rep := 0; rep < 8; rep++ {
					f := run(sc, nil)
					h.Case(evid.HashJSON(sc)+uint64(rep), true, "scheduled:saved-corpus")
					if f != nil && strings.HasPrefix(f.Sig, "harness-") {
						h.t.Errorf("HARNESS-ERROR %s", f.Msg)
						break
					}
					if h.report("scheduled", f, sc) {
						return
					}
				}
			}
		}
	}
	rapidCases(h, "scheduled", n, func(rt *rapid.T) schedCase { return genSchedCase(rt, themes) }, func(c schedCase) *fail {
		st := &schedStats{}
		f := run(c, st)
		h.Case(evid.HashJSON(c), st.maxStopped >= 2, "scheduled")
		h.Count("scheduled:backend-calls-released-one-by-one", int64(st.steps))
		if st.maxStopped >= 2 && h.WantSample("scheduled") {
			h.Sample("scheduled", c)
		}
		return f
	})
}

// keepC08: calls that reached the backend on a File whose entry had been
// unlinked or replaced (the fence of C08).
func keepC08(sig string) bool {
	return strings.HasPrefix(sig, "fenced-path-reached:") || strings.HasPrefix(sig, "live-fid-fenced") || strings.HasPrefix(sig, "file-not-told-its-name")
}

// keepC09: walk steps taken from a node that is no longer the directory the
// backend reported (C09: a walk advances only through directories).
func keepC09(sig string) bool { return strings.HasPrefix(sig, "fenced-path-reached:Walk") }

// keepC05: the File lifecycle (closed exactly once, never used after or during
// its Close, Handle returns), with connections ending in the middle of schedules.
func keepC05(sig string) bool {
	for _, p := range []string{"use-after-close", "double-close", "close-during-call", "closed-", "handle-did-not-return", "request-never-answered"} {
		if strings.HasPrefix(sig, p) {
			return true
		}
	}
	return false
}

// keepC06: every request is answered, by a whole frame (C06).
func keepC06(sig string) bool {
	return strings.HasPrefix(sig, "request-never-answered") || strings.HasPrefix(sig, "reply-undecodable") || strings.HasPrefix(sig, "reply-nobody-asked-for")
}

func schedReplay(keep func(string) bool) func(c schedCase) *fail {
	return func(c schedCase) *fail {
		f := runSchedCaseKeep(c, nil, keep)
		if f != nil && keep != nil && !strings.HasPrefix(f.Sig, "harness-") && !keep(f.Sig) {
			return nil
		}
		return f
	}
}

func init() {
	replayRegistrars = append(replayRegistrars, func() {
		registerReplay("C07/scheduled", schedReplay(nil))
		registerReplay("C05/scheduled", schedReplay(keepC05))
		registerReplay("C06/scheduled", schedReplay(keepC06))
		registerReplay("C08/scheduled", schedReplay(keepC08))
		registerReplay("C09/scheduled", schedReplay(keepC09))
	})
}
