package checks

import (
	"fmt"
	"runtime"
	"sort"
	"strings"
	"time"

	"p9verif/memfs"
	"p9verif/memtree"
	"p9verif/peers"
	"p9verif/refcodec"
	"p9verif/refmodel"

	"github.com/hugelgupf/p9/p9"
)

// world is one server with an instrumented backend, a reference model and
// one or more lock-step raw connections.
type world struct {
	fs    *memfs.FS
	srv   *p9.Server
	model *refmodel.Model
	conns []*peers.Session
	msize uint32

	// learned from the call log
	parent        map[int]int      // handle -> parent handle (0 = none)
	fidHandle     []map[uint32]int // per connection: fid -> handle
	xrOrigin      map[int]int      // xattr fid serial -> origin handle (shares the File)
	steps         []stepRec
	tagNext       uint16
	life          bool
	closed        bool
	srcParentless bool
	faultErr      *errSpec
	faultSeen     bool        // the injected fault has struck
	faultCall     *memfs.Call // where
	faultReq      *refcodec.Msg
	panicked      bool // the fault was a panic: only liveness is asserted afterwards
	faultAfterOK  int  // backend calls of the faulted request that had succeeded before the fault
	// desync: a request whose outcome the properties leave open succeeded and
	// may have changed the backend tree in a way the model does not predict;
	// the rest of the session is not judged.
	desync bool
}

func mutating(t uint8) bool {
	switch t {
	case refcodec.Tlcreate, refcodec.Tucreate, refcodec.Tmkdir, refcodec.Tumkdir, refcodec.Tsymlink, refcodec.Tusymlink,
		refcodec.Tmknod, refcodec.Tumknod, refcodec.Tlink, refcodec.Tunlinkat, refcodec.Trenameat, refcodec.Trename,
		refcodec.Tremove, refcodec.Tsetattr, refcodec.Tclunk, refcodec.Twrite:
		return true
	}
	return false
}

type stepRec struct {
	Conn int           `json:"conn"`
	Req  *refcodec.Msg `json:"req"`
	Rep  string        `json:"rep"`
}

type worldOpts struct {
	faultAt    int      // inject a fault at the k-th backend call made while a request is outstanding (0 = none)
	faultPanic bool     // the fault is a panic
	faultErr   *errSpec // the fault is this error value
	life       bool     // check the File lifecycle after every step (C05)
	conns      int
	native     bool
	monitor    bool
	msize      uint32
	version    string
	populate   func(t *memtree.Tree)
}

func newWorld(o worldOpts) (*world, *fail) {
	if o.conns == 0 {
		o.conns = 1
	}
	if o.msize == 0 {
		o.msize = 64 << 10
	}
	if o.version == "" {
		o.version = "9P2000.L.Google.7"
	}
	if o.populate == nil {
		o.populate = memtree.Populate
	}
	w := &world{fs: memfs.New(memfs.Options{NativeWalkGetAttr: o.native, Monitor: o.monitor}), msize: o.msize,
		parent: map[int]int{}, xrOrigin: map[int]int{}}
	w.life = o.life
	if o.faultAt > 0 {
		w.faultErr = o.faultErr
		if o.faultPanic {
			w.fs.FaultAtArmed(o.faultAt, memfs.Fault{Panic: true})
		} else {
			w.fs.FaultAtArmed(o.faultAt, memfs.Fault{Err: o.faultErr.build()})
		}
	}
	w.model = refmodel.New(o.conns)
	o.populate(w.fs.Tree)
	o.populate(w.model.Tree)
	w.srv = p9.NewServer(w.fs)
	for i := 0; i < o.conns; i++ {
		s := peers.Start(w.srv)
		w.conns = append(w.conns, s)
		w.fidHandle = append(w.fidHandle, map[uint32]int{})
		r, err := s.Version(o.msize, o.version)
		if err != nil || r.Type != refcodec.Rversion {
			return nil, failf("harness-version", "HARNESS-ERROR negotiation failed: %v %v", r, err)
		}
	}
	return w, nil
}

func (w *world) tag() uint16 {
	w.tagNext++
	if w.tagNext >= 0xfff0 {
		w.tagNext = 1
	}
	return w.tagNext
}

// stepResult is what one lock-step request produced.
type stepResult struct {
	rep     *refcodec.Msg
	exp     *refmodel.Expect
	verdict refmodel.Verdict
	calls   []memfs.Call
}

// do sends one request on a connection, judges the reply against the model
// and updates the handle bookkeeping from the backend's call log.
func (w *world) do(conn int, req *refcodec.Msg) (*stepResult, *fail) {
	if req.Tag == 0 {
		req.Tag = w.tag()
	}
	// a clone of an xattr fid has no parent on the server (its source has none)
	w.srcParentless = false
	if req.Type == refcodec.Twalk || req.Type == refcodec.Twalkgetattr {
		if pre := w.model.Get(conn, uint32(req.U("fid"))); pre != nil && pre.Opaque && pre.Root {
			w.srcParentless = true
		}
	}
	exp := w.model.Step(conn, req)
	before := w.fs.Seq()
	w.fs.Arm(true)
	raw, err := w.conns[conn].RPC(refcodec.Encode(req))
	w.fs.Arm(false)
	if err != nil {
		return nil, failf("no-reply:"+refcodec.Name(req.Type), "%s: no reply (%v); history: %s", req, err, w.history())
	}
	rep, derr := refcodec.DecodeStrict(raw)
	if derr != nil {
		return nil, failf("reply-undecodable:"+refcodec.Name(req.Type), "%s: reply %x does not decode strictly: %v", req, raw, derr)
	}
	calls := w.fs.LogSince(before)
	w.steps = append(w.steps, stepRec{conn, req, rep.String()})
	if w.panicked {
		// After a backend panic liveness is asserted - and that the damage does
		// not spread: the backend panics once, so a later request answered with
		// EFAULT means the server itself panicked while serving it.
		if rep.Type == refcodec.Rlerror && rep.U("ecode") == 14 {
			return nil, failf("efault-after-panic:"+refcodec.Name(req.Type), "%s was answered EFAULT although the backend did not panic during it: an earlier backend panic (in %s) left the server in a state in which it panics itself; history: %s", req, w.faultCall.String(), w.history())
		}
		return &stepResult{rep: rep, exp: exp, verdict: refmodel.Verdict{OK: true, Open: true}, calls: calls}, nil
	}
	if fc := w.fs.Fired(); fc != nil && !w.faultSeen {
		w.faultSeen, w.faultCall, w.faultReq = true, fc, req
		for _, c := range calls {
			if c.Seq < fc.Seq && c.Errno == 0 {
				w.faultAfterOK++
			}
		}
		return w.judgeFaulted(conn, req, rep, exp, calls, fc)
	}
	v := w.model.Judge(exp, rep)
	res := &stepResult{rep: rep, exp: exp, verdict: v, calls: calls}
	if !v.OK {
		return res, &fail{Sig: v.Sig, Msg: v.Msg + "; history: " + w.history()}
	}
	if exp.NoBackend && rep.Type == refcodec.Rlerror {
		for _, c := range calls {
			if c.Op != "Close" {
				return res, failf("backend-reached-by-rejected:"+refcodec.Name(req.Type), "%s was rejected (errno %d) but the backend saw %s; history: %s", req, rep.U("ecode"), c.String(), w.history())
			}
		}
	}
	if exp.AnyErr && mutating(req.Type) && exp.Why == "operation on an xattr-read fid" {
		w.desync = true
	}
	w.learn(conn, req, rep, calls)
	if w.life && !w.desync {
		if f := w.lifecycle(false); f != nil {
			return res, f
		}
	}
	return res, nil
}

// learn updates handle parents and fid->handle bindings from the call log.
func (w *world) learn(conn int, req *refcodec.Msg, rep *refcodec.Msg, calls []memfs.Call) {
	last := 0
	for _, c := range calls {
		switch c.Op {
		case "Attach":
			w.parent[c.New] = 0
			last = c.New
		case "Walk", "WalkGetAttr":
			if c.New == 0 {
				continue
			}
			if len(c.Names) == 0 {
				w.parent[c.New] = w.parent[c.Handle]
				if w.srcParentless {
					w.parent[c.New] = 0
				}
			} else {
				w.parent[c.New] = c.Handle
			}
			last = c.New
		case "Create":
			if c.New != 0 {
				w.parent[c.New] = c.Handle
				last = c.New
			}
		case "Renamed":
			w.parent[c.Handle] = c.Other
		}
	}
	ok := rep.Type != refcodec.Rlerror
	fh := w.fidHandle[conn]
	switch req.Type {
	case refcodec.Tattach:
		if ok {
			fh[uint32(req.U("fid"))] = last
		}
	case refcodec.Twalk, refcodec.Twalkgetattr:
		if ok {
			fh[uint32(req.U("newfid"))] = last
		}
	case refcodec.Tlcreate, refcodec.Tucreate:
		if ok {
			fh[uint32(req.U("fid"))] = last
		}
	case refcodec.Txattrwalk:
		if ok {
			// the xattr fid refers to the origin's File
			fh[uint32(req.U("newfid"))] = -fh[uint32(req.U("fid"))]
		}
	case refcodec.Tclunk, refcodec.Tremove:
		if w.model.Get(conn, uint32(req.U("fid"))) == nil {
			delete(fh, uint32(req.U("fid")))
		}
	}
}

// expectedOpen returns the set of handles that must still be open: those
// bound to fids and their ancestors.
func (w *world) expectedOpen() map[int]bool {
	open := map[int]bool{}
	for ci, fh := range w.fidHandle {
		for fid, h := range fh {
			if w.model.Get(ci, fid) == nil {
				continue
			}
			if h < 0 {
				h = -h // an xattr fid keeps its origin's File in use
			}
			for h != 0 && !open[h] {
				open[h] = true
				h = w.parent[h]
			}
		}
	}
	return open
}

// lifecycle checks the backend's per-handle counters against the expected
// open set (C05). final=true: nothing may remain open.
func (w *world) lifecycle(final bool) *fail {
	for _, a := range w.fs.Anomalies() {
		if a.Kind == "use-after-close" || a.Kind == "double-close" || a.Kind == "close-during-call" {
			return failf(a.Sig, "%s: %s; history: %s", a.Kind, a.A, w.history())
		}
	}
	open := map[int]bool{}
	if !final {
		open = w.expectedOpen()
	}
	for _, h := range w.fs.Handles() {
		if h.Closes > 1 {
			return failf("double-close", "handle h%d (%s) closed %d times; history: %s", h.ID, h.Path, h.Closes, w.history())
		}
		if open[h.ID] && h.Closed {
			return failf("closed-while-referenced", "handle h%d (%s) was closed although a fid (or a live child) still uses it; history: %s", h.ID, h.Path, w.history())
		}
		if !open[h.ID] && !h.Closed {
			if final {
				return failf("not-closed-at-teardown", "handle h%d (%s) was never closed although the connection ended; history: %s", h.ID, h.Path, w.history())
			}
			return failf("leaked-handle", "handle h%d (%s) is referenced by no fid and no live child but was not closed; history: %s", h.ID, h.Path, w.history())
		}
	}
	return nil
}

// closeAll ends every connection and waits for Handle to return.
func (w *world) closeAll() *fail {
	for i, s := range w.conns {
		if !s.Close(20 * time.Second) {
			return failf("handle-did-not-return", "Server.Handle did not return within 20s after the request stream ended (connection %d); history: %s", i, w.history())
		}
	}
	if w.life && !w.closed {
		w.closed = true
		if f := w.lifecycle(true); f != nil {
			return f
		}
		if n, stack := serverGoroutines(5 * time.Second); n > 0 {
			return failf("goroutine-left-behind", "%d server goroutine(s) still alive after Handle returned: %s; history: %s", n, stack, w.history())
		}
	}
	return nil
}

// serverGoroutines polls until no goroutine of the server's connection
// handling is left (or the deadline passes) and returns how many remain.
func serverGoroutines(d time.Duration) (int, string) {
	deadline := time.Now().Add(d)
	for {
		buf := make([]byte, 1<<20)
		buf = buf[:runtime.Stack(buf, true)]
		n := 0
		sample := ""
		for _, g := range strings.Split(string(buf), "\n\n") {
			if strings.Contains(g, "p9.(*connState)") || strings.Contains(g, "p9.(*Server).Handle") {
				n++
				if sample == "" {
					sample = g
				}
			}
		}
		if n == 0 || time.Now().After(deadline) {
			if len(sample) > 1500 {
				sample = sample[:1500]
			}
			return n, sample
		}
		time.Sleep(2 * time.Millisecond)
	}
}

func (w *world) history() string {
	var b strings.Builder
	n := len(w.steps)
	start := 0
	if n > 40 {
		start = n - 40
		fmt.Fprintf(&b, "…(%d earlier) ", start)
	}
	for _, s := range w.steps[start:] {
		fmt.Fprintf(&b, "[c%d %s => %s] ", s.Conn, s.Req, s.Rep)
	}
	return b.String()
}

// probeFids sends Tgetattr on each fid number and checks bound/unbound
// agreement with the model (EBADF iff unbound).
func (w *world) probeFids(conn int, fids []uint32) *fail {
	for _, fid := range fids {
		req := refcodec.New(refcodec.Tgetattr, w.tag(), "fid", fid, "request_mask", 0x7ff)
		raw, err := w.conns[conn].RPC(refcodec.Encode(req))
		if err != nil {
			return failf("no-reply:probe", "probe Tgetattr(fid %d): %v; history: %s", fid, err, w.history())
		}
		code, isErr := refcodec.Errno(raw)
		bound := w.model.Bound(conn, fid)
		if bound && isErr && code == refmodel.EBADF {
			return failf("fid-should-be-bound", "fid %d is bound in the session model but the server answers EBADF; history: %s", fid, w.history())
		}
		if !bound && !(isErr && code == refmodel.EBADF) {
			return failf("fid-should-be-unbound", "fid %d is unbound in the session model but the server does not answer EBADF (reply %x); history: %s", fid, raw, w.history())
		}
	}
	return nil
}

func sortedKeys(m map[string]int) []string {
	var l []string
	for k := range m {
		l = append(l, k)
	}
	sort.Strings(l)
	return l
}

// judgeFaulted judges the reply to the request during which the injected
// fault struck (C15).
func (w *world) judgeFaulted(conn int, req, rep *refcodec.Msg, exp *refmodel.Expect, calls []memfs.Call, fc *memfs.Call) (*stepResult, *fail) {
	res := &stepResult{rep: rep, exp: exp, calls: calls, verdict: refmodel.Verdict{OK: true}}
	name := refcodec.Name(req.Type)
	where := fmt.Sprintf("%s during %s", fc.String(), req)
	if w.faultErr == nil {
		// panic
		w.panicked = true
		if rep.Type != refcodec.Rlerror || rep.U("ecode") != 14 {
			return res, failf("panic-not-efault:"+fc.Op, "backend panicked in %s; the request was answered %s instead of Rlerror(EFAULT); history: %s", where, rep, w.history())
		}
		return res, nil
	}
	want := w.faultErr.want()
	isErr := rep.Type == refcodec.Rlerror
	if fc.Op == "WalkGetAttr" && want == 38 {
		// ENOSYS from WalkGetAttr is the documented request to fall back to
		// Walk + GetAttr, not a failure (other spellings of ENOSYS may be passed on)
		if isErr && rep.U("ecode") == 38 {
			exp.ApplyRejected()
			w.learn(conn, req, rep, calls)
			return res, nil
		}
		v := w.model.Judge(exp, rep)
		res.verdict = v
		if !v.OK {
			return res, &fail{Sig: v.Sig, Msg: v.Msg + "; history: " + w.history()}
		}
		w.learn(conn, req, rep, calls)
		return res, nil
	}
	if fc.Op == "Close" {
		// the File documentation lets the server ignore errors from Close
		if isErr && uint32(rep.U("ecode")) == want {
			// the operation itself ran; only the final Close failed
			exp.ApplyEffects()
			w.learn(conn, req, rep, calls)
			return res, nil
		}
		v := w.model.Judge(exp, rep)
		res.verdict = v
		if !v.OK {
			return res, &fail{Sig: v.Sig, Msg: v.Msg + " (a Close error was injected: " + where + "); history: " + w.history()}
		}
		w.learn(conn, req, rep, calls)
		return res, nil
	}
	if !isErr {
		return res, failf("backend-error-swallowed:"+fc.Op, "backend returned %s error (errno %d expected at the peer) in %s; the request was answered %s; history: %s", w.faultErr.Style, want, where, rep, w.history())
	}
	if uint32(rep.U("ecode")) != want {
		sig := fmt.Sprintf("errno-mapping:%s:%d->%d", w.faultErr.Style, want, rep.U("ecode"))
		return res, failf(sig, "backend returned a %s error carrying errno %d in %s; the peer saw errno %d; history: %s", w.faultErr.Style, want, where, rep.U("ecode"), w.history())
	}
	_ = name
	exp.ApplyRejected()
	w.learn(conn, req, rep, calls)
	if w.life {
		if f := w.lifecycle(false); f != nil {
			f.Msg += " (after the injected error in " + where + ")"
			return res, f
		}
	}
	return res, nil
}
