package checks

import (
	"fmt"
	"net"
	"os"
	"sync"
	"time"

	"p9verif/memfs"
	"p9verif/vconn"

	"github.com/hugelgupf/p9/p9"
	"golang.org/x/sys/unix"
)

// ioCutCase (C11): the connection dies in the middle of a chunk. The peer that
// is receiving (the client for reads, the server for writes) sits on a real
// socket; a relay in the harness forwards the other direction untouched and this
// one up to CutAt bytes of the operation's traffic, then closes the socket.
// Read: ReadAt must fail (a count n it reports must cover file bytes only).
// Write: whatever the backend was asked to store must be bytes the caller passed,
// at their offsets - a chunk that did not arrive completely is not stored.
type ioCutCase struct {
	Op    string `json:"op"` // read | write
	Msize uint32 `json:"msize"`
	Len   int    `json:"len"`
	Off   uint64 `json:"off"`
	CutAt int    `json:"cut_at"` // bytes of the receiving direction let through after the operation started; -1: no cut (measuring run)
}

func sockPairConns() (net.Conn, net.Conn, error) {
	fds, err := unix.Socketpair(unix.AF_UNIX, unix.SOCK_STREAM|unix.SOCK_CLOEXEC, 0)
	if err != nil {
		return nil, nil, err
	}
	var cs [2]net.Conn
	for i, fd := range fds {
		f := os.NewFile(uintptr(fd), "cutpair")
		c, err := net.FileConn(f)
		f.Close()
		if err != nil {
			return nil, nil, err
		}
		cs[i] = c
	}
	return cs[0], cs[1], nil
}

// runIOCutCase returns the number of bytes the cut direction carried during the
// operation (for choosing cut points) and the verdict.
func runIOCutCase(c ioCutCase) (int, *fail) {
	fs := memfs.New(memfs.Options{NativeWalkGetAttr: true})
	f0, _ := fs.Tree.Create(fs.Tree.Root, "f", 0o644, 0, 0)
	const fileSize = 300000
	orig := make([]byte, fileSize)
	for i := range orig {
		orig[i] = initialByte(uint64(i))
	}
	f0.WriteAt(orig, 0)
	srv := p9.NewServer(fs)

	// client <-socket-> relay <-socket-> server
	cc, rc, err := sockPairConns()
	if err != nil {
		return 0, failf("harness-sock", "HARNESS-ERROR %v", err)
	}
	rs, sc, err := sockPairConns()
	if err != nil {
		return 0, failf("harness-sock", "HARNESS-ERROR %v", err)
	}
	srvDone := make(chan struct{})
	go func() { srv.Handle(sc, sc); close(srvDone) }()
	var mu sync.Mutex
	counting, carried, cutDone := false, 0, false
	closeAll := func() { rc.Close(); rs.Close() }
	relay := func(dst, src net.Conn, cutDir bool) {
		buf := make([]byte, 32<<10)
		for {
			n, err := src.Read(buf)
			if n > 0 {
				out := buf[:n]
				mu.Lock()
				if cutDir && counting && !cutDone {
					if c.CutAt >= 0 && carried+n >= c.CutAt {
						out = out[:c.CutAt-carried]
						cutDone = true
					}
					carried += len(out)
				}
				cd := cutDone
				mu.Unlock()
				if len(out) > 0 {
					dst.Write(out)
				}
				if cd && cutDir {
					closeAll()
					return
				}
			}
			if err != nil {
				closeAll()
				return
			}
		}
	}
	go relay(rs, rc, c.Op == "write") // client -> server
	go relay(rc, rs, c.Op == "read")  // server -> client
	cl, err := p9.NewClient(cc, p9.WithMessageSize(c.Msize))
	defer func() {
		cc.Close()
		closeAll()
		select {
		case <-srvDone:
		case <-time.After(10 * time.Second):
		}
		sc.Close()
	}()
	if err != nil {
		return 0, failf("harness-dial", "HARNESS-ERROR %v", err)
	}
	root, err := cl.Attach("")
	if err != nil {
		return 0, failf("harness-attach", "HARNESS-ERROR %v", err)
	}
	_, f, err := root.Walk([]string{"f"})
	if err != nil {
		return 0, failf("harness-walk", "HARNESS-ERROR %v", err)
	}
	if _, _, err := f.Open(p9.ReadWrite); err != nil {
		return 0, failf("harness-open", "HARNESS-ERROR %v", err)
	}
	what := fmt.Sprintf("%s of %d bytes at offset %d, msize %d, connection cut after %d bytes of the %s direction", c.Op, c.Len, c.Off, c.Msize, c.CutAt, map[string]string{"read": "server-to-client", "write": "client-to-server"}[c.Op])
	mu.Lock()
	counting = true
	mu.Unlock()
	type res struct {
		n   int
		err error
	}
	done := make(chan res, 1)
	buf := make([]byte, c.Len)
	if c.Op == "read" {
		for i := range buf {
			buf[i] = 0x55 // never a file byte (those have the top bit set)
		}
		go func() { n, err := f.ReadAt(buf, int64(c.Off)); done <- res{n, err} }()
	} else {
		for i := range buf {
			buf[i] = byte(i)&0x7f | 1 // never an original byte, never zero
		}
		go func() { n, err := f.WriteAt(buf, int64(c.Off)); done <- res{n, err} }()
	}
	var r res
	select {
	case r = <-done:
	case <-time.After(30 * time.Second):
		return 0, failf("client-call-hangs:cut", "%s: the call did not return", what)
	}
	mu.Lock()
	total, wasCut := carried, cutDone
	mu.Unlock()
	if c.CutAt < 0 {
		if r.err != nil || r.n != c.Len {
			return total, failf("harness-measure", "HARNESS-ERROR uncut %s: n=%d err=%v", what, r.n, r.err)
		}
		return total, nil
	}
	if c.Op == "read" {
		if wasCut && r.err == nil {
			return total, failf("cut-connection-read-succeeds", "%s: ReadAt returned n=%d and no error although the reply stream ended inside a frame", what, r.n)
		}
		for i := 0; i < r.n && i < len(buf); i++ {
			if buf[i] != orig[int(c.Off)+i] {
				return total, failf("cut-connection-read-data", "%s: ReadAt reports n=%d (err %v) but byte %d of the buffer is %#x, the file holds %#x", what, r.n, r.err, i, buf[i], orig[int(c.Off)+i])
			}
		}
		return total, nil
	}
	// write: wait for the server to finish, then look at the file
	cc.Close()
	closeAll()
	select {
	case <-srvDone:
	case <-time.After(20 * time.Second):
		return total, failf("handle-did-not-return:cut", "%s: Handle did not return", what)
	}
	now := make([]byte, fileSize+c.Len)
	m := f0.ReadAt(now, 0)
	for i := 0; i < m; i++ {
		want := byte(0)
		if i < fileSize {
			want = orig[i]
		}
		if now[i] == want {
			continue
		}
		j := i - int(c.Off)
		if j >= 0 && j < c.Len && now[i] == buf[j] {
			continue
		}
		return total, failf("cut-connection-write-stored-unsent-bytes", "%s: byte %d of the file is now %#x - neither what it was (%#x) nor what the caller passed for it; a chunk that did not arrive completely was stored", what, i, now[i], want)
	}
	return total, nil
}

var _ = vconn.Pipe
