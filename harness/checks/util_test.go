package checks

import (
	"time"

	"p9verif/vconn"

	"github.com/hugelgupf/p9/linux"
	"github.com/hugelgupf/p9/p9"
)

// nullAttacher refuses every attach (for checks that never attach).
type nullAttacher struct{}

func (nullAttacher) Attach() (p9.File, error) { return nil, linux.ENOENT }

// dialPipe connects a real p9.Client to srv over an in-memory duplex.
func dialPipe(srv *p9.Server, opts ...p9.ClientOpt) (*p9.Client, func(), error) {
	a, b := vconn.Pipe()
	done := make(chan struct{})
	go func() {
		srv.Handle(b, b)
		close(done)
	}()
	c, err := p9.NewClient(a, opts...)
	closeFn := func() {
		a.Close()
		select {
		case <-done:
		case <-time.After(10 * time.Second):
		}
	}
	if err != nil {
		closeFn()
		return nil, func() {}, err
	}
	return c, closeFn, nil
}
