package checks

import (
	"net"
	"os"
	"time"

	"p9verif/vconn"

	"golang.org/x/sys/unix"

	"github.com/hugelgupf/p9/linux"
	"github.com/hugelgupf/p9/p9"
)

// nullAttacher refuses every attach (for checks that never attach).
type nullAttacher struct{}

func (nullAttacher) Attach() (p9.File, error) { return nil, linux.ENOENT }

// dialPipe connects a real p9.Client to srv over an in-memory duplex.
func dialPipe(srv *p9.Server, opts ...p9.ClientOpt) (*p9.Client, func(), error) {
	a, b := vconn.Pipe()
	done := make(chan struct{})
	go func() {
		srv.Handle(b, b)
		close(done)
	}()
	c, err := p9.NewClient(a, opts...)
	closeFn := func() {
		a.Close()
		select {
		case <-done:
		case <-time.After(10 * time.Second):
		}
	}
	if err != nil {
		closeFn()
		return nil, func() {}, err
	}
	return c, closeFn, nil
}

// dialSock is dialPipe over a real AF_UNIX stream socket pair (both peers then
// receive through the vectorised recvmsg path); bufsize > 0 sets the kernel's
// send and receive buffers of both ends, so that large frames arrive in pieces.
func dialSock(srv *p9.Server, bufsize int, opts ...p9.ClientOpt) (*p9.Client, func(), error) {
	fds, err := unix.Socketpair(unix.AF_UNIX, unix.SOCK_STREAM|unix.SOCK_CLOEXEC, 0)
	if err != nil {
		return nil, func() {}, err
	}
	var conns [2]net.Conn
	for i, fd := range fds {
		if bufsize > 0 {
			unix.SetsockoptInt(fd, unix.SOL_SOCKET, unix.SO_SNDBUF, bufsize)
			unix.SetsockoptInt(fd, unix.SOL_SOCKET, unix.SO_RCVBUF, bufsize)
		}
		f := os.NewFile(uintptr(fd), "sockpair")
		c, err := net.FileConn(f)
		f.Close()
		if err != nil {
			return nil, func() {}, err
		}
		conns[i] = c
	}
	done := make(chan struct{})
	go func() {
		srv.Handle(conns[1], conns[1])
		close(done)
	}()
	c, err := p9.NewClient(conns[0], opts...)
	closeFn := func() {
		conns[0].Close()
		select {
		case <-done:
		case <-time.After(10 * time.Second):
		}
		conns[1].Close()
	}
	if err != nil {
		closeFn()
		return nil, func() {}, err
	}
	return c, closeFn, nil
}
