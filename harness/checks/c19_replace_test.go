package checks

import (
	"fmt"
	"os"
	"path/filepath"

	"github.com/hugelgupf/p9/fsimpl/composefs"
	"github.com/hugelgupf/p9/fsimpl/localfs"
	"github.com/hugelgupf/p9/fsimpl/staticfs"
	"github.com/hugelgupf/p9/p9"
)

// replaceCase (C19): the entries of a composed root are mounts; what a mount is
// backed by may be replaced while the file system is in use (a directory removed
// and made again, a file replaced by rename, a file that becomes a directory).
// After every step the root is listed and every listed entry's QID and type must
// equal what Walk to that name and GetAttr on it report - then, not when the
// composition was made.
type replaceCase struct {
	Server bool     `json:"through_server"`
	Steps  []string `json:"steps"` // replace-dir | replace-file | file-to-dir | dir-to-file | touch | list
	Count  uint32   `json:"count"`
}

func runReplaceCase(c replaceCase) *fail {
	tmp, err := os.MkdirTemp("", "p9verif-replace")
	if err != nil {
		return failf("harness-tmp", "HARNESS-ERROR %v", err)
	}
	defer os.RemoveAll(tmp)
	dirPath, filePath := filepath.Join(tmp, "d"), filepath.Join(tmp, "x")
	os.Mkdir(dirPath, 0o755)
	os.WriteFile(filepath.Join(dirPath, "inside"), []byte("i"), 0o644)
	os.WriteFile(filePath, []byte("x"), 0o644)
	la := localfs.Attacher(tmp)
	lroot, err := la.Attach()
	if err != nil {
		return failf("harness-attach", "HARNESS-ERROR %v", err)
	}
	_, lfile, err := lroot.Walk([]string{"x"})
	if err != nil {
		return failf("harness-walk", "HARNESS-ERROR %v", err)
	}
	cfs, err := composefs.New(composefs.WithFile("top", staticfs.ReadOnlyFile("t")), composefs.WithMount("mnt", localfs.Attacher(dirPath)), composefs.WithFile("lf", lfile))
	if err != nil {
		return failf("harness-compose", "HARNESS-ERROR %v", err)
	}
	var root p9.File
	if c.Server {
		cl, closeFn, err := dialPipe(p9.NewServer(cfs))
		if err != nil {
			return failf("harness-dial", "HARNESS-ERROR %v", err)
		}
		defer closeFn()
		root, err = cl.Attach("")
		if err != nil {
			return failf("harness-attach", "HARNESS-ERROR %v", err)
		}
	} else {
		root, err = cfs.Attach()
		if err != nil {
			return failf("harness-attach", "HARNESS-ERROR %v", err)
		}
	}
	defer root.Close()
	gen := 0
	check := func(after string) *fail {
		_, l, err := root.Walk(nil)
		if err != nil {
			return failf("harness-clone", "HARNESS-ERROR %v", err)
		}
		defer l.Close()
		if _, _, err := l.Open(p9.ReadOnly); err != nil {
			return failf("harness-open", "HARNESS-ERROR %v", err)
		}
		seen := map[string]bool{}
		off := uint64(0)
		for iter := 0; iter < 20; iter++ {
			ents, err := l.Readdir(off, c.Count)
			if err != nil {
				return failf("readdir-error:composed-root", "listing the composed root after %s: %v", after, err)
			}
			if len(ents) == 0 {
				break
			}
			for _, e := range ents {
				seen[e.Name] = true
				qs, f2, err := root.Walk([]string{e.Name})
				if err != nil || len(qs) != 1 {
					return failf("walk-to-listed-entry-failed:composed-root", "after %s: Walk(%q): %v", after, e.Name, err)
				}
				q, _, attr, err := f2.GetAttr(p9.AttrMaskAll)
				f2.Close()
				if err != nil {
					return failf("getattr-of-listed-entry-failed:composed-root", "after %s: GetAttr(%q): %v", after, e.Name, err)
				}
				wantType := uint8(0)
				switch uint32(attr.Mode) & 0o170000 {
				case 0o040000:
					wantType = 0x80
				case 0o120000:
					wantType = 0x02
				}
				if e.QID != qs[0] || e.QID != q {
					return failf("qid-disagreement:composed-root", "after %s (steps %v, through server %v): entry %q is listed with QID %v, Walk returns %v, GetAttr returns %v", after, c.Steps, c.Server, e.Name, e.QID, qs[0], q)
				}
				if uint8(e.Type) != wantType || uint8(q.Type) != wantType {
					return failf("type-disagreement:composed-root", "after %s (steps %v): entry %q is listed with type %#x, its QID has type %#x, its mode %#o means %#x", after, c.Steps, e.Name, uint8(e.Type), uint8(q.Type), uint32(attr.Mode), wantType)
				}
			}
			off = ents[len(ents)-1].Offset
		}
		for _, n := range []string{"top", "mnt", "lf"} {
			if !seen[n] {
				return failf("listing-incomplete:composed-root", "after %s: %q is not listed", after, n)
			}
		}
		return nil
	}
	if f := check("the composition was made"); f != nil {
		return f
	}
	keep := func(p string) { // the old object stays alive: its inode number is not given out again
		gen++
		os.Rename(p, fmt.Sprintf("%s.old%d", p, gen))
	}
	for i, st := range c.Steps {
		switch st {
		case "replace-dir":
			keep(dirPath)
			os.Mkdir(dirPath, 0o755)
		case "replace-file":
			keep(filePath)
			os.WriteFile(filePath, []byte("new"), 0o644)
		case "file-to-dir":
			keep(filePath)
			os.Mkdir(filePath, 0o755)
		case "dir-to-file":
			keep(dirPath)
			os.WriteFile(dirPath, []byte("now a file"), 0o644)
		case "touch":
			os.WriteFile(filepath.Join(tmp, fmt.Sprintf("other%d", i)), nil, 0o644)
		}
		if f := check(fmt.Sprintf("step %d (%s)", i, st)); f != nil {
			return f
		}
	}
	return nil
}
