package checks

import (
	"bytes"
	"encoding/binary"
	"errors"
	"fmt"
	"runtime"
	"strings"
	"sync"
	"sync/atomic"
	"testing"
	"time"

	"p9verif/evid"
	"p9verif/peers"
	"p9verif/refcodec"

	"github.com/hugelgupf/p9/linux"
	"github.com/hugelgupf/p9/p9"
	"pgregory.net/rapid"
)

// ---------------------------------------------------------------------------
// C10 — client multiplexing

type muxCase struct {
	Calls []string `json:"calls"` // one per goroutine: getattr | walk | walkfail | statfs | read | closeok | closefail
	Order []int    `json:"order"` // reply order (indices into the arrival order); missing indices are answered last in order
	Fault string   `json:"fault"` // "" | close | partial | garbage | unknown-tag | wrong-type | bad-size | write-fail | write-fail-once
	K     int      `json:"k"`     // position of the fault (number of replies sent before it / index of the failing Write)
	After int      `json:"after"` // calls issued after the batch (and after the fault)
}

type muxStats struct {
	inFlight         int
	nonFIFO          bool
	faultWithPending bool
}

// fakeTracker is the fake server's view of fid bindings and outstanding tags.
type fakeTracker struct {
	bound  map[uint64]bool
	out    map[uint16]bool
	strict bool // also judge requests that name a fid the server does not have bound
}

func (t *fakeTracker) onRequest(m *refcodec.Msg) *fail {
	if m.Tag == refcodec.NOTAG && m.Type != refcodec.Tversion {
		return failf("client-used-notag", "request %s was sent with NOTAG", m)
	}
	if t.out[m.Tag] {
		return failf("duplicate-outstanding-tag", "request %s re-uses tag %d while an earlier request with it is unanswered", m, m.Tag)
	}
	t.out[m.Tag] = true
	if t.strict {
		// every fid a request names is one the server has bound (the client does not
		// go on using, or clunk a second time, a fid it gave up)
		for _, k := range []string{"fid", "dfid", "olddirfid", "newdirfid"} {
			if v, ok := m.F[k]; ok && m.Type != refcodec.Tattach && m.Type != refcodec.Tauth {
				if f, ok := v.(uint64); ok && f != refcodec.NOFID && !t.bound[f] {
					return failf("request-on-unbound-fid", "request %s names fid %d, which the server does not have bound (it was clunked or removed, or never bound)", m, f)
				}
			}
		}
	}
	var nf uint64
	binding := false
	switch m.Type {
	case refcodec.Tattach:
		nf, binding = m.U("fid"), true
	case refcodec.Twalk, refcodec.Twalkgetattr, refcodec.Txattrwalk:
		nf, binding = m.U("newfid"), true
	}
	if binding {
		if nf == refcodec.NOFID {
			return failf("client-used-nofid", "request %s binds NOFID", m)
		}
		if t.bound[nf] {
			return failf("fid-reused-while-bound", "request %s binds fid %d, which the server still has bound (its clunk/remove was not confirmed, or it is being bound by another request)", m, nf)
		}
		t.bound[nf] = true // from now on until refused or released
	}
	return nil
}

// onReply updates the tracker when the fake sends a reply.
func (t *fakeTracker) onReply(req *refcodec.Msg, ok bool) {
	delete(t.out, req.Tag)
	switch req.Type {
	case refcodec.Tattach:
		if !ok {
			delete(t.bound, req.U("fid"))
		}
	case refcodec.Twalk, refcodec.Twalkgetattr, refcodec.Txattrwalk:
		if !ok {
			delete(t.bound, req.U("newfid"))
		}
	case refcodec.Tclunk, refcodec.Tremove:
		if ok {
			delete(t.bound, req.U("fid"))
		}
	}
}

func marker(m *refcodec.Msg) uint64 {
	return uint64(m.Tag)<<48 | evid.Hash64(refcodec.EncodeBody(m))&0xffffffffffff
}

func runMuxCase(c muxCase, st *muxStats) *fail {
	fk := peers.NewFake()
	defer fk.Close()
	tr := &fakeTracker{bound: map[uint64]bool{}, out: map[uint16]bool{}}
	// lock-step setup handled inline
	type cres struct {
		cl  *p9.Client
		f   p9.File
		err error
	}
	cch := make(chan cres, 1)
	go func() {
		cl, err := p9.NewClient(fk.Client)
		if err != nil {
			cch <- cres{err: err}
			return
		}
		f, err := cl.Attach("")
		cch <- cres{cl, f, err}
	}()
	for i := 0; i < 2; i++ {
		raw, err := fk.Next(20 * time.Second)
		if err != nil {
			return failf("harness-setup", "HARNESS-ERROR %v", err)
		}
		m, _ := refcodec.DecodeStrict(raw)
		if f := tr.onRequest(m); f != nil {
			return f
		}
		fk.Reply(peers.GenericReply(m, 0))
		tr.onReply(m, true)
	}
	cr := <-cch
	if cr.err != nil {
		return failf("harness-setup", "HARNESS-ERROR %v", cr.err)
	}
	root := cr.f
	defer runtime.KeepAlive(root)
	// pre-create the files that closeok / closefail calls will close
	var keep []p9.File
	defer func() { runtime.KeepAlive(&keep) }()
	pre := map[int]p9.File{}
	preFid := map[uint64]int{} // fid on the wire -> call index that will close it
	for i, k := range c.Calls {
		if k == "closeok" || k == "closefail" {
			done := make(chan p9.File, 1)
			go func() {
				_, f, _ := root.Walk(nil)
				done <- f
			}()
			raw, err := fk.Next(20 * time.Second)
			if err != nil {
				return failf("harness-setup", "HARNESS-ERROR %v", err)
			}
			m, _ := refcodec.DecodeStrict(raw)
			if f := tr.onRequest(m); f != nil {
				return f
			}
			fk.Reply(peers.GenericReply(m, 0))
			tr.onReply(m, true)
			preFid[m.U("newfid")] = i
			pre[i] = <-done
			keep = append(keep, pre[i])
		}
	}
	if c.Fault == "write-fail" {
		fk.Client.Out.FailWritesFrom(fk.Client.Out.Writes() + 1 + c.K)
	}
	if c.Fault == "write-fail-once" {
		fk.Client.Out.FailWriteAt(fk.Client.Out.Writes() + 1 + c.K)
	}
	type outcome struct {
		err  error
		mark uint64 // what the call read back
		mask uint64 // identifies the call
		done bool
	}
	outs := make([]outcome, len(c.Calls)+c.After)
	var omu sync.Mutex
	var wg sync.WaitGroup
	issue := func(i int, kind string) {
		defer wg.Done()
		var o outcome
		switch kind {
		case "getattr", "statfs", "read":
			q, _, _, err := root.GetAttr(maskP(uint16(i + 1)))
			o = outcome{err: err, mark: q.Path, mask: uint64(i + 1)}
		case "walk", "walkfail":
			qs, nf, err := root.Walk([]string{fmt.Sprintf("n%d", i)})
			if nf != nil {
				omu.Lock()
				keep = append(keep, nf)
				omu.Unlock()
			}
			o = outcome{err: err, mask: uint64(i + 1)}
			if len(qs) == 1 {
				o.mark = qs[0].Path
			}
		case "closeok", "closefail":
			err := pre[i].Close()
			o = outcome{err: err, mask: uint64(i + 1)}
		}
		o.done = true
		omu.Lock()
		outs[i] = o
		omu.Unlock()
	}
	for i, k := range c.Calls {
		wg.Add(1)
		go issue(i, k)
	}
	// collect the batch
	type pend struct {
		req  *refcodec.Msg
		call int
	}
	var batch []pend
	deadline := 20 * time.Second
	if c.Fault == "write-fail" || c.Fault == "write-fail-once" {
		deadline = 300 * time.Millisecond
	}
	for len(batch) < len(c.Calls) {
		raw, err := fk.Next(deadline)
		if err != nil {
			if c.Fault == "write-fail" || c.Fault == "write-fail-once" {
				break // some requests never made it
			}
			return failf("harness-batch", "HARNESS-ERROR only %d of %d requests arrived: %v", len(batch), len(c.Calls), err)
		}
		m, derr := refcodec.DecodeStrict(raw)
		if derr != nil {
			if c.Fault == "write-fail" || c.Fault == "write-fail-once" {
				break // the stream is corrupt after a failed write, as expected
			}
			return failf("client-wrote-bad-frame", "the client wrote a frame the reference codec rejects: %x (%v)", raw, derr)
		}
		if f := tr.onRequest(m); f != nil {
			return f
		}
		call := -1
		switch m.Type {
		case refcodec.Tgetattr:
			call = int(m.U("request_mask")) - 1
		case refcodec.Twalk:
			fmt.Sscanf(m.Strs("wnames")[0], "n%d", &call)
		case refcodec.Tclunk:
			if i, ok := preFid[m.U("fid")]; ok {
				call = i
			}
		}
		batch = append(batch, pend{m, call})
	}
	if st != nil {
		st.inFlight = len(batch)
	}
	// tags outstanding at once are pairwise distinct by construction of the tracker
	// answer in the chosen order
	order := []int{}
	used := map[int]bool{}
	for _, i := range c.Order {
		if i >= 0 && i < len(batch) && !used[i] {
			order = append(order, i)
			used[i] = true
		}
	}
	for i := range batch {
		if !used[i] {
			order = append(order, i)
		}
	}
	if st != nil {
		for k := 1; k < len(order); k++ {
			if order[k] < order[k-1] {
				st.nonFIFO = true
			}
		}
	}
	answered := map[int]bool{} // call index -> got a proper reply
	mustFail := map[int]bool{} // call index -> pending when an unacceptable frame / break happened
	expectMark := map[int]uint64{}
	broken := false
	sent := 0
	replyTo := func(p pend) {
		m := p.req
		ok := true
		var rep *refcodec.Msg
		switch m.Type {
		case refcodec.Tgetattr:
			a := refcodec.Attr{}
			rep = refcodec.New(refcodec.Rgetattr, m.Tag, "valid", 0x3fff, "qid", refcodec.QID{Path: marker(m)}, "attr", a)
		case refcodec.Twalk:
			if p.call >= 0 && c.Calls[p.call] == "walkfail" {
				rep, ok = refcodec.New(refcodec.Rlerror, m.Tag, "ecode", 1000+p.call), false // an errno of its own for every call
			} else {
				rep = refcodec.New(refcodec.Rwalk, m.Tag, "wqids", []refcodec.QID{{Path: marker(m)}})
			}
		case refcodec.Tclunk:
			if p.call >= 0 && c.Calls[p.call] == "closefail" {
				rep, ok = refcodec.New(refcodec.Rlerror, m.Tag, "ecode", 1000+p.call), false
			} else {
				rep = refcodec.New(refcodec.Rclunk, m.Tag)
			}
		default:
			rep = peers.GenericReply(m, 0)
		}
		tr.onReply(m, ok)
		fk.Reply(rep)
		if p.call >= 0 {
			answered[p.call] = true
			expectMark[p.call] = marker(m)
		}
	}
	faultAt := c.K
	if faultAt > len(order) {
		faultAt = len(order)
	}
	for pos, bi := range order {
		if c.Fault != "" && c.Fault != "write-fail" && c.Fault != "write-fail-once" && pos == faultAt && !broken {
			// everything still unanswered is pending at this moment
			pendingNow := 0
			for _, bj := range order[pos:] {
				if batch[bj].call >= 0 {
					mustFail[batch[bj].call] = true
					pendingNow++
				}
			}
			if st != nil && pendingNow > 0 {
				st.faultWithPending = true
			}
			victim := batch[bi].req
			switch c.Fault {
			case "close":
				fk.Close()
			case "partial":
				fr := refcodec.Encode(refcodec.New(refcodec.Rgetattr, victim.Tag, "valid", 1, "qid", refcodec.QID{}, "attr", refcodec.Attr{}))
				fk.Send(fr[:len(fr)/2])
				fk.Close()
			case "garbage":
				fr := refcodec.Encode(refcodec.New(refcodec.Rgetattr, victim.Tag, "valid", 1, "qid", refcodec.QID{}, "attr", refcodec.Attr{}))
				fr = fr[:40]
				binary.LittleEndian.PutUint32(fr, 40)
				fk.Send(fr)
			case "unknown-tag":
				fk.Reply(refcodec.New(refcodec.Rclunk, 0x6b6b))
			case "wrong-type":
				fk.Reply(refcodec.New(refcodec.Rstatfs, victim.Tag, "type", 1))
			case "bad-size":
				fr := refcodec.Encode(refcodec.New(refcodec.Rclunk, victim.Tag))
				binary.LittleEndian.PutUint32(fr, 3)
				fk.Send(fr)
			}
			broken = true
			break // the fake stays silent for the old tags
		}
		replyTo(batch[bi])
		sent++
	}
	if (c.Fault == "write-fail" || c.Fault == "write-fail-once") && len(batch) < len(c.Calls) {
		// requests were lost on the way: the connection is unusable; end it
		fk.Close()
		broken = true
	}
	// a frame with an impossible size field is a frame the client cannot accept;
	// the transport itself is still up, so only the then-pending calls must fail
	connDead := broken && (c.Fault == "close" || c.Fault == "partial" || c.Fault == "write-fail" || c.Fault == "write-fail-once")
	// wait for the batch to return
	waitAll := func(what string) *fail {
		done := make(chan struct{})
		go func() { wg.Wait(); close(done) }()
		select {
		case <-done:
			return nil
		case <-time.After(20 * time.Second):
			omu.Lock()
			var stuck []int
			for i := range outs {
				if i < len(c.Calls)+c.After && !outs[i].done {
					stuck = append(stuck, i)
				}
			}
			omu.Unlock()
			return failf("client-call-hangs:"+c.Fault, "%s: calls %v are still blocked 20 s after the fake server finished (fault %q at position %d, %d of %d requests had arrived, %d replies sent); case %+v", what, stuck, c.Fault, c.K, len(batch), len(c.Calls), sent, c)
		}
	}
	if f := waitAll("batch"); f != nil {
		return f
	}
	// later calls
	if c.After > 0 {
		stop := make(chan struct{})
		defer close(stop)
		if !connDead {
			go fk.Serve(stop, func(req *refcodec.Msg, raw []byte) []*refcodec.Msg {
				if req == nil {
					return nil
				}
				if req.Type == refcodec.Tgetattr {
					return []*refcodec.Msg{refcodec.New(refcodec.Rgetattr, req.Tag, "valid", 0x3fff, "qid", refcodec.QID{Path: marker(req)}, "attr", refcodec.Attr{})}
				}
				return []*refcodec.Msg{peers.GenericReply(req, 0)}
			})
		}
		for j := 0; j < c.After; j++ {
			wg.Add(1)
			go issue(len(c.Calls)+j, "getattr")
		}
		if f := waitAll("later calls"); f != nil {
			return f
		}
	}
	// judge
	omu.Lock()
	defer omu.Unlock()
	writeFault := c.Fault == "write-fail" || c.Fault == "write-fail-once"
	for i, k := range c.Calls {
		o := outs[i]
		if writeFault && len(batch) < len(c.Calls) {
			// a write that failed in the middle of a frame corrupts the request
			// stream: which request the fake saw can no longer be attributed, so
			// only "no call hangs" (above) and "later calls fail" (below) are asserted
			break
		}
		switch {
		case answered[i]:
			wantErr := k == "walkfail" || k == "closefail"
			if wantErr != (o.err != nil) {
				return failf("reply-not-delivered-to-its-caller", "call %d (%s) returned err=%v although its own reply (an %s) was sent; case %+v", i, k, o.err, map[bool]string{true: "error", false: "success"}[wantErr], c)
			}
			if wantErr && !errors.Is(o.err, linux.Errno(1000+i)) {
				return failf("call-received-another-calls-error", "call %d (%s) was refused with errno %d and returned %v (every refused call of the batch was given an errno of its own); case %+v", i, k, 1000+i, o.err, c)
			}
			if o.err == nil && (k == "getattr" || k == "statfs" || k == "read" || k == "walk") && o.mark != expectMark[i] {
				detail := ""
				for j := range c.Calls {
					detail += fmt.Sprintf(" [call %d %s err=%v mark=%#x want=%#x]", j, c.Calls[j], outs[j].err, outs[j].mark, expectMark[j])
				}
				for _, b := range batch {
					detail += fmt.Sprintf(" {req %s -> call %d}", b.req, b.call)
				}
				return failf("call-received-another-calls-data", "call %d (%s) read back marker %#x, its own request was answered with %#x; case %+v;%s", i, k, o.mark, expectMark[i], c, detail)
			}
		case mustFail[i] || connDead:
			if o.err == nil {
				return failf("pending-call-succeeded-after-fault:"+c.Fault, "call %d (%s) was pending when the fault (%s) happened and returned success; case %+v", i, k, c.Fault, c)
			}
		}
	}
	if connDead {
		for j := 0; j < c.After; j++ {
			if outs[len(c.Calls)+j].err == nil {
				return failf("later-call-succeeded-on-dead-connection", "a call issued after the connection broke (%s) returned success; case %+v", c.Fault, c)
			}
		}
	} else if !broken && c.Fault != "write-fail" && c.Fault != "write-fail-once" {
		for j := 0; j < c.After; j++ {
			o := outs[len(c.Calls)+j]
			if o.err != nil {
				return failf("later-call-failed", "a call issued after a clean batch failed: %v; case %+v", o.err, c)
			}
		}
	}
	return nil
}

func genMuxCase(rt *rapid.T, maxN int) muxCase {
	n := rapid.IntRange(1, maxN).Draw(rt, "n")
	c := muxCase{}
	idx := []int{}
	for i := 0; i < n; i++ {
		c.Calls = append(c.Calls, rapid.SampledFrom([]string{"getattr", "getattr", "walk", "walkfail", "closeok", "closefail", "statfs"}).Draw(rt, "call"))
		idx = append(idx, i)
	}
	c.Order = rapid.Permutation(idx).Draw(rt, "order")
	c.Fault = rapid.SampledFrom([]string{"", "", "close", "partial", "garbage", "unknown-tag", "wrong-type", "bad-size", "write-fail", "write-fail-once"}).Draw(rt, "fault")
	c.K = rapid.IntRange(0, n).Draw(rt, "k")
	if c.Fault == "write-fail" || c.Fault == "write-fail-once" {
		c.K = rapid.IntRange(0, 2*n).Draw(rt, "wk")
	}
	c.After = rapid.IntRange(0, 3).Draw(rt, "after")
	return c
}

// --- stale completions: a failed send must not leave anything behind -------------------------

type staleCase struct {
	Later int    `json:"later"` // calls issued afterwards
	Bad   string `json:"bad"`   // unacceptable frame sent to the first later call: unknown-tag | garbage | wrong-type
}

// runStaleCase: two concurrent calls, the first write of whichever sends first
// fails (nothing reaches the wire, the stream stays intact), the other call is
// answered normally. Then an unacceptable frame is sent while a third call is
// pending, and further calls follow, each answered properly. No call may hang,
// read back another call's marker, or re-use a tag that is still unanswered.
func runStaleCase(c staleCase) *fail {
	fk := peers.NewFake()
	defer fk.Close()
	tr := &fakeTracker{bound: map[uint64]bool{}, out: map[uint16]bool{}}
	stop := make(chan struct{})
	defer close(stop)
	var mu sync.Mutex
	var bad *fail
	poison := false
	expect := map[uint64]uint64{} // request mask -> marker sent
	go fk.Serve(stop, func(req *refcodec.Msg, raw []byte) []*refcodec.Msg {
		if req == nil {
			return nil
		}
		mu.Lock()
		defer mu.Unlock()
		if f := tr.onRequest(req); f != nil && bad == nil {
			bad = f
		}
		tr.onReply(req, true)
		if req.Type != refcodec.Tgetattr {
			return []*refcodec.Msg{peers.GenericReply(req, 0)}
		}
		if poison {
			poison = false
			switch c.Bad {
			case "unknown-tag":
				return []*refcodec.Msg{refcodec.New(refcodec.Rclunk, 0x6b6b)}
			case "wrong-type":
				return []*refcodec.Msg{refcodec.New(refcodec.Rstatfs, req.Tag, "type", 1)}
			default:
				fk.Send(refcodec.Frame(99, req.Tag, []byte{1, 2, 3})) // unregistered type
				return nil
			}
		}
		expect[req.U("request_mask")] = marker(req)
		return []*refcodec.Msg{refcodec.New(refcodec.Rgetattr, req.Tag, "valid", 0x3fff, "qid", refcodec.QID{Path: marker(req)}, "attr", refcodec.Attr{})}
	})
	cl, err := p9.NewClient(fk.Client)
	if err != nil {
		return failf("harness-newclient", "HARNESS-ERROR %v", err)
	}
	root, err := cl.Attach("")
	if err != nil {
		return failf("harness-attach", "HARNESS-ERROR %v", err)
	}
	defer runtime.KeepAlive(root)
	type res struct {
		path uint64
		err  error
	}
	call := func(mask uint16) (res, bool) {
		ch := make(chan res, 1)
		go func() {
			q, _, _, err := root.GetAttr(maskP(mask))
			ch <- res{q.Path, err}
		}()
		select {
		case r := <-ch:
			return r, true
		case <-time.After(20 * time.Second):
			return res{}, false
		}
	}
	// step 1: several rounds of three concurrent calls; in each round the first
	// write of whichever call sends first fails (nothing reaches the wire)
	for round := 0; round < 8; round++ {
		fk.Client.Out.FailWriteAt(fk.Client.Out.Writes() + 1)
		var wg sync.WaitGroup
		first := make([]res, 3)
		var hung int32
		for i := 0; i < 3; i++ {
			wg.Add(1)
			go func(i int) {
				defer wg.Done()
				r, ok := call(uint16(100 + round*3 + i))
				if !ok {
					atomic.StoreInt32(&hung, 1)
				}
				first[i] = r
			}(i)
		}
		wg.Wait()
		if atomic.LoadInt32(&hung) != 0 {
			return failf("client-call-hangs:write-fail-once", "a call hung after a clean write failure of a concurrent call (round %d)", round)
		}
		nfail := 0
		for i, r := range first {
			if r.err != nil {
				nfail++
				continue
			}
			mu.Lock()
			want := expect[uint64(100+round*3+i)]
			mu.Unlock()
			if r.path != want {
				return failf("call-received-another-calls-data", "round %d: call %d read back marker %#x, its own request was answered with %#x (a concurrent call had failed to send)", round, i, r.path, want)
			}
		}
		if nfail != 1 {
			return failf("harness-stale", "HARNESS-ERROR expected exactly one failed send in round %d, got %d", round, nfail)
		}
	}
	// step 2: an unacceptable frame while a call is pending
	mu.Lock()
	poison = true
	mu.Unlock()
	if r, ok := call(3); !ok {
		return failf("client-call-hangs:"+c.Bad, "the call pending when an unacceptable frame (%s) arrived never returned (an earlier call of this client had failed to send)", c.Bad)
	} else if r.err == nil {
		return failf("pending-call-succeeded-after-fault:"+c.Bad, "the call pending when an unacceptable frame (%s) arrived returned success", c.Bad)
	}
	// step 3: later calls, each answered properly
	for j := 0; j < c.Later; j++ {
		mask := uint16(10 + j)
		r, ok := call(mask)
		if !ok {
			return failf("client-call-hangs:later", "later call %d never returned although it was answered", j)
		}
		mu.Lock()
		want, b := expect[uint64(mask)], bad
		mu.Unlock()
		if b != nil {
			b.Msg += " (after a failed send and an unacceptable frame)"
			return b
		}
		if r.err == nil && r.path != want {
			return failf("call-received-another-calls-data", "later call %d read back marker %#x, its own request was answered with %#x (an earlier call of this client had failed to send, then an unacceptable frame %q arrived)", j, r.path, want, c.Bad)
		}
	}
	return nil
}

// clientDied is the message recorded before a case whose failure mode may be the death of the process.
const clientDied = "the process died inside the client (a panic on a goroutine of the caller): no call may crash, each must return an error"

// --- a send fails while the reply to that very request is being received -----------------
//
// Call B is registered and blocked in its transport Write; the server (which
// cannot know that) sends a frame carrying B's tag, and the goroutine that is
// currently receiving (call A) has read its header and part of its body when
// B's Write fails. Then the rest of the frame arrives. Nothing may crash or
// hang, A must get its own data, and later calls must work.

type withdrawCase struct {
	Split int `json:"split"` // how many bytes of the frame with B's tag arrive before B's Write fails (7..frame length-1)
	Later int `json:"later"`
	// Early: instead, B's Write goes through but B is paused before the Write
	// returns; the server's reply to B arrives (and is read by A, the current
	// receiver) in the meantime. B must get that reply.
	Early bool `json:"early,omitempty"`
}

func runWithdrawCase(c withdrawCase) *fail {
	fk := peers.NewFake()
	defer fk.Close()
	next := func() (*refcodec.Msg, *fail) {
		raw, err := fk.Next(20 * time.Second)
		if err != nil {
			return nil, failf("harness-withdraw", "HARNESS-ERROR no request: %v", err)
		}
		m, derr := refcodec.DecodeStrict(raw)
		if derr != nil {
			return nil, failf("harness-withdraw", "HARNESS-ERROR request %x: %v", raw, derr)
		}
		return m, nil
	}
	rgetattr := func(tag uint16, mark uint64) *refcodec.Msg {
		return refcodec.New(refcodec.Rgetattr, tag, "valid", 0x3fff, "qid", refcodec.QID{Path: mark}, "attr", refcodec.Attr{})
	}
	type res struct {
		path uint64
		err  error
	}
	// version and attach are served by hand
	clch := make(chan *p9.Client, 1)
	go func() {
		cl, err := p9.NewClient(fk.Client)
		if err != nil {
			clch <- nil
			return
		}
		clch <- cl
	}()
	m, f := next()
	if f != nil {
		return f
	}
	fk.Reply(refcodec.New(refcodec.Rversion, m.Tag, "msize", m.U("msize"), "version", m.S("version")))
	cl := <-clch
	if cl == nil {
		return failf("harness-newclient", "HARNESS-ERROR NewClient failed")
	}
	rootch := make(chan p9.File, 1)
	go func() {
		r, _ := cl.Attach("")
		rootch <- r
	}()
	if m, f = next(); f != nil {
		return f
	}
	fk.Reply(peers.GenericReply(m, 0))
	root := <-rootch
	if root == nil {
		return failf("harness-attach", "HARNESS-ERROR attach failed")
	}
	defer runtime.KeepAlive(root)
	start := func(mask uint16) chan res {
		ch := make(chan res, 1)
		go func() {
			q, _, _, err := root.GetAttr(maskP(mask))
			ch <- res{q.Path, err}
		}()
		return ch
	}
	wait := func(ch chan res, d time.Duration) (res, bool) {
		select {
		case r := <-ch:
			return r, true
		case <-time.After(d):
			return res{}, false
		}
	}
	// warm-up: A then B outstanding together, answered B first, then A, so that
	// the tag pool hands out the same two tags in the same order next time
	chA := start(1)
	ma, f := next()
	if f != nil {
		return f
	}
	chB := start(2)
	mb, f := next()
	if f != nil {
		return f
	}
	fk.Reply(rgetattr(mb.Tag, 0xb0))
	if _, ok := wait(chB, 20*time.Second); !ok {
		return failf("client-call-hangs:warm-up", "a plain call did not return")
	}
	fk.Reply(rgetattr(ma.Tag, 0xa0))
	if _, ok := wait(chA, 20*time.Second); !ok {
		return failf("client-call-hangs:warm-up", "a plain call did not return")
	}
	// A is outstanding and receiving
	chA = start(3)
	ma2, f := next()
	if f != nil {
		return f
	}
	if c.Early {
		// a Tgetattr frame goes out in two Writes (header, body): pause after the second
		entered, release := fk.Client.Out.PauseAfterWriteAt(fk.Client.Out.Writes() + 2)
		defer release()
		chB = start(4)
		select {
		case <-entered:
		case <-time.After(20 * time.Second):
			return failf("harness-withdraw", "HARNESS-ERROR the second call never reached its Write")
		}
		mb2, f := next()
		if f != nil {
			return f
		}
		out := fk.Srv.Out
		fk.Reply(rgetattr(mb2.Tag, 0xb2))
		if !out.WaitConsumed(out.Written(), 20*time.Second) {
			return failf("harness-withdraw", "HARNESS-ERROR the receiving call did not take the reply")
		}
		time.Sleep(2 * time.Millisecond)
		release()
		rb, ok := wait(chB, 20*time.Second)
		if !ok {
			return failf("client-call-hangs:reply-before-write-returned", "a call whose reply arrived (and was read by the goroutine receiving at that moment) before its own Write had returned never came back")
		}
		if rb.err != nil || rb.path != 0xb2 {
			return failf("reply-lost:reply-before-write-returned", "a call whose reply arrived before its own Write had returned got (%#x, %v), its request was answered with 0xb2", rb.path, rb.err)
		}
		fk.Reply(rgetattr(ma2.Tag, 0xa2))
		ra, ok := wait(chA, 20*time.Second)
		if !ok {
			return failf("client-call-hangs:receiver", "the call that was receiving meanwhile never returned")
		}
		if ra.err != nil || ra.path != 0xa2 {
			return failf("reply-lost:receiver", "the call that was receiving meanwhile got (%#x, %v), its request was answered with 0xa2", ra.path, ra.err)
		}
		return nil
	}
	// B registers and blocks in its Write
	entered, release := fk.Client.Out.HoldWriteAt(fk.Client.Out.Writes() + 1)
	defer release()
	chB = start(4)
	select {
	case <-entered:
	case <-time.After(20 * time.Second):
		return failf("harness-withdraw", "HARNESS-ERROR the second call never reached its Write")
	}
	// the frame with B's (predicted) tag: header and a part of the body arrive
	frame := refcodec.Encode(rgetattr(mb.Tag, 0xbad))
	split := c.Split
	if split < 7 {
		split = 7
	}
	if split >= len(frame) {
		split = len(frame) - 1
	}
	out := fk.Srv.Out
	base := out.Written()
	out.SetCredit(base + split)
	fk.Send(frame)
	if !out.WaitBlockedAt(base+split, 20*time.Second) {
		return failf("harness-withdraw", "HARNESS-ERROR the receiving call did not take the first %d bytes", split)
	}
	// B's Write fails now
	release()
	rb, bReturned := wait(chB, 200*time.Millisecond)
	// the rest of the frame arrives
	out.SetCredit(-1)
	if !bReturned {
		var ok bool
		if rb, ok = wait(chB, 20*time.Second); !ok {
			return failf("client-call-hangs:failed-send", "the call whose Write failed never returned (a frame carrying its tag was being received at that moment)")
		}
	}
	if rb.err == nil {
		return failf("failed-send-succeeded", "the call whose request was never written returned success (marker %#x)", rb.path)
	}
	// A gets its own answer
	fk.Reply(rgetattr(ma2.Tag, 0xa2))
	ra, ok := wait(chA, 20*time.Second)
	if !ok {
		return failf("client-call-hangs:receiver", "the call that was receiving when a concurrent call failed to send never returned")
	}
	if ra.err == nil && ra.path != 0xa2 {
		return failf("call-received-another-calls-data", "the receiving call read back marker %#x, its own request was answered with 0xa2", ra.path)
	}
	// later calls: each gets its own answer or an error, none hangs
	for i := 0; i < c.Later; i++ {
		ch := start(uint16(10 + i))
		raw, err := fk.Next(2 * time.Second)
		if err == nil {
			if m, derr := refcodec.DecodeStrict(raw); derr == nil {
				fk.Reply(rgetattr(m.Tag, uint64(0x1000+i)))
			}
		}
		r, ok := wait(ch, 20*time.Second)
		if !ok {
			return failf("client-call-hangs:later", "call %d after the failed send never returned", i)
		}
		if r.err == nil && r.path != uint64(0x1000+i) {
			return failf("call-received-another-calls-data", "later call %d read back marker %#x, its own request was answered with %#x", i, r.path, 0x1000+i)
		}
	}
	return nil
}

// --- fid recycling: sequences of walk / close / remove with confirmed and refused outcomes ---

type fidCase struct {
	Ops []string `json:"ops"` // walk | walkfail | close:<i> | closefail:<i> | remove:<i> | xattr | xattr-read | xattr-readfail | xattr-walkfail | xattr-clunkfail | xattr-list | xattr-listfail | wga | wga-getattrfail | wga-bothfail | wga-walkfail
	// Offer is the version the fake server answers Tversion with ("" = the one the
	// client asked for): below 9P2000.L.Google.2 the client has no Twalkgetattr and
	// WalkGetAttr is a Twalk, a Tgetattr and, if that is refused, a Tclunk
	Offer string `json:"offer,omitempty"`
}

func runFidCase(c fidCase) *fail {
	fk := peers.NewFake()
	defer fk.Close()
	tr := &fakeTracker{bound: map[uint64]bool{}, out: map[uint16]bool{}, strict: true}
	stop := make(chan struct{})
	defer close(stop)
	var bad *fail
	var mu sync.Mutex
	// decisions for the requests of the current operation (set before the
	// operation is issued, consumed in order, discarded when the next one starts)
	var decisions []bool
	var xsize uint64 // size announced by Rxattrwalk
	setDecisions := func(d ...bool) {
		mu.Lock()
		decisions = d
		mu.Unlock()
	}
	go fk.Serve(stop, func(req *refcodec.Msg, raw []byte) []*refcodec.Msg {
		if req == nil {
			return nil
		}
		mu.Lock()
		defer mu.Unlock()
		if f := tr.onRequest(req); f != nil && bad == nil {
			bad = f
		}
		if req.Type == refcodec.Tversion && c.Offer != "" {
			tr.onReply(req, true)
			return []*refcodec.Msg{refcodec.New(refcodec.Rversion, req.Tag, "msize", req.U("msize"), "version", c.Offer)}
		}
		ok := true
		switch req.Type {
		case refcodec.Twalk, refcodec.Tclunk, refcodec.Tremove, refcodec.Txattrwalk, refcodec.Tread, refcodec.Twalkgetattr, refcodec.Tgetattr:
			if len(decisions) > 0 {
				ok, decisions = decisions[0], decisions[1:]
			}
		}
		tr.onReply(req, ok)
		if !ok {
			return []*refcodec.Msg{refcodec.New(refcodec.Rlerror, req.Tag, "ecode", 5)}
		}
		if req.Type == refcodec.Txattrwalk {
			return []*refcodec.Msg{refcodec.New(refcodec.Rxattrwalk, req.Tag, "size", xsize)}
		}
		if req.Type == refcodec.Tread {
			// the attribute value, xsize bytes long
			off, cnt := req.U("offset"), req.U("count")
			val := bytes.Repeat([]byte{'v'}, int(xsize))
			if off > uint64(len(val)) {
				off = uint64(len(val))
			}
			val = val[off:]
			if uint64(len(val)) > cnt {
				val = val[:cnt]
			}
			return []*refcodec.Msg{refcodec.New(refcodec.Rread, req.Tag, "data", val)}
		}
		return []*refcodec.Msg{peers.GenericReply(req, 0)}
	})
	cl, err := p9.NewClient(fk.Client)
	if err != nil {
		return failf("harness-newclient", "HARNESS-ERROR %v", err)
	}
	root, err := cl.Attach("")
	if err != nil {
		return failf("harness-attach", "HARNESS-ERROR %v", err)
	}
	defer runtime.KeepAlive(root)
	var files []p9.File
	defer func() { runtime.KeepAlive(&files) }()
	for _, op := range c.Ops {
		var kind string
		var i int
		if n, _ := fmt.Sscanf(op, "forget:%d", &i); n == 1 {
			kind = "forget"
		} else if n, _ := fmt.Sscanf(op, "close:%d", &i); n == 1 {
			kind = "close"
		} else if n, _ := fmt.Sscanf(op, "closefail:%d", &i); n == 1 {
			kind = "closefail"
		} else if n, _ := fmt.Sscanf(op, "remove:%d", &i); n == 1 {
			kind = "remove"
		} else {
			kind = op
		}
		switch kind {
		case "walk":
			setDecisions(true)
			if _, f, err := root.Walk([]string{"x"}); err == nil {
				files = append(files, f)
			}
		case "walkfail":
			setDecisions(false)
			root.Walk([]string{"x"})
		case "wga", "wga-getattrfail", "wga-bothfail", "wga-walkfail":
			old := c.Offer == "9P2000.L" || c.Offer == "9P2000.L.Google.1"
			switch {
			case kind == "wga":
				setDecisions(true, true)
			case kind == "wga-walkfail" || !old:
				setDecisions(false)
			case kind == "wga-getattrfail":
				setDecisions(true, false, true) // walk, getattr, the clunk of the fid the walk bound
			default:
				setDecisions(true, false, false)
			}
			if _, f, _, _, err := root.WalkGetAttr([]string{"x"}); err == nil {
				files = append(files, f)
			}
		case "xattr":
			mu.Lock()
			xsize = 0
			mu.Unlock()
			setDecisions(true, true) // the xattrwalk and the clunk of the temporary fid
			root.GetXattr("user.a")
		case "xattr-read", "xattr-readfail", "xattr-walkfail", "xattr-clunkfail", "xattr-list", "xattr-listfail":
			// a temporary fid is bound by Txattrwalk, read with Tread and clunked;
			// each of the three requests may be refused
			mu.Lock()
			xsize = 5
			mu.Unlock()
			switch kind {
			case "xattr-read", "xattr-list":
				setDecisions(true, true, true)
			case "xattr-readfail", "xattr-listfail":
				setDecisions(true, false, true)
			case "xattr-walkfail":
				setDecisions(false)
			default:
				setDecisions(true, true, false)
			}
			if strings.HasPrefix(kind, "xattr-list") {
				root.ListXattrs()
			} else {
				root.GetXattr("user.a")
			}
		case "forget", "gc":
			// the caller drops a File without closing it (or just collects garbage):
			// the finalizer clunks it - once, and never a File that was closed
			if kind == "forget" && len(files) > 0 {
				files[i%len(files)] = files[len(files)-1]
				files = files[:len(files)-1]
			}
			setDecisions(true, true, true)
			for k := 0; k < 3; k++ {
				runtime.GC()
				time.Sleep(time.Millisecond)
			}
		case "close", "closefail", "remove":
			if len(files) == 0 {
				continue
			}
			f := files[i%len(files)]
			setDecisions(kind != "closefail")
			if kind == "remove" {
				f.(interface{ Remove() error }).Remove()
			} else {
				f.Close()
			}
		}
		mu.Lock()
		b := bad
		mu.Unlock()
		if b != nil {
			b.Msg += fmt.Sprintf("; ops %v", c.Ops)
			return b
		}
	}
	return nil
}

// --- the allocator itself (hook) ------------------------------------------------------------

type poolCase struct {
	Start uint64 `json:"start"`
	Limit uint64 `json:"limit"`
	Ops   []int  `json:"ops"` // -1: Get; k >= 0: Put the k-th oldest outstanding value
}

func runPoolCase(c poolCase) *fail {
	get, put := p9.VerifNewPool(c.Start, c.Limit)
	out := []uint64{}
	held := map[uint64]bool{}
	for i, op := range c.Ops {
		if op < 0 {
			v, ok := get()
			full := uint64(len(out)) == c.Limit-c.Start
			if ok == full {
				return failf("pool-exhaustion", "step %d: Get returned ok=%v with %d of %d values outstanding; ops %v", i, ok, len(out), c.Limit-c.Start, c.Ops)
			}
			if !ok {
				continue
			}
			if v < c.Start || v >= c.Limit {
				return failf("pool-out-of-range", "step %d: Get returned %d outside [%d, %d); ops %v", i, v, c.Start, c.Limit, c.Ops)
			}
			if held[v] {
				return failf("pool-duplicate", "step %d: Get returned %d, which is still outstanding; ops %v", i, v, c.Ops)
			}
			held[v] = true
			out = append(out, v)
		} else if len(out) > 0 {
			k := op % len(out)
			v := out[k]
			out = append(out[:k], out[k+1:]...)
			delete(held, v)
			put(v)
		}
	}
	return nil
}

func init() {
	replayRegistrars = append(replayRegistrars, func() {
		registerReplay("C10/batches", func(c muxCase) *fail { return runMuxCase(c, nil) })
		registerReplay("C10/withdraw-race", runWithdrawCase)
		registerReplay("C10/fids", runFidCase)
		registerReplay("C10/stale-completion", runStaleCase)
		registerReplay("C10/pool", runPoolCase)
		registerReplay("C10/socket-batches", runSockMuxCase)
		registerReplay("C10/concurrent-close", runConcCloseCase)
	})
}

func TestC10(t *testing.T) {
	h := begin(t, "C10")
	defer h.Finish()
	env := h.Env

	// allocator: all Get/Put sequences to length 8 over pools of 1..3 values
	if env.Shard == 0 {
		n := 0
		for size := uint64(1); size <= 3; size++ {
			var rec func(ops []int)
			rec = func(ops []int) {
				if len(ops) > 0 {
					c := poolCase{Start: 5, Limit: 5 + size, Ops: ops}
					n++
					h.Case(evid.HashJSON(c), len(ops) >= 3, "pool:enumerated")
					h.report("pool", runPoolCase(c), c)
				}
				if len(ops) == env.Pick(7, 8) {
					return
				}
				for _, op := range []int{-1, 0, 1, 2}[:2+int(size)-1] {
					rec(append(append([]int{}, ops...), op))
				}
			}
			rec(nil)
		}
		h.Exhaustive(fmt.Sprintf("all %d Get/Put sequences up to length %d over pools of 1..3 values", n, env.Pick(7, 8)))
	}
	rapidCases(h, "pool", env.PerShard(env.Pick(4000, 400000)), func(rt *rapid.T) poolCase {
		c := poolCase{Start: rapid.SampledFrom([]uint64{0, 1, 65530, 1<<32 - 4}).Draw(rt, "start")}
		c.Limit = c.Start + uint64(rapid.IntRange(1, 6).Draw(rt, "size"))
		for i := rapid.IntRange(1, 40).Draw(rt, "n"); i > 0; i-- {
			c.Ops = append(c.Ops, rapid.IntRange(-1, 5).Draw(rt, "op"))
			if rapid.Bool().Draw(rt, "get") {
				c.Ops[len(c.Ops)-1] = -1
			}
		}
		return c
	}, func(c poolCase) *fail {
		h.Case(evid.HashJSON(c), len(c.Ops) >= 3, "pool:random")
		return runPoolCase(c)
	})

	// reply permutations: every order for batches of 2..4 (5 thorough) plain calls
	if env.Shard == 0 {
		for n := 2; n <= env.Pick(4, 5); n++ {
			idx := make([]int, n)
			calls := []string{}
			for i := range idx {
				idx[i] = i
				calls = append(calls, []string{"getattr", "walk", "getattr", "closeok", "walkfail"}[i%5])
			}
			for _, perm := range permutations(idx) {
				c := muxCase{Calls: calls, Order: perm, After: 1}
				st := &muxStats{}
				h.Danger("batches", "client-panic", clientDied, c)
				f := runMuxCase(c, st)
				h.Safe()
				h.Case(evid.HashJSON(c), st.nonFIFO && st.inFlight >= 2, "batches:every-permutation")
				if h.report("batches", f, c) {
					return
				}
			}
		}
		// every fault kind at every position of a batch of 3
		for _, fault := range []string{"close", "partial", "garbage", "unknown-tag", "wrong-type", "bad-size", "write-fail", "write-fail-once"} {
			for k := 0; k <= 6; k++ {
				c := muxCase{Calls: []string{"getattr", "walk", "getattr"}, Order: []int{2, 0, 1}, Fault: fault, K: k, After: 2}
				st := &muxStats{}
				h.Danger("batches", "client-panic", clientDied, c)
				f := runMuxCase(c, st)
				h.Safe()
				h.Case(evid.HashJSON(c), st.faultWithPending, "batches:fault:"+fault)
				if h.report("batches", f, c) {
					return
				}
			}
		}
		h.Exhaustive("every reply order for batches of 2..4 calls; every fault kind at every position of a batch of 3")
	}
	rapidCases(h, "batches", env.PerShard(env.Pick(1200, 50000)), func(rt *rapid.T) muxCase {
		return genMuxCase(rt, env.Pick(8, 64))
	}, func(c muxCase) *fail {
		st := &muxStats{}
		h.Danger("batches", "client-panic", clientDied, c)
		f := runMuxCase(c, st)
		h.Safe()
		h.Case(evid.HashJSON(c), (st.nonFIFO && st.inFlight >= 2) || st.faultWithPending, "batches:random:"+c.Fault)
		if st.nonFIFO && st.inFlight >= 3 && h.WantSample("batches") {
			h.Sample("batches", c)
		}
		return f
	})
	// failed send, then an unacceptable frame, then more calls
	for rep := 0; rep < env.Pick(40, 400)/env.NShards+1; rep++ {
		for _, b := range []string{"unknown-tag", "garbage", "wrong-type"} {
			c := staleCase{Later: 12, Bad: b}
			h.Danger("stale-completion", "client-panic", clientDied, c)
			f := runStaleCase(c)
			h.Safe()
			h.Case(evid.HashJSON(c)+uint64(rep)*7919+uint64(env.Shard), true, "stale-completion:"+b)
			if f != nil && len(f.Sig) > 8 && f.Sig[:8] == "harness-" {
				t.Errorf("HARNESS-ERROR %s", f.Msg)
				continue
			}
			if h.report("stale-completion", f, c) {
				return
			}
		}
	}
	// a send fails while a frame carrying that call's tag is being received: every split point of the frame
	if env.Shard == 0 {
		n := len(refcodec.Encode(refcodec.New(refcodec.Rgetattr, 1, "valid", 0x3fff, "qid", refcodec.QID{}, "attr", refcodec.Attr{})))
		for split := 7; split < n; split += env.Pick(6, 1) {
			c := withdrawCase{Split: split, Later: 4}
			h.Danger("withdraw-race", "client-panic", clientDied, c)
			f := runWithdrawCase(c)
			h.Safe()
			h.Case(evid.HashJSON(c), true, "withdraw-race")
			if f != nil && strings.HasPrefix(f.Sig, "harness-") {
				t.Errorf("HARNESS-ERROR %s", f.Msg)
				continue
			}
			if h.report("withdraw-race", f, c) {
				return
			}
		}
	}
	if env.Shard == 0 {
		c := withdrawCase{Early: true}
		h.Danger("withdraw-race", "client-panic", clientDied, c)
		f := runWithdrawCase(c)
		h.Safe()
		h.Case(evid.HashJSON(c), true, "reply-before-write-returned")
		if f != nil && strings.HasPrefix(f.Sig, "harness-") {
			t.Errorf("HARNESS-ERROR %s", f.Msg)
		} else if h.report("withdraw-race", f, c) {
			return
		}
	}
	rapidCases(h, "fids", env.PerShard(env.Pick(1600, 100000)), func(rt *rapid.T) fidCase {
		c := fidCase{Offer: rapid.SampledFrom([]string{"", "", "9P2000.L", "9P2000.L.Google.1", "9P2000.L.Google.2", "9P2000.L.Google.4"}).Draw(rt, "offer")}
		for i := rapid.IntRange(1, 30).Draw(rt, "n"); i > 0; i-- {
			k := rapid.SampledFrom([]string{"walk", "walk", "walk", "walkfail", "close", "closefail", "remove", "xattr",
				"xattr-read", "xattr-readfail", "xattr-walkfail", "xattr-clunkfail", "xattr-list", "xattr-listfail",
				"wga", "wga-getattrfail", "wga-getattrfail", "wga-bothfail", "wga-walkfail", "forget", "gc"}).Draw(rt, "op")
			if k == "close" || k == "closefail" || k == "remove" || k == "forget" {
				k = fmt.Sprintf("%s:%d", k, rapid.IntRange(0, 9).Draw(rt, "i"))
			}
			c.Ops = append(c.Ops, k)
		}
		return c
	}, func(c fidCase) *fail {
		h.Case(evid.HashJSON(c), len(c.Ops) >= 3, "fids")
		if len(c.Ops) > 5 && h.WantSample("fids") {
			h.Sample("fids", c)
		}
		h.Danger("fids", "client-panic", clientDied, c)
		defer h.Safe()
		return runFidCase(c)
	})
	// batches over a real socket, replies delivered in pieces
	rapidCases(h, "socket-batches", env.PerShard(env.Pick(800, 40000)), func(rt *rapid.T) sockMuxCase {
		c := sockMuxCase{After: rapid.IntRange(0, 2).Draw(rt, "after"), Joined: rapid.Bool().Draw(rt, "joined")}
		total := 0
		for i := rapid.IntRange(1, 5).Draw(rt, "n"); i > 0; i-- {
			n := rapid.SampledFrom([]int{0, 1, 5, 100, 1000, 4096, 20000}).Draw(rt, "size")
			c.Sizes = append(c.Sizes, n)
			total += n + 160
		}
		c.Order = rapid.Permutation([]int{0, 1, 2, 3, 4}).Draw(rt, "order")
		for k := rapid.IntRange(1, 6).Draw(rt, "ncuts"); k > 0; k-- {
			c.Cuts = append(c.Cuts, rapid.IntRange(1, total).Draw(rt, "cut"))
		}
		sortInts(c.Cuts)
		return c
	}, func(c sockMuxCase) *fail {
		h.Case(evid.HashJSON(c), len(c.Sizes) >= 2, "socket-batches")
		if len(c.Sizes) >= 2 && h.WantSample("socket-batches") {
			h.Sample("socket-batches", c)
		}
		return runSockMuxCase(c)
	})
	// one File released by several goroutines at once, then new Files bound
	rapidCases(h, "concurrent-close", env.PerShard(env.Pick(640, 32000)), func(rt *rapid.T) concCloseCase {
		var c concCloseCase
		for i := rapid.IntRange(1, 4).Draw(rt, "rounds"); i > 0; i-- {
			r := concCloseRound{SecondOK: rapid.Bool().Draw(rt, "second_ok"), Walks: rapid.IntRange(0, 3).Draw(rt, "walks")}
			for j := rapid.IntRange(2, 4).Draw(rt, "callers"); j > 0; j-- {
				r.Callers = append(r.Callers, rapid.SampledFrom([]string{"close", "close", "close", "remove"}).Draw(rt, "caller"))
			}
			c.Rounds = append(c.Rounds, r)
		}
		return c
	}, func(c concCloseCase) *fail {
		h.Case(evid.HashJSON(c), true, "concurrent-close")
		if h.WantSample("concurrent-close") {
			h.Sample("concurrent-close", c)
		}
		return runConcCloseCase(c)
	})
}
