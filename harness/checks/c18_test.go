package checks

import (
	"bytes"
	"encoding/binary"
	"fmt"
	"runtime"
	"strings"
	"testing"
	"time"

	"p9verif/evid"
	"p9verif/memfs"
	"p9verif/memtree"
	"p9verif/mockfs"
	"p9verif/peers"
	"p9verif/refcodec"

	"github.com/hugelgupf/p9/p9"
	"pgregory.net/rapid"
)

// ---------------------------------------------------------------------------
// C18 — no carry-over between messages through recycled objects and buffers

type coStep struct {
	Conn int    `json:"conn"`
	Kind string `json:"kind"` // walk | walkga | write | read | readdir | symlink | xattr | create | renameat | attach
	N    int    `json:"n"`    // list length / payload size / string length
	M    int    `json:"m"`    // second size (bytes the backend produces for a read; second string)
	Salt uint8  `json:"salt"`
}

type coCase struct {
	Conns int      `json:"conns"`
	Steps []coStep `json:"steps"`
}

func coBytes(n int, salt uint8) []byte {
	b := make([]byte, n)
	for i := range b {
		b[i] = byte(i*7) ^ salt ^ byte(i>>8)
		if b[i] == '/' || b[i] == 0 {
			b[i] = 'x'
		}
	}
	return b
}

func coName(n int, salt uint8) string {
	if n < 1 {
		n = 1
	}
	s := string(coBytes(n, salt))
	if s == "." || s == ".." {
		s = "n" + s
	}
	return s
}

type coStats struct {
	shorterAfterLonger int
}

func runCoCase(c coCase, st *coStats) *fail {
	mock := mockfs.New(true)
	srv := p9.NewServer(mock)
	if c.Conns < 1 {
		c.Conns = 1
	}
	var ss []*peers.Session
	for i := 0; i < c.Conns; i++ {
		s := peers.Start(srv)
		defer s.Close(10 * time.Second)
		if _, err := s.Version(1<<20, "9P2000.L.Google.7"); err != nil {
			return failf("harness-version", "HARNESS-ERROR %v", err)
		}
		// fid 0 root (dir), fid 1 an open regular file, fid 2 an open directory
		mock.Push("WalkGetAttr", &mockfs.Result{QIDs: []p9.QID{{Path: 5}}, Valid: p9.AttrMaskAll, Attr: p9.Attr{Mode: p9.ModeRegular | 0o644}})
		for j, m := range []*refcodec.Msg{tAttach(0, nofid, ""), tWalk(0, 1, "file"), tOpen(1, 2), tWalk(0, 2), tOpen(2, 0)} {
			r, err := s.Call(withTag(cloneMsg(m), uint16(1+j)))
			if err != nil || r.Type == refcodec.Rlerror {
				return failf("harness-setup", "HARNESS-ERROR %s: %v %v", m, r, err)
			}
		}
		ss = append(ss, s)
	}
	last := map[string]int{}
	tag := uint16(100)
	for i, stp := range c.Steps {
		s := ss[stp.Conn%c.Conns]
		tag++
		from := mock.NCalls()
		what := fmt.Sprintf("step %d %+v", i, stp)
		if prev, ok := last[stp.Kind]; ok && stp.N < prev && st != nil {
			st.shorterAfterLonger++
		}
		last[stp.Kind] = stp.N
		call := func(m *refcodec.Msg) ([]byte, *fail) {
			m.Tag = tag
			raw, err := s.RPC(refcodec.Encode(m))
			if err != nil {
				return nil, failf("no-reply:"+stp.Kind, "%s: %v", what, err)
			}
			return raw, nil
		}
		expect := func(m, want *refcodec.Msg) *fail {
			raw, f := call(m)
			if f != nil {
				return f
			}
			want.Tag = tag
			if !bytes.Equal(raw, refcodec.Encode(want)) {
				got, _ := refcodec.DecodePrefix(raw)
				return failf("carry-over:reply:"+refcodec.Name(want.Type), "%s: the reply is %.300s (%d bytes), this request alone gives %.300s (%d bytes)", what, fmt.Sprint(got), len(raw), want, len(refcodec.Encode(want)))
			}
			return nil
		}
		recs := func(op string) []mockfs.Rec {
			var out []mockfs.Rec
			for _, rc := range mock.Calls(from) {
				if rc.Op == op {
					out = append(out, rc)
				}
			}
			return out
		}
		switch stp.Kind {
		case "walk", "walkga":
			names := []string{}
			qs := []refcodec.QID{}
			for k := 0; k < stp.N; k++ {
				nm := coName(1+(stp.M+k)%40, stp.Salt+uint8(k))
				names = append(names, nm)
				q := p9.QID{Type: p9.TypeDir, Version: uint32(k), Path: uint64(stp.Salt)<<8 | uint64(k)}
				qs = append(qs, qidR(q))
				mock.Push("WalkGetAttr", &mockfs.Result{QIDs: []p9.QID{q}, Valid: p9.AttrMaskAll, Attr: p9.Attr{Mode: p9.ModeDirectory | 0o755, Size: uint64(k)}})
			}
			var f *fail
			if stp.Kind == "walk" {
				f = expect(tWalk(0, uint64(30+i%5), names...), refcodec.New(refcodec.Rwalk, 0, "wqids", qs))
			} else {
				a := refcodec.Attr{}
				if stp.N > 0 {
					a[0], a[5] = uint64(p9.ModeDirectory|0o755), uint64(stp.N-1)
				} else {
					a[0] = uint64(p9.ModeDirectory | 0o755)
					mock.Push("WalkGetAttr", &mockfs.Result{Valid: p9.AttrMaskAll, Attr: p9.Attr{Mode: p9.ModeDirectory | 0o755}})
				}
				f = expect(tWalkGA(0, uint64(30+i%5), names...), refcodec.New(refcodec.Rwalkgetattr, 0, "valid", 0x3fff, "attr", a, "wqids", qs))
			}
			if f != nil {
				return f
			}
			var seen []string
			for _, rc := range recs("WalkGetAttr") {
				seen = append(seen, rc.Names...)
			}
			if fmt.Sprint(seen) != fmt.Sprint(names) {
				return failf("carry-over:backend-names:"+stp.Kind, "%s: the backend was asked to walk %d names %.200q, the request carries %d names %.200q", what, len(seen), seen, len(names), names)
			}
		case "write":
			data := coBytes(stp.N, stp.Salt)
			if f := expect(refcodec.New(refcodec.Twrite, 0, "fid", 1, "offset", uint64(stp.M), "data", data), refcodec.New(refcodec.Rwrite, 0, "count", len(data))); f != nil {
				return f
			}
			rs := recs("WriteAt")
			if len(rs) != 1 || !bytes.Equal(rs[0].Data, data) {
				got := []byte{}
				if len(rs) > 0 {
					got = rs[0].Data
				}
				return failf("carry-over:backend-payload", "%s: the backend received %d bytes (%x…), the request carries %d bytes (%x…)", what, len(got), got[:min(len(got), 16)], len(data), data[:min(len(data), 16)])
			}
		case "read":
			// the backend fills fewer bytes than requested
			produced := stp.M
			if produced > stp.N {
				produced = stp.N
			}
			data := coBytes(produced, stp.Salt)
			mock.Push("ReadAt", &mockfs.Result{Data: data})
			if f := expect(tRead(1, 3, uint64(stp.N)), refcodec.New(refcodec.Rread, 0, "data", data)); f != nil {
				return f
			}
		case "readdir":
			var ents p9.Dirents
			for k := 0; k < stp.N; k++ {
				ents = append(ents, p9.Dirent{QID: p9.QID{Path: uint64(k)}, Offset: uint64(k + 1), Type: p9.QIDType(stp.Salt), Name: coName(1+(stp.M+k)%60, stp.Salt+uint8(k))})
			}
			mock.Push("Readdir", &mockfs.Result{Ents: ents})
			if f := expect(tReaddir(2, 0, 500000), refcodec.New(refcodec.Rreaddir, 0, "entries", entsR(ents))); f != nil {
				return f
			}
		case "symlink":
			nm, tg := coName(stp.N, stp.Salt), string(coBytes(stp.M, stp.Salt+1))
			if f := expect(tSymlink(0, nm, tg), refcodec.New(refcodec.Rsymlink, 0, "qid", refcodec.QID{})); f != nil {
				return f
			}
			rs := recs("Symlink")
			if len(rs) != 1 || rs[0].Name != nm || rs[0].Name2 != tg {
				return failf("carry-over:backend-strings", "%s: the backend received name %.80q target %.80q, the request carries %.80q and %.80q", what, rs[0].Name, rs[0].Name2, nm, tg)
			}
		case "setattr":
			// a Tsetattr that selects everything and carries values, then one that selects
			// the mode alone and carries zeros elsewhere: what the backend is handed is
			// what the second frame carries
			full := refcodec.New(refcodec.Tsetattr, 0, "fid", 0, "valid", 0x1ff, "mode", 0o640, "uid", 1000+stp.N, "gid", 2000+stp.M, "size", 777+stp.N,
				"atime_sec", 11111+stp.N, "atime_nsec", 222, "mtime_sec", 33333+stp.M, "mtime_nsec", 444)
			if f := expect(full, refcodec.New(refcodec.Rsetattr, 0)); f != nil {
				return f
			}
			lean := refcodec.New(refcodec.Tsetattr, 0, "fid", 0, "valid", 1, "mode", 0o600, "uid", 0, "gid", 0, "size", 0,
				"atime_sec", 0, "atime_nsec", 0, "mtime_sec", 0, "mtime_nsec", 0)
			if f := expect(lean, refcodec.New(refcodec.Rsetattr, 0)); f != nil {
				return f
			}
			rs := recs("SetAttr")
			if len(rs) != 2 {
				return failf("harness-setattr", "HARNESS-ERROR %d SetAttr calls", len(rs))
			}
			a := rs[1].SAttr
			if a.UID != 0 || a.GID != 0 || a.Size != 0 || a.ATimeSeconds != 0 || a.ATimeNanoSeconds != 0 || a.MTimeSeconds != 0 || a.MTimeNanoSeconds != 0 || uint32(a.Permissions) != 0o600 {
				return failf("carry-over:setattr-fields", "%s: a Tsetattr carrying mode 0600 and zeros was handed to the backend as %+v - fields of an earlier Tsetattr", what, a)
			}
		case "renameat":
			on, nn := coName(stp.N, stp.Salt), coName(stp.M, stp.Salt+1)
			if f := expect(tRenameat(0, on, 0, nn), refcodec.New(refcodec.Rrenameat, 0)); f != nil {
				return f
			}
			rs := recs("RenameAt")
			if len(rs) != 1 || rs[0].Name != on || rs[0].Name2 != nn {
				return failf("carry-over:backend-strings", "%s: the backend received %.80q -> %.80q, the request carries %.80q -> %.80q", what, rs[0].Name, rs[0].Name2, on, nn)
			}
		case "xattr":
			val := coBytes(stp.N, stp.Salt)
			mock.Push("GetXattr", &mockfs.Result{Data: val})
			if f := expect(tXattrwalk(0, 40, "user.v"), refcodec.New(refcodec.Rxattrwalk, 0, "size", len(val))); f != nil {
				return f
			}
			if len(val) > 0 {
				tag++
				if f := expect(tRead(40, 0, uint64(len(val))), refcodec.New(refcodec.Rread, 0, "data", val)); f != nil {
					return f
				}
				// the value can be read again, as a whole and in windows: every reply is the bytes the backend produced
				want := coBytes(stp.N, stp.Salt)
				tag++
				if f := expect(tRead(40, 0, uint64(len(want))), refcodec.New(refcodec.Rread, 0, "data", want)); f != nil {
					return f
				}
				if a, b := len(want)/3, len(want)-len(want)/4; b > a {
					tag++
					if f := expect(tRead(40, uint64(a), uint64(b-a)), refcodec.New(refcodec.Rread, 0, "data", want[a:b])); f != nil {
						return f
					}
				}
			}
			tag++
			if f := expect(tClunk(40), refcodec.New(refcodec.Rclunk, 0)); f != nil {
				return f
			}
		case "lock-short-after-long":
			// a complete Tlock with a client id, then Tlock frames that end after proc_id,
			// inside proc_id and after the client id's length: rejected, and no Lock call
			// reaches the backend with the earlier client id
			mock.Push("Lock", &mockfs.Result{})
			long := refcodec.New(refcodec.Tlock, 0, "fid", 0, "type", 1, "flags", 0, "start", 1, "length", 2, "proc_id", 77, "client_id", coName(max(stp.N, 1)%100+4, stp.Salt))
			if _, f := call(long); f != nil {
				return f
			}
			for _, cutAt := range []int{7 + 4 + 1 + 4 + 8 + 8 + 4, 7 + 4 + 1 + 4 + 8 + 8 + 2, 7 + 4 + 1 + 4 + 8 + 8 + 4 + 1} {
				tag++
				short := refcodec.Encode(withTag(refcodec.New(refcodec.Tlock, 0, "fid", 0, "type", 1, "flags", 0, "start", 1, "length", 2, "proc_id", 78, "client_id", "zz"), tag))
				short = append([]byte{}, short[:cutAt]...)
				binary.LittleEndian.PutUint32(short, uint32(len(short)))
				before := mock.NCalls()
				raw, err := s.RPC(short)
				if err != nil {
					return failf("no-reply:short-frame", "%s: %v", what, err)
				}
				if _, isErr := refcodec.Errno(raw); !isErr {
					return failf("carry-over:truncated-frame-completed", "%s: a Tlock frame of %d bytes (it ends before its client id is complete) was answered %x instead of being rejected", what, cutAt, raw[:min(len(raw), 40)])
				}
				for _, rc := range mock.Calls(before) {
					if rc.Op == "Lock" {
						return failf("carry-over:truncated-frame-completed", "%s: a truncated Tlock reached the backend's Lock with client id %.40q", what, rc.Name)
					}
				}
			}
		case "short-after-long":
			// a complete Tsymlink with long strings, then - on this and the other
			// connections' shared buffers - a Tsymlink frame that ends after its first
			// string: it must be rejected, not completed from what the buffers held
			long := refcodec.New(refcodec.Tsymlink, 0, "dfid", 0, "name", coName(max(stp.N, 1)%200+1, stp.Salt), "target", string(coBytes(max(stp.M, 8), stp.Salt+1)), "gid", 4242)
			mock.Push("Symlink", &mockfs.Result{QID: p9.QID{Type: p9.TypeSymlink, Path: 77}})
			if _, f := call(long); f != nil {
				return f
			}
			tag++
			short := refcodec.Encode(withTag(refcodec.New(refcodec.Tsymlink, 0, "dfid", 0, "name", "linkname", "target", "", "gid", 0), tag))
			short = short[:7+4+2+len("linkname")] // header, dfid, name
			binary.LittleEndian.PutUint32(short, uint32(len(short)))
			before := mock.NCalls()
			raw, err := s.RPC(short)
			if err != nil {
				return failf("no-reply:short-frame", "%s: %v", what, err)
			}
			if _, isErr := refcodec.Errno(raw); !isErr {
				return failf("carry-over:truncated-frame-completed", "%s: a Tsymlink frame that ends after its name was answered %x instead of being rejected", what, raw[:min(len(raw), 40)])
			}
			for _, rc := range mock.Calls(before) {
				if rc.Op == "Symlink" {
					return failf("carry-over:truncated-frame-completed", "%s: a Tsymlink frame that ends after its name reached the backend as Symlink(target=%.60q, name=%q, gid=%v): the missing fields came from an earlier message", what, rc.Name2, rc.Name, rc.U)
				}
			}
		case "setxattr":
			// an attribute value sent with Txattrcreate + Twrite is handed to the
			// backend at Tclunk; writes of the same length to an ordinary file (this
			// and the other connection) come in between
			val := coBytes(max(stp.N, 1), stp.Salt)
			if _, f := call(tWalk(0, 41)); f != nil {
				return f
			}
			tag++
			if f := expect(tXattrcreate(41, "user.w", uint64(len(val)), 0), refcodec.New(refcodec.Rxattrcreate, 0)); f != nil {
				return f
			}
			tag++
			if f := expect(refcodec.New(refcodec.Twrite, 0, "fid", 41, "offset", 0, "data", val), refcodec.New(refcodec.Rwrite, 0, "count", len(val))); f != nil {
				return f
			}
			for k := 0; k < 1+stp.M%4; k++ {
				filler := bytes.Repeat([]byte{0xF0 + byte(k)}, len(val))
				tag++
				if f := expect(refcodec.New(refcodec.Twrite, 0, "fid", 1, "offset", uint64(k), "data", filler), refcodec.New(refcodec.Rwrite, 0, "count", len(filler))); f != nil {
					return f
				}
			}
			tag++
			if f := expect(tClunk(41), refcodec.New(refcodec.Rclunk, 0)); f != nil {
				return f
			}
			rs := recs("SetXattr")
			if len(rs) != 1 || !bytes.Equal(rs[0].Data, val) {
				got := []byte{}
				if len(rs) > 0 {
					got = rs[0].Data
				}
				return failf("carry-over:backend-xattr-value", "%s: the attribute value reached the backend as %d bytes (%x…), Twrite carried %d bytes (%x…); %d writes of the same length to a file came in between", what, len(got), got[:min(len(got), 16)], len(val), val[:min(len(val), 16)], 1+stp.M%4)
			}
		case "attach":
			tag++
			an := coName(stp.N, stp.Salt)
			mock.Push("WalkGetAttr", &mockfs.Result{QIDs: []p9.QID{{Path: 9}}, Valid: p9.AttrMaskAll, Attr: p9.Attr{Mode: p9.ModeDirectory | 0o755}})
			if _, f := call(refcodec.New(refcodec.Tattach, 0, "fid", 45, "afid", nofid, "uname", string(coBytes(stp.M, stp.Salt)), "aname", an, "n_uname", 5)); f != nil {
				return f
			}
			rs := recs("WalkGetAttr")
			if len(rs) != 1 || len(rs[0].Names) != 1 || rs[0].Names[0] != an {
				return failf("carry-over:backend-strings", "%s: the attach name reached the backend as %.100q, the request carries %.100q", what, rs, an)
			}
		}
	}
	return nil
}

// --- client side ------------------------------------------------------------------------

func runCoClientCase(c coCase, st *coStats) *fail {
	fk := peers.NewFake()
	defer fk.Close()
	stop := make(chan struct{})
	defer close(stop)
	// the fake answers from a script prepared before each call
	type script struct {
		qids []refcodec.QID
		ents []refcodec.Dirent
		data []byte
		str  string
	}
	cur := make(chan script, 1)
	go fk.Serve(stop, func(req *refcodec.Msg, raw []byte) []*refcodec.Msg {
		if req == nil {
			return nil
		}
		switch req.Type {
		case refcodec.Twalk:
			sc := <-cur
			return []*refcodec.Msg{refcodec.New(refcodec.Rwalk, req.Tag, "wqids", sc.qids)}
		case refcodec.Twalkgetattr:
			sc := <-cur
			return []*refcodec.Msg{refcodec.New(refcodec.Rwalkgetattr, req.Tag, "valid", 0x3fff, "attr", refcodec.Attr{}, "wqids", sc.qids)}
		case refcodec.Treaddir:
			sc := <-cur
			return []*refcodec.Msg{refcodec.New(refcodec.Rreaddir, req.Tag, "entries", sc.ents)}
		case refcodec.Tread:
			sc := <-cur
			return []*refcodec.Msg{refcodec.New(refcodec.Rread, req.Tag, "data", sc.data)}
		case refcodec.Treadlink:
			sc := <-cur
			return []*refcodec.Msg{refcodec.New(refcodec.Rreadlink, req.Tag, "target", sc.str)}
		}
		return []*refcodec.Msg{peers.GenericReply(req, 0)}
	})
	cl, err := p9.NewClient(fk.Client, p9.WithMessageSize(1<<20))
	if err != nil {
		return failf("harness-newclient", "HARNESS-ERROR %v", err)
	}
	root, err := cl.Attach("")
	if err != nil {
		return failf("harness-attach", "HARNESS-ERROR %v", err)
	}
	defer runtime.KeepAlive(root)
	last := map[string]int{}
	var keep []p9.File
	defer func() { runtime.KeepAlive(&keep) }()
	for i, stp := range c.Steps {
		what := fmt.Sprintf("client step %d %+v", i, stp)
		if prev, ok := last[stp.Kind]; ok && stp.N < prev && st != nil {
			st.shorterAfterLonger++
		}
		last[stp.Kind] = stp.N
		switch stp.Kind {
		case "walk", "walkga":
			names := []string{}
			qs := []refcodec.QID{}
			for k := 0; k < stp.N; k++ {
				names = append(names, coName(1+k%5, stp.Salt))
				qs = append(qs, refcodec.QID{Type: stp.Salt, Version: uint32(k), Path: uint64(i)<<16 | uint64(k)})
			}
			cur <- script{qids: qs}
			var got []p9.QID
			var nf p9.File
			var err error
			if stp.Kind == "walk" {
				got, nf, err = root.Walk(names)
			} else {
				got, nf, _, _, err = root.WalkGetAttr(names)
			}
			if err != nil {
				return failf("harness-call", "HARNESS-ERROR %s: %v", what, err)
			}
			keep = append(keep, nf)
			var gr []refcodec.QID
			for _, q := range got {
				gr = append(gr, qidR(q))
			}
			if fmt.Sprint(gr) != fmt.Sprint(qs) && !(len(gr) == 0 && len(qs) == 0) {
				return failf("carry-over:client-qids", "%s: the call returned %d QIDs %.200s, its reply carries %d QIDs %.200s", what, len(gr), fmt.Sprint(gr), len(qs), fmt.Sprint(qs))
			}
		case "readdir":
			ents := []refcodec.Dirent{}
			for k := 0; k < stp.N; k++ {
				ents = append(ents, refcodec.Dirent{QID: refcodec.QID{Path: uint64(k)}, Offset: uint64(k + 1), Type: stp.Salt, Name: coName(1+(stp.M+k)%60, stp.Salt+uint8(k))})
			}
			cur <- script{ents: ents}
			got, err := root.Readdir(0, 500000)
			if err != nil {
				return failf("harness-call", "HARNESS-ERROR %s: %v", what, err)
			}
			if fmt.Sprint(entsR(got)) != fmt.Sprint(ents) {
				return failf("carry-over:client-entries", "%s: the call returned %d entries, its reply carries %d", what, len(got), len(ents))
			}
		case "read", "write", "xattr":
			produced := stp.M
			if produced > stp.N {
				produced = stp.N
			}
			data := coBytes(produced, stp.Salt)
			cur <- script{data: data}
			buf := bytes.Repeat([]byte{0xEE}, stp.N)
			n, err := root.ReadAt(buf, 9)
			if err != nil && err.Error() != "EOF" {
				return failf("harness-call", "HARNESS-ERROR %s: %v", what, err)
			}
			if !bytes.Equal(buf[:n], data) {
				return failf("carry-over:client-payload", "%s: the call returned %d bytes (%x…), its reply carries %d bytes (%x…)", what, n, buf[:min(n, 16)], len(data), data[:min(len(data), 16)])
			}
			for j := n; j < len(buf); j++ {
				if buf[j] != 0xEE {
					return failf("carry-over:client-buffer-tail", "%s: the caller's buffer was modified beyond the %d bytes returned (offset %d)", what, n, j)
				}
			}
		default:
			s := string(coBytes(stp.N, stp.Salt))
			cur <- script{str: s}
			got, err := root.Readlink()
			if err != nil {
				return failf("harness-call", "HARNESS-ERROR %s: %v", what, err)
			}
			if got != s {
				return failf("carry-over:client-string", "%s: the call returned a %d-byte string, its reply carries %d bytes", what, len(got), len(s))
			}
		}
	}
	return nil
}

// --- held writes: the bytes a backend is given for a write stay those of its own frame ---

type heldWriteCase struct {
	Sizes   []int `json:"sizes"`   // payload sizes of the writes held inside the backend (one file each)
	Traffic int   `json:"traffic"` // rounds of other requests served meanwhile
	Conns   int   `json:"conns"`   // 2: the other requests come from a second connection
}

func runHeldWriteCase(c heldWriteCase) *fail {
	fs := memfs.New(memfs.Options{NativeWalkGetAttr: true})
	var inodes []*memtree.Inode
	for i := range c.Sizes {
		in, _ := fs.Tree.Create(fs.Tree.Root, fmt.Sprintf("w%d", i), 0o644, 0, 0)
		inodes = append(inodes, in)
	}
	tfile, _ := fs.Tree.Create(fs.Tree.Root, "t", 0o644, 0, 0)
	d, _ := fs.Tree.Mkdir(fs.Tree.Root, "dir", 0o755, 0, 0)
	fs.Tree.Create(d, "leaf", 0o644, 0, 0)
	srv := p9.NewServer(fs)
	s := peers.Start(srv)
	defer s.Close(10 * time.Second)
	s2 := s
	if c.Conns > 1 {
		s2 = peers.Start(srv)
		defer s2.Close(10 * time.Second)
	}
	desc := fmt.Sprintf("%+v", c)
	handles := map[int]int{} // write index -> File
	for _, ss := range []*peers.Session{s, s2} {
		if _, err := ss.Version(8192, "9P2000.L.Google.7"); err != nil {
			return failf("harness-version", "HARNESS-ERROR %v", err)
		}
		setup := []*refcodec.Msg{tAttach(0, nofid, ""), tWalk(0, 1, "t"), tOpen(1, 2)}
		if ss == s {
			for i := range c.Sizes {
				setup = append(setup, tWalk(0, uint64(10+i), fmt.Sprintf("w%d", i)), tOpen(uint64(10+i), 2))
			}
		}
		for j, m := range setup {
			before := fs.Seq()
			r, err := ss.Call(withTag(cloneMsg(m), uint16(1+j)))
			if err != nil || r.Type == refcodec.Rlerror {
				return failf("harness-setup", "HARNESS-ERROR %s: %v %v", m, r, err)
			}
			if ss == s && m.Type == refcodec.Tlopen && m.U("fid") >= 10 {
				for _, cl := range fs.LogSince(before) {
					if cl.Op == "Open" {
						handles[int(m.U("fid"))-10] = cl.Handle
					}
				}
			}
		}
		if s == s2 {
			break
		}
	}
	payload := func(i int) []byte {
		b := make([]byte, c.Sizes[i])
		for k := range b {
			b[k] = byte(0x41 + i)
		}
		if len(b) > 0 {
			b[len(b)-1] = byte(0x61 + i)
		}
		return b
	}
	// the writes of connection 1 are held inside the backend, each at its own gate
	var gates []*memfs.Gate
	for i := range c.Sizes {
		hh := handles[i]
		g := memfs.NewGate(func(cl *memfs.Call) bool { return cl.Op == "WriteAt" && cl.Handle == hh })
		fs.AddGate(g)
		defer g.Release()
		gates = append(gates, g)
		s.Send(refcodec.Encode(withTag(tWriteB(uint64(10+i), 0, payload(i)), uint16(100+i))))
		select {
		case <-g.Entered:
		case <-time.After(20 * time.Second):
			return failf("harness-gate", "HARNESS-ERROR write %d never reached the backend (%s)", i, desc)
		}
	}
	// other requests are served meanwhile
	for r := 0; r < c.Traffic; r++ {
		other := bytes.Repeat([]byte{0xEE}, 1+(r*7)%60)
		for j, m := range []*refcodec.Msg{tWriteB(1, uint64(r), other), tWalk(0, uint64(200+r), "dir", "leaf"), tStatfs(0), tClunk(uint64(200 + r)), tRead(1, 0, 30)} {
			rep, err := s2.Call(withTag(m, uint16(1000+r*8+j)))
			if err != nil {
				return failf("no-reply:traffic", "%s while %d writes were held: %v (%s)", m, len(c.Sizes), err, desc)
			}
			if rep.Type == refcodec.Rlerror {
				return failf("harness-traffic", "HARNESS-ERROR %s => %s", m, rep)
			}
		}
	}
	for _, g := range gates {
		g.Release()
	}
	for range c.Sizes {
		raw, err := s.Recv(20 * time.Second)
		if err != nil {
			return failf("no-reply:held-write", "after the release: %v (%s)", err, desc)
		}
		rep, derr := refcodec.DecodeStrict(raw)
		if derr != nil || rep.Type != refcodec.Rwrite {
			return failf("carry-over:reply:Rwrite", "reply %x (%v) (%s)", raw[:min(len(raw), 40)], derr, desc)
		}
		i := int(rep.Tag) - 100
		if i < 0 || i >= len(c.Sizes) || rep.U("count") != uint64(c.Sizes[i]) {
			return failf("carry-over:reply:Rwrite", "reply %s for a write of %d bytes (%s)", rep, c.Sizes[max(0, min(i, len(c.Sizes)-1))], desc)
		}
	}
	// what the backend stored is what each frame carried
	for i, in := range inodes {
		want := payload(i)
		got := make([]byte, len(want)+8)
		n := in.ReadAt(got, 0)
		if !bytes.Equal(got[:n], want) {
			return failf("carry-over:write-data", "write %d carried %d bytes %x…; after being held inside the backend while other requests were served the backend stored %d bytes %x… (%s)", i, len(want), want[:min(len(want), 16)], n, got[:min(n, 16)], desc)
		}
	}
	_ = tfile
	return nil
}

func tWriteB(fid, off uint64, data []byte) *refcodec.Msg {
	return refcodec.New(refcodec.Twrite, 0, "fid", fid, "offset", off, "data", data)
}

// --- overlapping reads: the data of a read reply is exactly what the backend produced for it ---

type overlapCase struct {
	TailReads int  `json:"tail_reads"` // reads that end at the end of the file (backend returns data + io.EOF) before the overlap
	HoldAfter bool `json:"hold_after"` // hold the first read after the backend filled the buffer (else on entry)
	SizeA     int  `json:"size_a"`
	SizeB     int  `json:"size_b"`
	Conns     int  `json:"conns"`
}

func runOverlapCase(c overlapCase) *fail {
	fs := memfs.New(memfs.Options{NativeWalkGetAttr: true, TailEOF: true})
	fa, _ := fs.Tree.Create(fs.Tree.Root, "a", 0o644, 0, 0)
	fb, _ := fs.Tree.Create(fs.Tree.Root, "b", 0o644, 0, 0)
	contentA, contentB := bytes.Repeat([]byte{0xA1, 0xA2, 0xA3}, 3000), bytes.Repeat([]byte{0xB4, 0xB5}, 4000)
	fa.WriteAt(contentA, 0)
	fb.WriteAt(contentB, 0)
	srv := p9.NewServer(fs)
	s := peers.Start(srv)
	defer s.Close(10 * time.Second)
	s2 := s
	if c.Conns > 1 {
		s2 = peers.Start(srv)
		defer s2.Close(10 * time.Second)
	}
	desc := fmt.Sprintf("%+v", c)
	hA := 0
	for _, ss := range []*peers.Session{s, s2} {
		if _, err := ss.Version(8192, "9P2000.L.Google.7"); err != nil {
			return failf("harness-version", "HARNESS-ERROR %v", err)
		}
		before := fs.Seq()
		for j, m := range []*refcodec.Msg{tAttach(0, nofid, ""), tWalk(0, 1, "a"), tOpen(1, 0), tWalk(0, 2, "b"), tOpen(2, 0)} {
			r, err := ss.Call(withTag(cloneMsg(m), uint16(1+j)))
			if err != nil || r.Type == refcodec.Rlerror {
				return failf("harness-setup", "HARNESS-ERROR %s: %v %v", m, r, err)
			}
		}
		if ss == s {
			for _, cl := range fs.LogSince(before) {
				if cl.Op == "Open" && cl.Path == "/a" {
					hA = cl.Handle
				}
			}
		}
		if s == s2 {
			break
		}
	}
	read := func(ss *peers.Session, fid uint64, off, count int, tag uint16, content []byte) *fail {
		raw, err := ss.RPC(refcodec.Encode(withTag(tRead(fid, uint64(off), uint64(count)), tag)))
		if err != nil {
			return failf("no-reply:read", "%v (%s)", err, desc)
		}
		rep, derr := refcodec.DecodeStrict(raw)
		if derr != nil || rep.Type != refcodec.Rread {
			return failf("carry-over:reply:Rread", "read of %d bytes at %d: reply %x (%v) (%s)", count, off, raw[:min(len(raw), 40)], derr, desc)
		}
		want := content[min(off, len(content)):min(off+count, len(content))]
		if !bytes.Equal(rep.Bytes("data"), want) {
			return failf("carry-over:read-data", "read of %d bytes at offset %d returned %d bytes %x…, the backend produced %d bytes %x… (%s)", count, off, len(rep.Bytes("data")), rep.Bytes("data")[:min(len(rep.Bytes("data")), 12)], len(want), want[:min(len(want), 12)], desc)
		}
		return nil
	}
	// reads that end at the end of the file: the backend returns data together with io.EOF
	for i := 0; i < c.TailReads; i++ {
		if f := read(s, 1, len(contentA)-100-i, 500, uint16(20+i), contentA); f != nil {
			return f
		}
	}
	// first read on file a is held inside the backend ...
	gate := memfs.NewGate(func(cl *memfs.Call) bool { return cl.Op == "ReadAt" && cl.Handle == hA })
	gate.After = c.HoldAfter
	fs.AddGate(gate)
	defer gate.Release()
	s.Send(refcodec.Encode(withTag(tRead(1, 0, uint64(c.SizeA)), 100)))
	select {
	case <-gate.Entered:
	case <-time.After(20 * time.Second):
		return failf("harness-gate", "HARNESS-ERROR the first read never reached the backend (%s)", desc)
	}
	// ... while a second read (file b) is served completely, several times
	for k := 0; k < 3; k++ {
		raw, err := s2.RPC(refcodec.Encode(withTag(tRead(2, uint64(k*10), uint64(c.SizeB)), uint16(101+k))))
		if err != nil {
			return failf("no-reply:read", "second read: %v (%s)", err, desc)
		}
		rep, derr := refcodec.DecodeStrict(raw)
		if derr != nil || rep.Type != refcodec.Rread {
			return failf("carry-over:reply:Rread", "second read: reply %x (%v) (%s)", raw[:min(len(raw), 40)], derr, desc)
		}
		want := contentB[k*10 : min(k*10+c.SizeB, len(contentB))]
		if !bytes.Equal(rep.Bytes("data"), want) {
			return failf("carry-over:read-data", "a read of file b served while a read of file a was inside the backend returned %x…, the backend produced %x… (%s)", rep.Bytes("data")[:min(len(rep.Bytes("data")), 12)], want[:min(len(want), 12)], desc)
		}
	}
	gate.Release()
	raw, err := s.Recv(20 * time.Second)
	if err != nil {
		return failf("no-reply:read", "first read after release: %v (%s)", err, desc)
	}
	rep, derr := refcodec.DecodeStrict(raw)
	if derr != nil || rep.Type != refcodec.Rread {
		return failf("carry-over:reply:Rread", "first read: reply %x (%v) (%s)", raw[:min(len(raw), 40)], derr, desc)
	}
	want := contentA[:min(c.SizeA, len(contentA))]
	if !bytes.Equal(rep.Bytes("data"), want) {
		return failf("carry-over:read-data", "the read of file a that was inside the backend while other reads were served returned %x…, the backend produced %x… (%s)", rep.Bytes("data")[:min(len(rep.Bytes("data")), 12)], want[:min(len(want), 12)], desc)
	}
	// and ordinary reads afterwards
	for i := 0; i < 4; i++ {
		if f := read(s, 1, i*700, 900, uint16(110+i), contentA); f != nil {
			return f
		}
	}
	return nil
}

var coKinds = []string{"walk", "walkga", "write", "read", "readdir", "symlink", "xattr", "renameat", "attach", "setxattr", "short-after-long", "setattr", "lock-short-after-long"}

func genCoCase(rt *rapid.T) coCase {
	c := coCase{Conns: rapid.IntRange(1, 3).Draw(rt, "conns")}
	n := rapid.IntRange(2, 24).Draw(rt, "n")
	// a few kinds per history so that same-type messages follow each other
	kinds := []string{rapid.SampledFrom(coKinds).Draw(rt, "k1"), rapid.SampledFrom(coKinds).Draw(rt, "k2")}
	for i := 0; i < n; i++ {
		k := rapid.SampledFrom(kinds).Draw(rt, "kind")
		s := coStep{Conn: rapid.IntRange(0, c.Conns-1).Draw(rt, "conn"), Kind: k, Salt: rapid.Byte().Draw(rt, "salt")}
		switch k {
		case "walk", "walkga":
			s.N = rapid.SampledFrom([]int{0, 1, 2, 3, 5, 16, 17, 40}).Draw(rt, "len")
			s.M = rapid.IntRange(0, 39).Draw(rt, "m")
		case "readdir":
			s.N = rapid.SampledFrom([]int{0, 1, 2, 3, 10, 60}).Draw(rt, "len")
			s.M = rapid.IntRange(0, 59).Draw(rt, "m")
		case "write", "xattr":
			s.N = rapid.SampledFrom([]int{0, 1, 2, 63, 64, 65, 500, 4096, 70000}).Draw(rt, "size")
			s.M = rapid.IntRange(0, 1000).Draw(rt, "off")
		case "read":
			s.N = rapid.SampledFrom([]int{0, 1, 2, 64, 500, 4096, 70000}).Draw(rt, "size")
			s.M = rapid.SampledFrom([]int{0, 1, 2, 63, 499, 4096, 70000}).Draw(rt, "produced")
		default:
			s.N = rapid.SampledFrom([]int{1, 2, 3, 50, 255, 3000, 60000}).Draw(rt, "slen")
			s.M = rapid.SampledFrom([]int{0, 1, 2, 50, 255, 3000, 60000}).Draw(rt, "slen2")
		}
		c.Steps = append(c.Steps, s)
	}
	return c
}

func init() {
	replayRegistrars = append(replayRegistrars, func() {
		registerReplay("C18/server", func(c coCase) *fail { return runCoCase(c, nil) })
		registerReplay("C18/client", func(c coCase) *fail { return runCoClientCase(c, nil) })
		registerReplay("C18/overlapping-reads", runOverlapCase)
		registerReplay("C18/held-writes", runHeldWriteCase)
		registerReplay("C18/client-pairs", runClientPairCase)
		registerReplay("C18/repeated-listings", func(c nestCase) *fail { return runNestCase(c, nil) })
		registerReplay("C18/concurrent-versions", runConcVersionCase)
	})
}

func TestC18(t *testing.T) {
	h := begin(t, "C18")
	defer h.Finish()
	env := h.Env
	// listings of composed file systems, repeated: the entries of a later Rreaddir
	// are those of the first (engine of C20: every way of learning a QID, two
	// traversals, through client and server)
	rapidCases(h, "repeated-listings", env.PerShard(env.Pick(320, 16000)), func(rt *rapid.T) nestCase {
		return nestCase{Root: genNestNodes(rt, 1, "e"), Server: true}
	}, func(c nestCase) *fail {
		st := &nestStats{}
		f := runNestCase(c, st)
		h.Case(evid.HashJSON(c), st.depth >= 1, "repeated-listings")
		return f
	})
	// many connections negotiating at once
	for rep := 0; rep < env.Pick(32, 640)/env.NShards+1; rep++ {
		c := concVersionCase{Conns: 8 + 8*(rep%3), Rounds: 300}
		f := runConcVersionCase(c)
		h.Case(evid.HashJSON(c)+uint64(rep*64+env.Shard), true, "concurrent-versions")
		if h.report("concurrent-versions", f, c) {
			return
		}
	}
	// two replies to one client decoded back to back
	for rep := 0; rep < env.Pick(48, 640)/env.NShards+1; rep++ {
		c := clientPairCase{Native: rep%2 == 0}
		for i := 0; i < 36; i++ {
			if rep%2 == 0 {
				c.Kinds = append(c.Kinds, []string{"fail-fail", "fail-fail", "fail-attr", "fail-read"}[i%4])
				continue
			}
			c.Kinds = append(c.Kinds, clientPairKinds[(i+rep+env.Shard)%len(clientPairKinds)])
		}
		f := runClientPairCase(c)
		h.Case(evid.HashJSON(c)+uint64(rep*64+env.Shard), true, "client:two-replies-back-to-back")
		if f != nil && strings.HasPrefix(f.Sig, "harness-") {
			t.Errorf("HARNESS-ERROR %s", f.Msg)
			continue
		}
		if h.report("client-pairs", f, c) {
			return
		}
	}
	// deterministic long -> short -> empty -> long ladders for every kind
	if env.Shard == 0 {
		for _, k := range coKinds {
			for conns := 1; conns <= 3; conns++ {
				c := coCase{Conns: conns}
				sizes := []int{40, 3, 0, 17, 1, 60, 2, 0, 5}
				if k == "write" || k == "read" || k == "xattr" {
					sizes = []int{70000, 100, 0, 4096, 1, 65, 64, 0, 500}
				}
				if k == "symlink" || k == "renameat" || k == "attach" {
					sizes = []int{60000, 3, 1, 3000, 2, 255, 1, 50, 1}
				}
				for i, n := range sizes {
					// five same-type messages in a row exceed the per-type cache of three objects
					c.Steps = append(c.Steps, coStep{Conn: i % conns, Kind: k, N: n, M: sizes[(i+3)%len(sizes)], Salt: uint8(17 * i)})
				}
				st := &coStats{}
				f := runCoCase(c, st)
				h.Case(evid.HashJSON(c), st.shorterAfterLonger > 0, "server:ladder:"+k)
				if h.report("server", f, c) {
					return
				}
				f = runCoClientCase(c, st)
				h.Case(evid.HashJSON(c)^1, st.shorterAfterLonger > 0, "client:ladder:"+k)
				if h.report("client", f, c) {
					return
				}
			}
		}
	}
	rapidCases(h, "held-writes", env.PerShard(env.Pick(800, 40000)), func(rt *rapid.T) heldWriteCase {
		c := heldWriteCase{Traffic: rapid.IntRange(1, 6).Draw(rt, "traffic"), Conns: rapid.IntRange(1, 2).Draw(rt, "conns")}
		for i := rapid.IntRange(1, 8).Draw(rt, "nheld"); i > 0; i-- {
			c.Sizes = append(c.Sizes, rapid.SampledFrom([]int{1, 2, 8, 16, 40, 41, 48, 49, 57, 64, 100, 1000, 5000}).Draw(rt, "size"))
		}
		return c
	}, func(c heldWriteCase) *fail {
		h.Case(evid.HashJSON(c), len(c.Sizes) >= 2, "held-writes")
		if h.WantSample("held-writes") {
			h.Sample("held-writes", c)
		}
		return runHeldWriteCase(c)
	})
	rapidCases(h, "overlapping-reads", env.PerShard(env.Pick(800, 60000)), func(rt *rapid.T) overlapCase {
		return overlapCase{TailReads: rapid.SampledFrom([]int{0, 1, 3, 8, 64}).Draw(rt, "tail"), HoldAfter: rapid.Bool().Draw(rt, "after"),
			SizeA: rapid.SampledFrom([]int{1, 100, 1000, 8000}).Draw(rt, "a"), SizeB: rapid.SampledFrom([]int{1, 100, 1000, 8000}).Draw(rt, "b"),
			Conns: rapid.IntRange(1, 2).Draw(rt, "conns")}
	}, func(c overlapCase) *fail {
		f := runOverlapCase(c)
		h.Case(evid.HashJSON(c), c.TailReads > 0, "overlapping-reads")
		if h.WantSample("overlapping-reads") {
			h.Sample("overlapping-reads", c)
		}
		return f
	})
	rapidCases(h, "server", env.PerShard(env.Pick(8000, 600000)), genCoCase, func(c coCase) *fail {
		st := &coStats{}
		f := runCoCase(c, st)
		h.Case(evid.HashJSON(c), st.shorterAfterLonger > 0, fmt.Sprintf("server:conns=%d", c.Conns))
		if st.shorterAfterLonger > 2 && h.WantSample("server") {
			h.Sample("server", c)
		}
		return f
	})
	rapidCases(h, "client", env.PerShard(env.Pick(8000, 600000)), genCoCase, func(c coCase) *fail {
		st := &coStats{}
		f := runCoClientCase(c, st)
		h.Case(evid.HashJSON(c)^1, st.shorterAfterLonger > 0, "client")
		if st.shorterAfterLonger > 2 && h.WantSample("client") {
			h.Sample("client", c)
		}
		return f
	})
}
