package checks

import (
	"bytes"
	"encoding/binary"
	"encoding/hex"
	"errors"
	"fmt"
	"io"
	"runtime"
	"sort"
	"strings"
	"sync"
	"testing"
	"time"

	"p9verif/evid"
	"p9verif/mockfs"
	"p9verif/peers"
	"p9verif/refcodec"
	"p9verif/vconn"

	"github.com/hugelgupf/p9/p9"
	"pgregory.net/rapid"
)

// ---------------------------------------------------------------------------
// C17 — stream segmentation independence on both receive paths

type segCase struct {
	Path   string          `json:"path"` // reader | socket
	Reqs   []*refcodec.Msg `json:"reqs"` // mutually independent requests
	Splits []int           `json:"splits"`
	CutAt  int             `json:"cut_at"` // -1: whole stream; else the stream ends after this many bytes
	// Raw[i] != "" replaces request i by these frame bytes (hex): a frame the
	// receiver rejects but that is well delimited (unknown type with a body, a
	// payload message shorter than its fixed part, a list shorter than its count)
	Raw []string `json:"raw,omitempty"`
	// reader path only: the read that delivers the last bytes of the stream returns
	// io.EOF with them; single reads at these offsets return (0, nil) first
	EOFWithData bool  `json:"eof_with_data,omitempty"`
	Empty       []int `json:"empty_reads_at,omitempty"`
	EmptyEach   bool  `json:"empty_read_before_each_read,omitempty"`
}

type segResult struct {
	replies map[uint16]string // tag -> reply bytes
	recs    []string          // normalised backend calls of the segmented part, sorted
}

var segSetup = []*refcodec.Msg{tAttach(0, nofid, ""), tWalk(0, 1, "file"), tOpen(1, 2)}

func segStream(reqs []*refcodec.Msg) ([]byte, []int) { return segStreamRaw(reqs, nil) }

func segStreamRaw(reqs []*refcodec.Msg, raw []string) ([]byte, []int) {
	var b []byte
	var ends []int
	for i, r := range reqs {
		if i < len(raw) && raw[i] != "" {
			fr, _ := hex.DecodeString(raw[i])
			if len(fr) >= 7 {
				binary.LittleEndian.PutUint16(fr[5:], uint16(10+i))
			}
			b = append(b, fr...)
			ends = append(ends, len(b))
			continue
		}
		c := cloneMsg(r)
		c.Tag = uint16(10 + i)
		b = append(b, refcodec.Encode(c)...)
		ends = append(ends, len(b))
	}
	return b, ends
}

// genRejectedFrame builds a frame the server must reject and skip as a whole.
func genRejectedFrame(rt *rapid.T) (string, string) {
	switch rapid.IntRange(0, 2).Draw(rt, "rk") {
	case 0: // unknown type, any body
		known := map[uint8]bool{}
		for _, t := range p9.VerifRegisteredTypes() {
			known[t] = true
		}
		t := rapid.Uint8().Filter(func(t uint8) bool { return !known[t] }).Draw(rt, "rtype")
		n := rapid.SampledFrom([]int{0, 1, 2, 9, 40, 300, 5000}).Draw(rt, "rn")
		return hex.EncodeToString(refcodec.Frame(t, 0, bytes.Repeat([]byte{0x5a}, n))), "unknown-type"
	case 1: // Twrite whose body is shorter than its fixed part
		n := rapid.IntRange(0, 15).Draw(rt, "rshort")
		return hex.EncodeToString(refcodec.Frame(refcodec.Twrite, 0, bytes.Repeat([]byte{1}, n))), "short-payload-message"
	default: // Twalk announcing more names than it carries
		fr := refcodec.Encode(tWalk(0, 70, "abc", "defgh"))
		cut := rapid.IntRange(1, 9).Draw(rt, "rcut")
		fr = fr[:len(fr)-cut]
		binary.LittleEndian.PutUint32(fr, uint32(len(fr)))
		return hex.EncodeToString(fr), "short-list"
	}
}

func normRec(rc mockfs.Rec, known map[int]string) string {
	who := known[rc.File]
	if who == "" {
		who = "new"
	}
	return fmt.Sprintf("%s@%s names=%q name=%q name2=%q u=%v data=%x mask=%v smask=%v sattr=%v", rc.Op, who, rc.Names, rc.Name, rc.Name2, rc.U, rc.Data, rc.Mask, rc.SMask, rc.SAttr)
}

// runSeg delivers the setup lock-step and then the request stream in the
// chunks given by the split points; it returns what the peer and the backend saw.
func runSeg(c segCase) (*segResult, *fail) {
	mock := mockfs.New(true)
	mock.DefaultMode = p9.ModeRegular | 0o644
	srv := p9.NewServer(mock)
	stream, _ := segStreamRaw(c.Reqs, c.Raw)
	if c.CutAt >= 0 && c.CutAt < len(stream) {
		stream = stream[:c.CutAt]
	}
	var replyBytes []byte
	setupRecs := 0
	if c.Path == "reader" {
		s := peers.Start(srv)
		if _, err := s.Version(64<<10, "9P2000.L.Google.7"); err != nil {
			return nil, failf("harness-version", "HARNESS-ERROR %v", err)
		}
		for i, m := range segSetup {
			r, err := s.Call(withTag(cloneMsg(m), uint16(1+i)))
			if err != nil || r.Type == refcodec.Rlerror {
				return nil, failf("harness-setup", "HARNESS-ERROR %s: %v %v", m, r, err)
			}
		}
		setupRecs = mock.NCalls()
		base := s.C2S.Written()
		var abs []int
		for _, sp := range c.Splits {
			abs = append(abs, base+sp)
		}
		s.C2S.SetSplits(abs)
		var empty []int
		for _, e := range c.Empty {
			empty = append(empty, base+e)
		}
		s.C2S.EmptyReadsAt(empty)
		s.C2S.EOFWithData(c.EOFWithData)
		s.C2S.EmptyBeforeEachRead(c.EmptyEach)
		before := s.S2C.Written()
		if c.EOFWithData {
			s.C2S.WriteFinal(stream)
		} else {
			s.Send(stream)
		}
		if !s.Close(20 * time.Second) {
			return nil, failf("handle-did-not-return", "Handle did not return after the stream ended (splits %v, cut %d)", c.Splits, c.CutAt)
		}
		replyBytes = s.S2C.Slice(before, s.S2C.Written())
	} else {
		sock, err := vconn.NewSock()
		if err != nil {
			return nil, failf("harness-sock", "HARNESS-ERROR %v", err)
		}
		defer sock.Close()
		done := make(chan struct{})
		go func() { srv.Handle(sock.Conn, sock.Conn); close(done) }()
		sock.SetReadDeadline(time.Now().Add(30 * time.Second))
		lock := func(m *refcodec.Msg) *fail {
			if err := sock.Deliver(refcodec.Encode(m), 10*time.Second); err != nil {
				return failf("harness-deliver", "HARNESS-ERROR %v", err)
			}
			raw, err := peers.ReadFrame(sock)
			if err != nil {
				return failf("harness-setup", "HARNESS-ERROR %s: %v", m, err)
			}
			if _, isErr := refcodec.Errno(raw); isErr {
				return failf("harness-setup", "HARNESS-ERROR %s => %x", m, raw)
			}
			return nil
		}
		if f := lock(refcodec.New(refcodec.Tversion, refcodec.NOTAG, "msize", 64<<10, "version", "9P2000.L.Google.7")); f != nil {
			return nil, f
		}
		for i, m := range segSetup {
			if f := lock(withTag(cloneMsg(m), uint16(1+i))); f != nil {
				return nil, f
			}
		}
		setupRecs = mock.NCalls()
		prev := 0
		cuts := append(append([]int{}, c.Splits...), len(stream))
		sort.Ints(cuts)
		for _, sp := range cuts {
			if sp <= prev || sp > len(stream) {
				continue
			}
			if err := sock.Deliver(stream[prev:sp], 10*time.Second); err != nil {
				return nil, failf("reader-stalled", "the receiver did not take a delivered chunk (bytes %d..%d of the stream): %v", prev, sp, err)
			}
			prev = sp
		}
		sock.CloseWrite()
		var buf bytes.Buffer
		if _, err := io.Copy(&buf, sock); err != nil && !errors.Is(err, io.EOF) {
			// a deadline here means Handle never closed the connection
			return nil, failf("handle-did-not-return", "reading the replies after the stream ended: %v", err)
		}
		select {
		case <-done:
		case <-time.After(20 * time.Second):
			return nil, failf("handle-did-not-return", "Handle did not return after the stream ended (socket path)")
		}
		replyBytes = buf.Bytes()
	}
	res := &segResult{replies: map[uint16]string{}}
	for len(replyBytes) > 0 {
		if len(replyBytes) < 7 {
			return nil, failf("reply-stream-corrupt", "trailing %d bytes in the reply stream", len(replyBytes))
		}
		n := int(binary.LittleEndian.Uint32(replyBytes))
		if n < 7 || n > len(replyBytes) {
			return nil, failf("reply-stream-corrupt", "reply frame with size %d, %d bytes left", n, len(replyBytes))
		}
		tag := binary.LittleEndian.Uint16(replyBytes[5:])
		if _, dup := res.replies[tag]; dup {
			return nil, failf("duplicate-reply", "two replies with tag %d", tag)
		}
		res.replies[tag] = string(replyBytes[:n])
		replyBytes = replyBytes[n:]
	}
	known := map[int]string{1: "root", 2: "file"}
	for _, rc := range mock.Calls(setupRecs) {
		if rc.Op == "Close" {
			continue
		}
		res.recs = append(res.recs, normRec(rc, known))
	}
	sort.Strings(res.recs)
	return res, nil
}

func segCompare(c segCase, base, got *segResult, what string) *fail {
	desc := fmt.Sprintf("%s path, splits %v, cut %d, %d requests", c.Path, c.Splits, c.CutAt, len(c.Reqs))
	if len(base.replies) != len(got.replies) {
		return failf("segmentation:reply-count:"+what, "%s: %d replies, whole-stream delivery gives %d", desc, len(got.replies), len(base.replies))
	}
	for tag, want := range base.replies {
		if got.replies[tag] != want {
			return failf("segmentation:reply-differs:"+what, "%s: reply to tag %d is %x, whole-stream delivery gives %x", desc, tag, got.replies[tag], want)
		}
	}
	if strings.Join(base.recs, "\n") != strings.Join(got.recs, "\n") {
		return failf("segmentation:backend-calls-differ:"+what, "%s: the backend saw\n%s\nwhole-stream delivery gives\n%s", desc, strings.Join(got.recs, "\n"), strings.Join(base.recs, "\n"))
	}
	return nil
}

// runSegCase: the metamorphic relation.
func runSegCase(c segCase) *fail {
	stream, ends := segStreamRaw(c.Reqs, c.Raw)
	// reference: the same requests, whole-stream delivery through an io.Reader;
	// for a truncated stream only the frames that are completely contained
	ref := segCase{Path: "reader", Reqs: c.Reqs, Raw: c.Raw, CutAt: -1}
	if c.CutAt >= 0 && c.CutAt < len(stream) {
		n := 0
		for _, e := range ends {
			if e <= c.CutAt {
				n++
			}
		}
		ref.Reqs = c.Reqs[:n]
		if len(ref.Raw) > n {
			ref.Raw = ref.Raw[:n]
		}
	}
	base, f := runSeg(ref)
	if f != nil {
		return f
	}
	got, f := runSeg(c)
	if f != nil {
		return f
	}
	what := "split"
	if c.CutAt >= 0 {
		what = "truncated"
	}
	f = segCompare(c, base, got, what)
	if f != nil && c.CutAt >= 0 && len(ref.Reqs) < len(c.Reqs) && len(ref.Reqs) < len(c.Raw) && c.Raw[len(ref.Reqs)] != "" {
		// The stream ends inside a frame that is rejected on the strength of its
		// header alone: answering it with Rlerror before noticing the end of the
		// stream delivers no truncated message, so both outcomes are accepted.
		ref2 := ref
		ref2.Reqs, ref2.Raw = c.Reqs[:len(ref.Reqs)+1], c.Raw[:len(ref.Reqs)+1]
		base2, f2 := runSeg(ref2)
		if f2 != nil {
			return f2
		}
		if segCompare(c, base2, got, what) == nil {
			return nil
		}
	}
	return f
}

func genSegReq(rt *rapid.T, i int) *refcodec.Msg {
	switch rapid.IntRange(0, 7).Draw(rt, "k") {
	case 0, 1, 2:
		n := rapid.SampledFrom([]int{0, 1, 5, 40, 300, 5000}).Draw(rt, "wn")
		d := bytes.Repeat([]byte{byte('a' + i)}, n)
		if n > 0 {
			d[n-1] = rapid.Byte().Draw(rt, "wl")
		}
		return refcodec.New(refcodec.Twrite, 0, "fid", 1, "offset", genU64(rt, "off")>>1, "data", d)
	case 3:
		return tGetattr(uint64(rapid.IntRange(0, 1).Draw(rt, "f")))
	case 4:
		return tWalk(0, uint64(50+i), string(genSafeName(rt, "n")[:1]), "y")
	case 5:
		return tSetattr(1, uint64(rapid.IntRange(0, 0x1ff).Draw(rt, "v")), uint64(genU32(rt, "m")&0o7777), genU64(rt, "sz"))
	case 6:
		return tRead(1, genU64(rt, "off")>>1, uint64(rapid.IntRange(0, 100).Draw(rt, "cnt")))
	default:
		return tStatfs(1)
	}
}

// --- client direction -------------------------------------------------------------

type segClientCase struct {
	Path   string   `json:"path"`
	Calls  []string `json:"calls"` // getattr | read | readdir | walk | readlink
	Sizes  []int    `json:"sizes"` // payload size per call
	Splits []int    `json:"splits"`
	CutAt  int      `json:"cut_at"`
	Seed   uint64   `json:"seed"`
}

func runSegClientCase(c segClientCase) *fail {
	var conn io.ReadWriteCloser
	var sock *vconn.Sock
	var fk *peers.Fake
	readReq := func() ([]byte, error) { return nil, nil }
	if c.Path == "socket" {
		var err error
		sock, err = vconn.NewSock()
		if err != nil {
			return failf("harness-sock", "HARNESS-ERROR %v", err)
		}
		defer sock.Close()
		conn = sock.Conn
		sock.SetReadDeadline(time.Now().Add(30 * time.Second))
		readReq = func() ([]byte, error) { return peers.ReadFrame(sock) }
	} else {
		fk = peers.NewFake()
		defer fk.Close()
		conn = fk.Client
		readReq = func() ([]byte, error) { return fk.Next(20 * time.Second) }
	}
	sendWhole := func(b []byte) {
		if sock != nil {
			sock.Deliver(b, 10*time.Second)
		} else {
			fk.Send(b)
		}
	}
	// negotiation and attach, lock-step, in a helper goroutine because NewClient blocks
	type cres struct {
		cl  *p9.Client
		f   p9.File
		err error
	}
	cch := make(chan cres, 1)
	go func() {
		cl, err := p9.NewClient(conn)
		if err != nil {
			cch <- cres{err: err}
			return
		}
		f, err := cl.Attach("")
		cch <- cres{cl, f, err}
	}()
	for i := 0; i < 2; i++ {
		raw, err := readReq()
		if err != nil {
			return failf("harness-setup", "HARNESS-ERROR reading setup request: %v", err)
		}
		m, _ := refcodec.DecodeStrict(raw)
		sendWhole(refcodec.Encode(peers.GenericReply(m, 0)))
	}
	cr := <-cch
	if cr.err != nil {
		return failf("harness-setup", "HARNESS-ERROR client setup: %v", cr.err)
	}
	defer runtime.KeepAlive(cr.f)
	rng := newSplitMix(c.Seed)
	type outcome struct {
		err  error
		data []byte
		repr string
	}
	outs := make([]outcome, len(c.Calls))
	var wg sync.WaitGroup
	// expected values per call kind are derived from the request the fake sees
	for i, k := range c.Calls {
		wg.Add(1)
		go func(i int, k string) {
			defer wg.Done()
			switch k {
			case "read":
				buf := make([]byte, c.Sizes[i])
				n, err := cr.f.ReadAt(buf, int64(1000*i))
				if err == io.EOF { // the bare end-of-file signal of an empty read, not a connection error
					err = nil
				}
				outs[i] = outcome{err: err, data: buf[:n]}
			case "getattr":
				q, v, a, err := cr.f.GetAttr(maskP(uint16(i + 1))) // the mask identifies the call
				outs[i] = outcome{err: err, repr: fmt.Sprint(qidR(q), maskU(v), attrR(a))}
			case "readdir":
				ents, err := cr.f.Readdir(uint64(7000+i), 60000)
				outs[i] = outcome{err: err, repr: fmt.Sprint(entsR(ents))}
			case "readlink":
				s, err := cr.f.Readlink()
				outs[i] = outcome{err: err, repr: s}
			default:
				qs, nf, err := cr.f.Walk([]string{fmt.Sprintf("w%d", i), "x"})
				if nf != nil {
					defer runtime.KeepAlive(nf)
				}
				outs[i] = outcome{err: err, repr: fmt.Sprint(qs)}
			}
		}(i, k)
	}
	// collect the requests, build the replies in arrival order
	var stream []byte
	var ends []int
	expect := map[int]outcome{} // by call index
	order := []int{}
	for range c.Calls {
		raw, err := readReq()
		if err != nil {
			return failf("harness-requests", "HARNESS-ERROR reading request: %v", err)
		}
		m, derr := refcodec.DecodeStrict(raw)
		if derr != nil {
			return failf("harness-requests", "HARNESS-ERROR request %x: %v", raw, derr)
		}
		var rep *refcodec.Msg
		idx := -1
		switch m.Type {
		case refcodec.Tread:
			idx = int(m.U("offset") / 1000)
			d := make([]byte, c.Sizes[idx])
			for j := range d {
				d[j] = byte(rng.next())
			}
			rep = refcodec.New(refcodec.Rread, m.Tag, "data", d)
			expect[idx] = outcome{data: d}
		case refcodec.Tgetattr:
			a := refcodec.Attr{}
			for j := range a {
				a[j] = rng.next()
				if j < 3 {
					a[j] &= 0xffffffff
				}
			}
			q := refcodec.QID{Type: uint8(rng.next()), Version: uint32(rng.next()), Path: rng.next()}
			v := rng.next() & 0x3fff
			rep = refcodec.New(refcodec.Rgetattr, m.Tag, "valid", v, "qid", q, "attr", a)
			idx = int(m.U("request_mask")) - 1
			expect[idx] = outcome{repr: fmt.Sprint(q, v, a)}
		case refcodec.Treaddir:
			idx = int(m.U("offset") - 7000)
			ds := []refcodec.Dirent{}
			for j := 0; j < c.Sizes[idx]%9; j++ {
				ds = append(ds, refcodec.Dirent{QID: refcodec.QID{Path: rng.next()}, Offset: rng.next(), Type: uint8(rng.next()), Name: fmt.Sprintf("entry-%d-%d", idx, j)})
			}
			rep = refcodec.New(refcodec.Rreaddir, m.Tag, "entries", ds)
			expect[idx] = outcome{repr: fmt.Sprint(ds)}
		case refcodec.Treadlink:
			for j, k := range c.Calls {
				if k == "readlink" {
					if _, done := expect[j]; !done {
						idx = j
						break
					}
				}
			}
			t := strings.Repeat("t", c.Sizes[idx]%300)
			rep = refcodec.New(refcodec.Rreadlink, m.Tag, "target", t)
			expect[idx] = outcome{repr: t}
		case refcodec.Twalk:
			fmt.Sscanf(m.Strs("wnames")[0], "w%d", &idx)
			qs := []refcodec.QID{{Type: 0x80, Path: rng.next()}, {Path: rng.next()}}
			rep = refcodec.New(refcodec.Rwalk, m.Tag, "wqids", qs)
			var pq []p9.QID
			for _, q := range qs {
				pq = append(pq, p9.QID{Type: p9.QIDType(q.Type), Version: q.Version, Path: q.Path})
			}
			expect[idx] = outcome{repr: fmt.Sprint(pq)}
		default:
			return failf("harness-requests", "HARNESS-ERROR unexpected request %s", m)
		}
		stream = append(stream, refcodec.Encode(rep)...)
		ends = append(ends, len(stream))
		order = append(order, idx)
	}
	full := len(stream)
	if c.CutAt >= 0 && c.CutAt < full {
		stream = stream[:c.CutAt]
	}
	// deliver in chunks
	cuts := append(append([]int{}, c.Splits...), len(stream))
	sort.Ints(cuts)
	if sock != nil {
		prev := 0
		for _, sp := range cuts {
			if sp <= prev || sp > len(stream) {
				continue
			}
			if err := sock.Deliver(stream[prev:sp], 10*time.Second); err != nil {
				return failf("reader-stalled", "the client did not take a delivered chunk (bytes %d..%d): %v", prev, sp, err)
			}
			prev = sp
		}
		if c.CutAt >= 0 {
			sock.CloseWrite()
		}
	} else {
		base := fk.Srv.Out.Written()
		var abs []int
		for _, sp := range c.Splits {
			abs = append(abs, base+sp)
		}
		fk.Srv.Out.SetSplits(abs)
		fk.Send(stream)
		if c.CutAt >= 0 {
			fk.Srv.Out.CloseWrite()
		}
	}
	done := make(chan struct{})
	go func() { wg.Wait(); close(done) }()
	select {
	case <-done:
	case <-time.After(20 * time.Second):
		return failf("client-call-hangs", "client calls did not return (%s path, splits %v, cut %d of %d reply bytes)", c.Path, c.Splits, c.CutAt, full)
	}
	desc := fmt.Sprintf("%s path, splits %v, cut %d of %d reply bytes, calls %v", c.Path, c.Splits, c.CutAt, full, c.Calls)
	for pos, idx := range order {
		complete := c.CutAt < 0 || ends[pos] <= c.CutAt
		got, want := outs[idx], expect[idx]
		if !complete {
			if got.err == nil {
				return failf("truncated-reply-delivered", "%s: call %d (%s) succeeded although its reply was cut off", desc, idx, c.Calls[idx])
			}
			continue
		}
		if got.err != nil {
			return failf("segmentation:client-call-failed", "%s: call %d (%s) failed with %v although its reply was delivered completely", desc, idx, c.Calls[idx], got.err)
		}
		if !bytes.Equal(got.data, want.data) || (want.data == nil && got.repr != want.repr) {
			return failf("segmentation:client-values-differ", "%s: call %d (%s) returned %.200s / %x…, the reply carried %.200s / %x…", desc, idx, c.Calls[idx], got.repr, got.data[:min(len(got.data), 24)], want.repr, want.data[:min(len(want.data), 24)])
		}
	}
	return nil
}

func init() {
	replayRegistrars = append(replayRegistrars, func() {
		registerReplay("C17/server", runSegCase)
		registerReplay("C17/client", runSegClientCase)
	})
}

func segHash(c segCase) uint64 {
	s, _ := segStreamRaw(c.Reqs, c.Raw)
	var sp []uint32
	for _, x := range c.Splits {
		sp = append(sp, uint32(x))
	}
	return evid.Hash64([]byte(c.Path), s, u32b(sp...), u32b(uint32(c.CutAt+1)))
}

// strictlyInside reports whether an offset falls inside a frame (not on a boundary).
func strictlyInside(ends []int, off int) bool {
	for _, e := range ends {
		if off == e {
			return false
		}
	}
	return off > 0
}

func TestC17(t *testing.T) {
	h := begin(t, "C17")
	defer h.Finish()
	env := h.Env
	limit := env.Pick(70, 160)

	// enumerated: short streams, every single split, every pair of splits, every truncation point
	short := [][]*refcodec.Msg{
		{tGetattr(1), tWrite(1, 5, "payload!")},
		{tWrite(1, 0, "ab"), tWrite(1, 9, ""), tStatfs(1)},
		{tWalk(0, 60, "a", "bc"), tRead(1, 3, 10)},
	}
	n := 0
	for si, reqs := range short {
		stream, ends := segStream(reqs)
		if len(stream) > limit {
			continue
		}
		for _, path := range []string{"reader", "socket"} {
			for a := 1; a < len(stream); a++ {
				n++
				if n%env.NShards == env.Shard {
					c := segCase{Path: path, Reqs: reqs, Splits: []int{a}, CutAt: -1}
					h.Case(segHash(c), strictlyInside(ends, a), "server:single-split:"+path)
					if h.report("server", runSegCase(c), c) {
						return
					}
					if path == "reader" {
						// the same split with an empty read in front of the second part, and
						// with the end of the stream reported together with the last bytes
						c.Empty = []int{a}
						h.Case(segHash(c)+1, true, "server:empty-read:reader")
						if h.report("server", runSegCase(c), c) {
							return
						}
						c.Empty, c.EOFWithData = nil, true
						h.Case(segHash(c)+2, true, "server:eof-with-last-bytes:reader")
						if h.report("server", runSegCase(c), c) {
							return
						}
					}
				}
				for b := a + 1; b < len(stream); b++ {
					if path == "socket" && !env.Thorough() && (a+b)%3 != 0 {
						continue // the socket path is slower; the quick tier samples pairs
					}
					n++
					if n%env.NShards != env.Shard {
						continue
					}
					c := segCase{Path: path, Reqs: reqs, Splits: []int{a, b}, CutAt: -1}
					h.Case(segHash(c), strictlyInside(ends, a) || strictlyInside(ends, b), "server:pair-of-splits:"+path)
					if h.report("server", runSegCase(c), c) {
						return
					}
				}
			}
			for cut := 0; cut < len(stream); cut++ {
				n++
				if n%env.NShards != env.Shard {
					continue
				}
				c := segCase{Path: path, Reqs: reqs, CutAt: cut}
				h.Case(segHash(c), strictlyInside(ends, cut), "server:truncation:"+path)
				if h.report("server", runSegCase(c), c) {
					return
				}
			}
			// single-byte delivery
			var all []int
			for i := 1; i < len(stream); i++ {
				all = append(all, i)
			}
			c := segCase{Path: path, Reqs: reqs, Splits: all, CutAt: -1}
			h.Case(segHash(c), true, "server:byte-by-byte:"+path)
			if h.report("server", runSegCase(c), c) {
				return
			}
		}
		h.Exhaustive(fmt.Sprintf("short stream %d (%d bytes): every single split, every pair (sampled on the socket path in the quick tier), every truncation point, byte-by-byte, both receive paths", si, len(stream)))
	}

	rapidCases(h, "server", env.PerShard(env.Pick(6000, 120000)), func(rt *rapid.T) segCase {
		c := segCase{Path: rapid.SampledFrom([]string{"reader", "socket"}).Draw(rt, "path"), CutAt: -1}
		nr := rapid.IntRange(1, 6).Draw(rt, "n")
		for i := 0; i < nr; i++ {
			c.Reqs = append(c.Reqs, genSegReq(rt, i))
		}
		if rapid.IntRange(0, 2).Draw(rt, "rejected") == 0 {
			// one rejected frame somewhere in the stream (one: a short payload message is answered with NOTAG)
			c.Raw = make([]string, nr)
			c.Raw[rapid.IntRange(0, nr-1).Draw(rt, "rat")], _ = genRejectedFrame(rt)
		}
		stream, ends := segStreamRaw(c.Reqs, c.Raw)
		if c.Raw != nil && rapid.Bool().Draw(rt, "aim") {
			// aim one split into the rejected frame
			for i, r := range c.Raw {
				if r != "" && ends[i]-len(r)/2+1 < ends[i] {
					c.Splits = append(c.Splits, rapid.IntRange(ends[i]-len(r)/2+1, ends[i]-1).Draw(rt, "rsp"))
				}
			}
		}
		switch rapid.IntRange(0, 4).Draw(rt, "mode") {
		case 0:
			for i := 1; i < len(stream) && i < 400; i++ {
				c.Splits = append(c.Splits, i)
			}
		case 1:
			c.CutAt = rapid.IntRange(0, len(stream)-1).Draw(rt, "cut")
			fallthrough
		default:
			for k := rapid.IntRange(0, 8).Draw(rt, "ns"); k > 0; k-- {
				c.Splits = append(c.Splits, rapid.IntRange(1, len(stream)-1+1).Draw(rt, "sp"))
			}
			sort.Ints(c.Splits)
		}
		if c.Path == "reader" {
			// deliveries io.Reader allows besides plain splits
			c.EOFWithData = rapid.IntRange(0, 2).Draw(rt, "eofdata") == 0
			c.EmptyEach = rapid.IntRange(0, 3).Draw(rt, "emptyeach") == 0
			for k := rapid.IntRange(0, 2).Draw(rt, "nempty"); k > 0 && rapid.Bool().Draw(rt, "empty"); k-- {
				// (an empty read happens where a read starts: at a split)
				e := rapid.IntRange(0, len(stream)-1).Draw(rt, "emptyat")
				c.Empty = append(c.Empty, e)
				if e > 0 {
					c.Splits = append(c.Splits, e)
				}
			}
			sort.Ints(c.Splits)
		}
		return c
	}, func(c segCase) *fail {
		f := runSegCase(c)
		_, ends := segStreamRaw(c.Reqs, c.Raw)
		inside := false
		for _, sp := range c.Splits {
			inside = inside || strictlyInside(ends, sp)
		}
		cls := "server:random:" + c.Path
		for i, r := range c.Raw {
			if r == "" {
				continue
			}
			cls = "server:random-with-rejected-frame:" + c.Path
			for _, sp := range c.Splits {
				if sp > ends[i]-len(r)/2 && sp < ends[i] {
					h.Count("split-inside-a-rejected-frame", 1)
					break
				}
			}
		}
		h.Case(segHash(c), inside || c.CutAt >= 0, cls)
		if inside && h.WantSample("server") {
			h.Sample("server", c)
		}
		return f
	})

	rapidCases(h, "client", env.PerShard(env.Pick(4000, 80000)), func(rt *rapid.T) segClientCase {
		c := segClientCase{Path: rapid.SampledFrom([]string{"reader", "socket"}).Draw(rt, "path"), CutAt: -1, Seed: rapid.Uint64Range(1, 1<<40).Draw(rt, "seed")}
		nc := rapid.IntRange(1, 4).Draw(rt, "n")
		total := 0
		for i := 0; i < nc; i++ {
			k := rapid.SampledFrom([]string{"read", "read", "getattr", "readdir", "walk", "readlink"}).Draw(rt, "call")
			for _, prev := range c.Calls {
				if prev == "readlink" && k == "readlink" {
					k = "read" // identical requests could not be told apart
				}
			}
			c.Calls = append(c.Calls, k)
			sz := rapid.SampledFrom([]int{0, 1, 7, 100, 3000, 20000}).Draw(rt, "size")
			c.Sizes = append(c.Sizes, sz)
			total += sz + 200
		}
		switch rapid.IntRange(0, 4).Draw(rt, "mode") {
		case 0:
			for i := 1; i < 300; i++ {
				c.Splits = append(c.Splits, i)
			}
		case 1:
			c.CutAt = rapid.IntRange(0, total).Draw(rt, "cut")
			fallthrough
		default:
			for k := rapid.IntRange(0, 8).Draw(rt, "ns"); k > 0; k-- {
				c.Splits = append(c.Splits, rapid.IntRange(1, total).Draw(rt, "sp"))
			}
			sort.Ints(c.Splits)
		}
		return c
	}, func(c segClientCase) *fail {
		f := runSegClientCase(c)
		h.Case(evid.HashJSON(c), len(c.Splits) > 0 || c.CutAt >= 0, "client:"+c.Path)
		if len(c.Splits) > 0 && len(c.Splits) < 10 && h.WantSample("client") {
			h.Sample("client", c)
		}
		return f
	})
}
