package checks

import (
	"fmt"
	"strings"
	"testing"
	"time"

	"p9verif/evid"
	"p9verif/memfs"
	"p9verif/memtree"
	"p9verif/peers"
	"p9verif/refcodec"
	"p9verif/refmodel"

	"github.com/hugelgupf/p9/p9"
	"pgregory.net/rapid"
)

// ---------------------------------------------------------------------------
// C05 — File lifecycle

// genSessionReqs draws a request sequence with the C04 generator (state
// biased through a private model).
func genSessionReqs(rt *rapid.T, maxLen int) []*refcodec.Msg {
	m := refmodel.New(1)
	memtree.Populate(m.Tree)
	var out []*refcodec.Msg
	for _, r := range c04Prefixes[1] {
		out = append(out, r)
		m.Assume(m.Step(0, r))
	}
	fidAlpha := []uint64{0, 1, 2, 3, 4, nofid}
	names := []string{"d", "f", "e", "x", "l", "p", "y", "d", "f", "x"}
	n := rapid.IntRange(1, maxLen).Draw(rt, "len")
	for i := 0; i < n; i++ {
		r := genReq(rt, m, 0, fidAlpha, names)
		out = append(out, r)
		m.Assume(m.Step(0, r))
	}
	return out
}

// cutCase: the request stream of a session is fed at once (pipelined) and cut
// after Cut bytes; optionally the GateAt-th backend call of the session is
// held inside the backend at the moment of the cut.
type cutCase struct {
	Native bool            `json:"native_walkgetattr"`
	Reqs   []*refcodec.Msg `json:"reqs"`
	Cut    int             `json:"cut"`     // -1: whole stream
	GateAt int             `json:"gate_at"` // 0: no gate; k: hold the k-th backend call
}

func sessionStream(reqs []*refcodec.Msg) []byte {
	b := refcodec.Encode(refcodec.New(refcodec.Tversion, refcodec.NOTAG, "msize", 64<<10, "version", "9P2000.L.Google.7"))
	for i, r := range reqs {
		c := cloneMsg(r)
		c.Tag = uint16(i + 1)
		b = append(b, refcodec.Encode(c)...)
	}
	return b
}

type cutStats struct {
	handles          int
	gateHeld         bool
	closedByTeardown int
}

func runCutCase(c cutCase, st *cutStats) *fail {
	fs := memfs.New(memfs.Options{NativeWalkGetAttr: c.Native})
	memtree.Populate(fs.Tree)
	srv := p9.NewServer(fs)
	var gate *memfs.Gate
	if c.GateAt > 0 {
		k := c.GateAt
		gate = memfs.NewGate(func(call *memfs.Call) bool { return call.Seq == k && call.Op != "Close" })
		fs.AddGate(gate)
		defer gate.Release()
	}
	s := peers.Start(srv)
	stream := sessionStream(c.Reqs)
	cut := c.Cut
	if cut < 0 || cut > len(stream) {
		cut = len(stream)
	}
	// negotiation completes first (a read before negotiation is outside the domain)
	vlen := len(refcodec.Encode(refcodec.New(refcodec.Tversion, refcodec.NOTAG, "msize", 64<<10, "version", "9P2000.L.Google.7")))
	if cut >= vlen {
		s.Send(stream[:vlen])
		if _, err := s.Recv(20 * time.Second); err != nil {
			return failf("harness-version", "HARNESS-ERROR no Rversion: %v", err)
		}
		s.Send(stream[vlen:cut])
	} else {
		s.Send(stream[:cut])
	}
	desc := func() string {
		return fmt.Sprintf("stream of %d requests cut after %d of %d bytes (gate at call %d)", len(c.Reqs), cut, len(stream), c.GateAt)
	}
	held := false
	var heldCall *memfs.Call
	if gate != nil {
		select {
		case heldCall = <-gate.Entered:
			held = true
		case <-time.After(30 * time.Millisecond):
		}
	}
	// wait until the server has taken every byte offered
	if !s.C2S.WaitConsumed(cut, 20*time.Second) {
		if !held {
			return failf("server-stopped-reading", "server did not consume the offered bytes: %s", desc())
		}
	}
	s.C2S.CloseWrite() // the cut
	if held {
		if st != nil {
			st.gateHeld = true
		}
		// Handle must wait for the running handler; no Close on the held handle
		select {
		case <-s.Done():
			return failf("handle-returned-with-request-in-flight", "Handle returned while %s was still inside the backend: %s", heldCall.String(), desc())
		case <-time.After(15 * time.Millisecond):
		}
		for _, a := range fs.Anomalies() {
			if a.Kind == "close-during-call" {
				return failf(a.Sig, "Close ran while a call was inside the same File: %s / %s: %s", a.A, a.B, desc())
			}
		}
		if hi, ok := fs.HandleByID(heldCall.Handle); ok && hi.Closed {
			return failf("close-during-call:"+heldCall.Op, "File h%d was closed while %s was still running: %s", hi.ID, heldCall.String(), desc())
		}
		gate.Release()
	}
	if gate != nil {
		// (a call that reaches the gate only now - the machine is busy - must not be
		// kept there: Handle is owed a return only once its handlers can finish)
		gate.Release()
	}
	select {
	case <-s.Done():
	case <-time.After(20 * time.Second):
		return failf("handle-did-not-return", "Server.Handle did not return within 20s after the cut: %s; inside backend: %v", desc(), fs.Inside())
	}
	for _, a := range fs.Anomalies() {
		if a.Kind == "use-after-close" || a.Kind == "double-close" || a.Kind == "close-during-call" {
			return failf(a.Sig, "%s: %s %s: %s", a.Kind, a.A, a.B, desc())
		}
	}
	for _, h := range fs.Handles() {
		if st != nil {
			st.handles++
		}
		if h.Closes != 1 {
			return failf(fmt.Sprintf("closed-%d-times-at-teardown", min(h.Closes, 2)), "File h%d (%s) was closed %d times by the end of the connection: %s; log: %s", h.ID, h.Path, h.Closes, desc(), logString(fs.LogSince(0)))
		}
	}
	if n, stack := serverGoroutines(5 * time.Second); n > 0 {
		return failf("goroutine-left-behind", "%d server goroutine(s) alive after Handle returned: %s: %s", n, desc(), stack)
	}
	return nil
}

func logString(calls []memfs.Call) string {
	var b strings.Builder
	for i, c := range calls {
		if i > 60 {
			b.WriteString("…")
			break
		}
		b.WriteString(c.String())
		b.WriteString("; ")
	}
	return b.String()
}

// raceCase: an operation on a fid is held inside the backend while a Tclunk
// (or a replacing Twalk/Tattach, or Tremove) of the same fid is served.
type raceCase struct {
	Native bool   `json:"native_walkgetattr"`
	Op     string `json:"op"`     // which operation is held
	Unbind string `json:"unbind"` // clunk | remove | replace-walk | replace-attach | disconnect
}

var raceOps = []string{"getattr", "read", "write", "readdir", "walk", "walkgetattr", "setattr", "mkdir", "fsync", "readlink", "statfs", "open", "xattrwalk", "unlinkat", "renameat", "create", "symlink", "mknod", "link"}
var raceUnbinds = []string{"clunk", "remove", "replace-walk", "replace-attach", "disconnect", "disconnect-other"}

func runRaceCase(c raceCase) *fail {
	fs := memfs.New(memfs.Options{NativeWalkGetAttr: c.Native})
	memtree.Populate(fs.Tree)
	srv := p9.NewServer(fs)
	s := peers.Start(srv)
	call := func(m *refcodec.Msg) (*refcodec.Msg, *fail) {
		m.Tag = s.Tag()
		r, err := s.Call(m)
		if err != nil {
			return nil, failf("no-reply:setup", "%s: %v", m, err)
		}
		return r, nil
	}
	if _, err := s.Version(64<<10, "9P2000.L.Google.7"); err != nil {
		return failf("harness-version", "HARNESS-ERROR %v", err)
	}
	// fid 0 = /, fid 1 = target of the held op, fid 2 = helper directory
	setup := []*refcodec.Msg{tAttach(0, nofid, "")}
	var op *refcodec.Msg
	var opName string
	switch c.Op {
	case "getattr":
		setup = append(setup, tWalk(0, 1, "d", "f"))
		op, opName = tGetattr(1), "GetAttr"
	case "read":
		setup = append(setup, tWalk(0, 1, "d", "f"), tOpen(1, 0))
		op, opName = tRead(1, 0, 4), "ReadAt"
	case "write":
		setup = append(setup, tWalk(0, 1, "d", "f"), tOpen(1, 2))
		op, opName = tWrite(1, 0, "zz"), "WriteAt"
	case "readdir":
		setup = append(setup, tWalk(0, 1, "d"), tOpen(1, 0))
		op, opName = tReaddir(1, 0, 1000), "Readdir"
	case "walk":
		setup = append(setup, tWalk(0, 1, "d"))
		op, opName = tWalk(1, 5, "f"), "Walk"
		if c.Native {
			opName = "WalkGetAttr"
		}
	case "walkgetattr":
		setup = append(setup, tWalk(0, 1, "d"))
		op, opName = tWalkGA(1, 5, "f"), "Walk"
		if c.Native {
			opName = "WalkGetAttr"
		}
	case "setattr":
		setup = append(setup, tWalk(0, 1, "d", "f"))
		op, opName = tSetattr(1, 1, 0o600, 0), "SetAttr"
	case "mkdir":
		setup = append(setup, tWalk(0, 1, "d"))
		op, opName = tMkdir(1, "nn"), "Mkdir"
	case "fsync":
		setup = append(setup, tWalk(0, 1, "d", "f"), tOpen(1, 2))
		op, opName = tFsync(1), "FSync"
	case "readlink":
		setup = append(setup, tWalk(0, 1, "l"))
		op, opName = tReadlink(1), "Readlink"
	case "statfs":
		setup = append(setup, tWalk(0, 1, "d"))
		op, opName = tStatfs(1), "StatFS"
	case "open":
		setup = append(setup, tWalk(0, 1, "d", "f"))
		op, opName = tOpen(1, 0), "Open"
	case "xattrwalk":
		setup = append(setup, tWalk(0, 1, "d"))
		op, opName = tXattrwalk(1, 5, "user.a"), "GetXattr"
	case "unlinkat":
		setup = append(setup, tWalk(0, 1, "d"))
		op, opName = tUnlinkat(1, "f"), "UnlinkAt"
	case "renameat":
		setup = append(setup, tWalk(0, 1, "d"))
		op, opName = tRenameat(1, "f", 1, "g"), "RenameAt"
	case "create": // rebinds fid 1 to the created file, whose parent is the directory
		setup = append(setup, tWalk(0, 1, "d"))
		op, opName = tCreate(1, "created", 2, 0o644), "Create"
	case "symlink":
		setup = append(setup, tWalk(0, 1, "d"))
		op, opName = tSymlink(1, "sl", "t"), "Symlink"
	case "mknod":
		setup = append(setup, tWalk(0, 1, "d"))
		op, opName = tMknod(1, "nod", 0o600), "Mknod"
	case "link":
		setup = append(setup, tWalk(0, 1, "d"), tWalk(0, 4, "d", "f"))
		op, opName = tLink(1, 4, "hl"), "Link"
	default:
		return failf("harness-op", "HARNESS-ERROR unknown op %s", c.Op)
	}
	for _, m := range setup {
		r, f := call(m)
		if f != nil {
			return f
		}
		if r.Type == refcodec.Rlerror {
			return failf("harness-setup", "HARNESS-ERROR setup %s => %s", m, r)
		}
	}
	// disconnect-other: a second connection with fids on the root, the directory,
	// the file in it, a sibling and a deeper entry goes away while the operation
	// is held (its fids are released without waiting for any lock of the first)
	var s2 *peers.Session
	if c.Unbind == "disconnect-other" {
		s2 = peers.Start(srv)
		if _, err := s2.Version(64<<10, "9P2000.L.Google.7"); err != nil {
			return failf("harness-version", "HARNESS-ERROR %v", err)
		}
		for i, m := range []*refcodec.Msg{tAttach(10, nofid, ""), tWalk(10, 11, "d"), tWalk(10, 12, "d", "f"), tWalk(10, 13, "d", "e"), tWalk(10, 14, "l"), tWalk(11, 15)} {
			m.Tag = uint16(1 + i)
			if r, err := s2.Call(m); err != nil || r.Type == refcodec.Rlerror {
				return failf("harness-setup", "HARNESS-ERROR second connection %s => %v %v", m, r, err)
			}
		}
	}
	gate := memfs.NewGate(func(cl *memfs.Call) bool { return cl.Op == opName })
	fs.AddGate(gate)
	defer gate.Release()
	op.Tag = 100
	s.Send(refcodec.Encode(op))
	var held *memfs.Call
	select {
	case held = <-gate.Entered:
	case <-time.After(20 * time.Second):
		return failf("harness-gate", "HARNESS-ERROR %s never reached %s", op, opName)
	}
	// now unbind fid 1 while the operation is inside the backend
	var ub *refcodec.Msg
	switch c.Unbind {
	case "clunk":
		ub = tClunk(1)
	case "remove":
		ub = tRemove(1)
	case "replace-walk":
		ub = tWalk(0, 1, "d", "e")
	case "replace-attach":
		ub = tAttach(1, nofid, "")
	}
	frames := 0
	if ub != nil {
		ub.Tag = 101
		s.Send(refcodec.Encode(ub))
		// the unbinding request may or may not be ordered after the held one by
		// the File contract; wait briefly for its reply
		if _, err := s.Recv(60 * time.Millisecond); err == nil {
			frames++
		}
	} else if s2 != nil {
		// Handle of the second connection normally returns at once; it may have to
		// wait for the held operation when that holds a directory's child table
		s2.Close(300 * time.Millisecond)
	} else {
		s.C2S.CloseWrite()
		time.Sleep(10 * time.Millisecond)
	}
	check := func(when string) *fail {
		for _, a := range fs.Anomalies() {
			if a.Kind == "close-during-call" || a.Kind == "use-after-close" || a.Kind == "double-close" {
				return failf(a.Sig, "%s (%s, %s held in %s, fid unbound by %s): %s %s", a.Kind, when, op, opName, c.Unbind, a.A, a.B)
			}
		}
		return nil
	}
	if hi, ok := fs.HandleByID(held.Handle); ok && hi.Closed {
		return failf("close-during-call:"+opName, "File h%d was closed while %s was still inside it (fid unbound by %s)", hi.ID, held.String(), c.Unbind)
	}
	if f := check("while held"); f != nil {
		return f
	}
	gate.Release()
	want := 2
	if ub == nil {
		want = 1
	}
	for frames < want {
		if _, err := s.Recv(20 * time.Second); err != nil {
			if s2 != nil {
				return failf("no-reply:race", "after releasing %s (a second connection had gone away meanwhile): no reply (%v)", opName, err)
			}
			if ub == nil {
				break // after a disconnect the reply may be unsendable
			}
			return failf("no-reply:race", "after releasing %s: %d of %d replies (%v)", opName, frames, want, err)
		}
		frames++
	}
	if c.Op == "create" && ub != nil {
		// whatever fid 1 denotes now (the created file, or what replaced it), a
		// Tremove goes through its parent directory's File: that must still be open
		if r, err := s.Call(withTag(tRemove(1), 102)); err == nil && r.Type != refcodec.Rlerror {
			frames++
		}
		if f := check("after a Tremove through the created fid"); f != nil {
			return f
		}
	}
	if s2 != nil && !s2.Close(20*time.Second) {
		return failf("handle-did-not-return", "Handle of the second connection did not return after the race %s/%s", c.Op, c.Unbind)
	}
	if !s.Close(20 * time.Second) {
		return failf("handle-did-not-return", "Handle did not return after the race %s/%s", c.Op, c.Unbind)
	}
	if f := check("at the end"); f != nil {
		return f
	}
	for _, h := range fs.Handles() {
		if h.Closes != 1 {
			return failf(fmt.Sprintf("closed-%d-times-at-teardown", min(h.Closes, 2)), "File h%d (%s) closed %d times after race %s/%s; log: %s", h.ID, h.Path, h.Closes, c.Op, c.Unbind, logString(fs.LogSince(0)))
		}
	}
	return nil
}

// closeRaceCase: the final release of a File (its Close) is held inside the
// backend while another request touches the same entry.
type closeRaceCase struct {
	Native  bool   `json:"native_walkgetattr"`
	TwoConn bool   `json:"two_connections"` // the other request comes from a second connection
	Other   string `json:"other"`           // renameat-cross | renameat-same | rename-sibling | unlinkat | walk | remove-sibling | mkdir-parent | getattr-sibling
}

var closeRaceOthers = []string{"renameat-cross", "renameat-same", "rename-sibling", "unlinkat", "walk", "remove-sibling", "mkdir-parent", "getattr-sibling"}

func runCloseRaceCase(c closeRaceCase) *fail {
	fs := memfs.New(memfs.Options{NativeWalkGetAttr: c.Native})
	memtree.Populate(fs.Tree)
	srv := p9.NewServer(fs)
	s1 := peers.Start(srv)
	s2 := s1
	if c.TwoConn {
		s2 = peers.Start(srv)
	}
	desc := fmt.Sprintf("%+v", c)
	call := func(s *peers.Session, m *refcodec.Msg) (*refcodec.Msg, *fail) {
		m.Tag = s.Tag()
		r, err := s.Call(m)
		if err != nil {
			return nil, failf("no-reply:setup", "%s: %v (%s)", m, err, desc)
		}
		return r, nil
	}
	for _, s := range []*peers.Session{s1, s2} {
		if _, err := s.Version(64<<10, "9P2000.L.Google.7"); err != nil {
			return failf("harness-version", "HARNESS-ERROR %v", err)
		}
		if s1 == s2 {
			break
		}
	}
	// connection 1: fid 1 -> /d/f (the File whose release will be held)
	// connection 2 (or the same): fid 10 -> /, fid 11 -> /d, fid 12 -> /d/f (a sibling fid on the entry), fid 13 -> /d/e
	before := fs.Seq()
	setup1 := []*refcodec.Msg{tAttach(0, nofid, ""), tWalk(0, 1, "d", "f")}
	for _, m := range setup1 {
		r, f := call(s1, m)
		if f != nil {
			return f
		}
		if r.Type == refcodec.Rlerror {
			return failf("harness-setup", "HARNESS-ERROR %s => %s", m, r)
		}
	}
	victim := 0
	for _, cl := range fs.LogSince(before) {
		if cl.New != 0 {
			victim = cl.New
		}
	}
	for _, m := range []*refcodec.Msg{tAttach(10, nofid, ""), tWalk(10, 11, "d"), tWalk(10, 12, "d", "f"), tWalk(10, 13, "d", "e")} {
		r, f := call(s2, m)
		if f != nil {
			return f
		}
		if r.Type == refcodec.Rlerror {
			return failf("harness-setup", "HARNESS-ERROR %s => %s", m, r)
		}
	}
	gate := memfs.NewGate(func(cl *memfs.Call) bool { return cl.Op == "Close" && cl.Handle == victim })
	fs.AddGate(gate)
	defer gate.Release()
	// release the last reference to the victim: its Close is now held inside the backend
	s1.Send(refcodec.Encode(withTag(tClunk(1), 200)))
	select {
	case <-gate.Entered:
	case <-time.After(20 * time.Second):
		return failf("harness-gate", "HARNESS-ERROR the clunk never reached Close (%s)", desc)
	}
	var other *refcodec.Msg
	switch c.Other {
	case "renameat-cross":
		other = tRenameat(11, "f", 10, "moved")
	case "renameat-same":
		other = tRenameat(11, "f", 11, "f2")
	case "rename-sibling":
		other = tRename(12, 10, "moved")
	case "unlinkat":
		other = tUnlinkat(11, "f")
	case "walk":
		other = tWalk(11, 14, "f")
	case "remove-sibling":
		other = tRemove(12)
	case "mkdir-parent":
		other = tMkdir(11, "newdir")
	default:
		other = tGetattr(12)
	}
	other.Tag = 201
	s2.Send(refcodec.Encode(other))
	// the other request is not ordered behind a Close (class "none"): it must complete
	// while the Close is still held; if it is blocked we find out below
	otherDone := false
	if s1 == s2 {
		// replies of the clunk (pending: the handler is inside Close) and of the other request share a stream
		if _, err := s1.Recv(150 * time.Millisecond); err == nil {
			otherDone = true
		}
	} else if _, err := s2.Recv(150 * time.Millisecond); err == nil {
		otherDone = true
	}
	check := func(when string) *fail {
		for _, a := range fs.Anomalies() {
			if a.Kind == "use-after-close" || a.Kind == "double-close" || a.Kind == "close-during-call" {
				return failf(a.Sig+":during-release", "%s (%s): %s %s (%s)", a.Kind, when, a.A, a.B, desc)
			}
		}
		return nil
	}
	if f := check("while the Close was held"); f != nil {
		return f
	}
	gate.Release()
	// everything must complete now
	want := 2
	if otherDone {
		want = 1
	}
	for i := 0; i < want; i++ {
		s := s1
		if i == 1 || (otherDone && false) {
			s = s2
		}
		if s1 != s2 && i == 0 {
			s = s1
		}
		if _, err := s.Recv(20 * time.Second); err != nil {
			return failf("hang-after-release-race:"+c.Other, "after the held Close was released, %d of %d outstanding replies did not arrive (%s); inside backend: %v", want-i, want, desc, fs.Inside())
		}
	}
	if !s1.Close(20*time.Second) || !s2.Close(20*time.Second) {
		return failf("handle-did-not-return", "Handle did not return after the release race (%s)", desc)
	}
	if f := check("at the end"); f != nil {
		return f
	}
	for _, h := range fs.Handles() {
		if h.Closes != 1 {
			return failf(fmt.Sprintf("closed-%d-times-at-teardown", min(h.Closes, 2)), "File h%d (%s) closed %d times after the release race (%s); log: %s", h.ID, h.Path, h.Closes, desc, logString(fs.LogSince(0)))
		}
	}
	return nil
}

// notifyRaceCase: a rename's Renamed notification for a File is held inside
// the backend while the last fid of that File goes away (its connection ends:
// the only way of dropping a fid that does not wait for the rename lock).
// When the notification returns, the reference the rename took around it is
// the last one, so the rename handler itself releases the File.
type notifyRaceCase struct {
	Native bool   `json:"native_walkgetattr"`
	Rename string `json:"rename"` // renameat-same | renameat-cross | rename-same | rename-cross
	Extra  int    `json:"extra"`  // further fids on the victim's connection bound to the same entry
}

var notifyRaceRenames = []string{"renameat-same", "renameat-cross", "rename-same", "rename-cross"}

func runNotifyRaceCase(c notifyRaceCase) *fail {
	fs := memfs.New(memfs.Options{NativeWalkGetAttr: c.Native})
	memtree.Populate(fs.Tree)
	srv := p9.NewServer(fs)
	s1, s2 := peers.Start(srv), peers.Start(srv)
	desc := fmt.Sprintf("%+v", c)
	for _, s := range []*peers.Session{s1, s2} {
		if _, err := s.Version(64<<10, "9P2000.L.Google.7"); err != nil {
			return failf("harness-version", "HARNESS-ERROR %v", err)
		}
	}
	setup := func(s *peers.Session, ms ...*refcodec.Msg) *fail {
		for _, m := range ms {
			m.Tag = s.Tag()
			r, err := s.Call(m)
			if err != nil {
				return failf("no-reply:setup", "%s: %v (%s)", m, err, desc)
			}
			if r.Type == refcodec.Rlerror {
				return failf("harness-setup", "HARNESS-ERROR %s => %s", m, r)
			}
		}
		return nil
	}
	// connection 1: fids 1.. -> /d/f, each with its own File (the victims)
	before := fs.Seq()
	if f := setup(s1, tAttach(0, nofid, "")); f != nil {
		return f
	}
	for i := 0; i <= c.Extra; i++ {
		if f := setup(s1, tWalk(0, uint64(1+i), "d", "f")); f != nil {
			return f
		}
	}
	victims := map[int]bool{}
	for _, cl := range fs.LogSince(before) {
		if cl.New != 0 && (cl.Op == "Walk" || cl.Op == "WalkGetAttr") {
			victims[cl.New] = true // includes the intermediate File for /d, which gets no notification
		}
	}
	// connection 2: fid 10 -> /, 11 -> /d, 12 -> /d/f
	if f := setup(s2, tAttach(10, nofid, ""), tWalk(10, 11, "d"), tWalk(10, 12, "d", "f")); f != nil {
		return f
	}
	gate := memfs.NewGate(func(cl *memfs.Call) bool { return cl.Op == "Renamed" && victims[cl.Handle] })
	fs.AddGate(gate)
	defer gate.Release()
	var ren *refcodec.Msg
	switch c.Rename {
	case "renameat-same":
		ren = tRenameat(11, "f", 11, "f2")
	case "renameat-cross":
		ren = tRenameat(11, "f", 10, "moved")
	case "rename-same":
		ren = tRename(12, 11, "f2")
	default:
		ren = tRename(12, 10, "moved")
	}
	ren.Tag = 300
	s2.Send(refcodec.Encode(ren))
	select {
	case <-gate.Entered:
	case <-time.After(20 * time.Second):
		return failf("harness-gate", "HARNESS-ERROR %s never reached Renamed on a victim (%s); log: %s", ren, desc, logString(fs.LogSince(before)))
	}
	// connection 1 goes away while the notification is inside the backend: its
	// fids are dropped, the Files stay alive only through the rename
	// (releasing a victim the rename has not reached yet may wait for the
	// rename's hold on the directory's child table, so Handle need not return
	// before the notification does)
	s1.Close(300 * time.Millisecond)
	check := func(when string) *fail {
		for _, a := range fs.Anomalies() {
			if a.Kind == "use-after-close" || a.Kind == "double-close" || a.Kind == "close-during-call" {
				return failf(a.Sig+":during-notification", "%s (%s): %s %s (%s)", a.Kind, when, a.A, a.B, desc)
			}
		}
		return nil
	}
	if f := check("while Renamed was held"); f != nil {
		return f
	}
	gate.Release()
	r, err := s2.Recv(20 * time.Second)
	if err != nil {
		return failf("hang-after-notification:"+c.Rename, "the rename was not answered after its held notification returned (%v; %s); inside backend: %v", err, desc, fs.Inside())
	}
	if m, derr := refcodec.DecodeStrict(r); derr != nil || m.Type == refcodec.Rlerror {
		return failf("rename-failed:notify-race", "%s => %v %v (%s)", ren, m, derr, desc)
	}
	// the server must still be serving
	probe := withTag(tGetattr(10), 301)
	s2.Send(refcodec.Encode(probe))
	if _, err := s2.Recv(20 * time.Second); err != nil {
		return failf("hang-after-notification:probe", "a getattr after the rename was not answered (%v; %s)", err, desc)
	}
	if !s1.Close(20*time.Second) || !s2.Close(20*time.Second) {
		return failf("handle-did-not-return", "Handle did not return after the notification race (%s)", desc)
	}
	if f := check("at the end"); f != nil {
		return f
	}
	for _, h := range fs.Handles() {
		if h.Closes != 1 {
			return failf(fmt.Sprintf("closed-%d-times-at-teardown", min(h.Closes, 2)), "File h%d (%s) closed %d times after the notification race (%s); log: %s", h.ID, h.Path, h.Closes, desc, logString(fs.LogSince(0)))
		}
	}
	return nil
}

// concurrent workloads (the generator of C16, in process) with the lifecycle
// assertions: whatever the interleaving of clunks, renames, clones, dropped
// connections and in-flight operations, no File is used after or during its
// Close, and once every Handle has returned each File was closed exactly once.
func runLifeWorkload(c isoCase) *fail {
	f, fs := isoBodyFS(c)
	if f != nil {
		if strings.HasPrefix(f.Sig, "iso-") {
			return nil // result comparisons belong to C16
		}
		return f
	}
	for _, a := range fs.Anomalies() {
		if a.Kind == "use-after-close" || a.Kind == "double-close" || a.Kind == "close-during-call" {
			return failf(a.Sig+":workload", "%s in a concurrent workload: %s %s (%+v)", a.Kind, a.A, a.B, c)
		}
	}
	if n, stack := serverGoroutines(5 * time.Second); n > 0 {
		return failf("goroutine-left-behind:workload", "%d server goroutine(s) still alive after every connection of the workload had ended: %s (%+v)", n, stack, c)
	}
	for _, h := range fs.Handles() {
		if h.Closes != 1 {
			return failf(fmt.Sprintf("closed-%d-times-at-teardown:workload", min(h.Closes, 2)), "File h%d (%s) closed %d times after a concurrent workload whose connections have all ended (%+v)", h.ID, h.Path, h.Closes, c)
		}
	}
	return nil
}

func init() {
	replayRegistrars = append(replayRegistrars, func() {
		registerReplay("C05/close-race", runCloseRaceCase)
		registerReplay("C05/concurrent", runLifeWorkload)
		registerReplay("C05/notify-race", runNotifyRaceCase)
		registerReplay("C05/sessions", func(c seqCase) *fail { c.Life = true; return runSeqCase(c, nil) })
		registerReplay("C05/xattr-chains", func(c seqCase) *fail { c.Life = true; return runSeqCase(c, nil) })
		registerReplay("C05/path-sessions", func(c pathCase) *fail { c.Life = true; return runPathCase(c, nil) })
		registerReplay("C05/cuts", func(c cutCase) *fail { return runCutCase(c, nil) })
		registerReplay("C05/clunk-race", runRaceCase)
		registerReplay("C05/partial-mask", runPartialMaskCase)
		registerReplay("C05/teardown-faults", runTeardownFaultCase)
		registerReplay("C05/faults", func(c faultCase) *fail {
			if f := runFaultCase(c, nil); f != nil && (lifeSig(f.Sig) || strings.HasPrefix(f.Sig, "harness-")) {
				return f
			}
			return nil
		})
	})
}

// lifeSig: the verdicts of the session engine that concern the File lifecycle.
func lifeSig(sig string) bool {
	for _, p := range []string{"use-after-close", "double-close", "close-during-call", "closed-while-referenced", "not-closed-at-teardown", "leaked-handle", "handle-did-not-return", "goroutine-left-behind"} {
		if strings.HasPrefix(sig, p) {
			return true
		}
	}
	return false
}

func TestC05(t *testing.T) {
	h := begin(t, "C05")
	defer h.Finish()
	env := h.Env

	// (a) random sessions, lifecycle checked after every step and at teardown
	rapidCases(h, "sessions", env.PerShard(env.Pick(12000, 200000)), func(rt *rapid.T) seqCase {
		return seqCase{Native: rapid.Bool().Draw(rt, "native"), Prefix: 0, Life: true, Reqs: genSessionReqs(rt, 40)}
	}, func(c seqCase) *fail {
		st := &seqStats{}
		f := runSeqCase(c, st)
		// non-trivial: something other than a plain clunk released a File
		nt := false
		for _, r := range c.Reqs[3:] {
			switch r.Type {
			case refcodec.Twalk, refcodec.Twalkgetattr, refcodec.Tattach, refcodec.Tlcreate, refcodec.Tremove, refcodec.Txattrwalk:
				nt = true
			}
		}
		h.Case(seqHash(c), nt, "sessions")
		if nt && h.WantSample("sessions") {
			h.Sample("sessions", c)
		}
		return f
	})
	// chains of attribute fids (an attribute fid made from an attribute fid ...),
	// released in every order while others stay in use
	rapidCases(h, "xattr-chains", env.PerShard(env.Pick(2400, 60000)), func(rt *rapid.T) seqCase {
		c := seqCase{Native: rapid.Bool().Draw(rt, "native"), Prefix: 0, Life: true}
		c.Reqs = append(c.Reqs, c04Prefixes[1]...)
		src := uint64(rapid.SampledFrom([]int{1, 2}).Draw(rt, "src"))
		fids := []uint64{src}
		n := rapid.IntRange(2, 4).Draw(rt, "chain")
		for i := 0; i < n; i++ {
			from := fids[len(fids)-1]
			if i > 0 && rapid.IntRange(0, 3).Draw(rt, "branch") == 0 {
				from = rapid.SampledFrom(fids).Draw(rt, "from")
			}
			nf := uint64(10 + i)
			c.Reqs = append(c.Reqs, tXattrwalk(from, nf, rapid.SampledFrom([]string{"user.a", "", "user.a"}).Draw(rt, "xn")))
			fids = append(fids, nf)
		}
		for i := rapid.IntRange(2, 10).Draw(rt, "tail"); i > 0; i-- {
			f := rapid.SampledFrom(fids).Draw(rt, "f")
			switch rapid.IntRange(0, 5).Draw(rt, "op") {
			case 0, 1, 2:
				c.Reqs = append(c.Reqs, tClunk(f))
			case 3:
				c.Reqs = append(c.Reqs, tRead(f, 0, 2))
			case 4:
				c.Reqs = append(c.Reqs, tGetattr(f))
			default:
				c.Reqs = append(c.Reqs, tWalk(f, uint64(20+i)))
			}
		}
		return c
	}, func(c seqCase) *fail {
		h.Case(seqHash(c), true, "xattr-chains")
		if h.WantSample("xattr-chains") {
			h.Sample("xattr-chains", c)
		}
		return runSeqCase(c, nil)
	})
	rapidCases(h, "path-sessions", env.PerShard(env.Pick(6000, 100000)), func(rt *rapid.T) pathCase {
		c := pathCase{Conns: rapid.IntRange(1, 2).Draw(rt, "conns"), Native: rapid.Bool().Draw(rt, "native"), Tree: "deep", Life: true}
		m := refmodel.New(c.Conns)
		populateDeep(m.Tree)
		names := []string{"a", "b", "c", "d", "e", "f", "g", "h", "k", "n"}
		n := rapid.IntRange(1, 60).Draw(rt, "len")
		for i := 0; i < n; i++ {
			conn := 0
			if c.Conns > 1 {
				conn = rapid.IntRange(0, c.Conns-1).Draw(rt, "conn")
			}
			r := genPathStep(rt, m, conn, names, 6)
			c.Steps = append(c.Steps, connReq{conn, r})
			m.Assume(m.Step(conn, r))
		}
		return c
	}, func(c pathCase) *fail {
		st := &pathStats{}
		f := runPathCase(c, st)
		h.Case(pathHash(c), st.renameOrUnlinkOverHeld > 0, "path-sessions")
		return f
	})

	// (a2) concurrent workloads with kept fids, clones, renames and dropped connections
	rapidCases(h, "concurrent", env.PerShard(env.Pick(240, 16000)), func(rt *rapid.T) isoCase {
		return isoCase{Seed: rapid.Uint64Range(1, 1<<40).Draw(rt, "seed"), Conns: rapid.IntRange(1, 4).Draw(rt, "conns"),
			Workers: rapid.IntRange(2, 6).Draw(rt, "workers"), Noise: rapid.IntRange(2, 4).Draw(rt, "noise"),
			Ops: rapid.IntRange(40, 120).Draw(rt, "ops"), Native: rapid.Bool().Draw(rt, "native"), Perturb: rapid.Bool().Draw(rt, "perturb"),
			Mix: rapid.IntRange(1, 2).Draw(rt, "mix")}
	}, func(c isoCase) *fail {
		h.Case(evid.HashJSON(c), true, "concurrent-workloads")
		return runLifeWorkload(c)
	})

	// (b) cut enumeration: every byte offset of generated sessions, with and
	// without a backend call held at the moment of the cut
	nSess := env.PerShard(env.Pick(24, 640))
	rapidCases(h, "cuts", nSess, func(rt *rapid.T) cutCase {
		return cutCase{Native: rapid.Bool().Draw(rt, "native"), Reqs: genSessionReqs(rt, 10), Cut: -1}
	}, func(c cutCase) *fail {
		stream := sessionStream(c.Reqs)
		// whole stream first, counting backend calls for the gate positions
		if f := runCutCase(c, nil); f != nil {
			return f
		}
		step := 1
		for cut := 0; cut <= len(stream); cut += step {
			cc := c
			cc.Cut = cut
			st := &cutStats{}
			f := runCutCase(cc, st)
			h.Case(evid.Hash64(stream, u32b(uint32(cut))), st.handles > 0, "cut:plain")
			if f != nil {
				f.Msg += fmt.Sprintf(" [cut=%d]", cut)
				h.Violation("cuts", f.Sig, f.Msg, cc)
				return f
			}
		}
		// gates: hold the k-th backend call, cut right after the stream
		for k := 2; k <= 14; k += 3 {
			for _, cut := range []int{-1, len(stream) - 5, len(stream) / 2} {
				cc := c
				cc.GateAt, cc.Cut = k, cut
				st := &cutStats{}
				f := runCutCase(cc, st)
				h.Case(evid.Hash64(stream, u32b(uint32(cut), uint32(k))), st.gateHeld, "cut:gated")
				if st.gateHeld {
					h.Count("cut:request-held-at-cut", 1)
				}
				if f != nil {
					h.Violation("cuts", f.Sig, f.Msg, cc)
					return f
				}
			}
		}
		if h.WantSample("cuts") {
			h.Sample("cuts", map[string]any{"reqs": c.Reqs, "stream_bytes": len(stream), "cuts": len(stream) + 1})
		}
		return nil
	})

	// (d) unbinding a fid while an operation on it is inside the backend:
	// (j) Close fails for some of the Files that are still bound when the connection
	// ends: every remaining File is still closed once (errors only: a panic at
	// teardown belongs to no request and is not judged)
	rapidCases(h, "teardown-faults", env.PerShard(env.Pick(1600, 60000)), func(rt *rapid.T) teardownFaultCase {
		c := teardownFaultCase{Native: rapid.Bool().Draw(rt, "native"), Errno: rapid.SampledFrom([]int{5, 28, 13, 122}).Draw(rt, "errno"),
			Clunk: -1}
		paths := []string{"d", "d/f", "d/e", "f", "l", "p", "", "d", "d/f"}
		for i := rapid.IntRange(2, 8).Draw(rt, "n"); i > 0; i-- {
			c.Walks = append(c.Walks, rapid.SampledFrom(paths).Draw(rt, "w"))
		}
		for i := rapid.IntRange(1, 3).Draw(rt, "nf"); i > 0; i-- {
			c.Fail = append(c.Fail, rapid.IntRange(-1, len(c.Walks)-1).Draw(rt, "fi"))
		}
		if rapid.IntRange(0, 3).Draw(rt, "clunk") == 0 {
			c.Clunk = rapid.IntRange(0, len(c.Walks)-1).Draw(rt, "ci")
		}
		return c
	}, func(c teardownFaultCase) *fail {
		h.Case(evid.HashJSON(c), len(c.Walks) >= 3, "teardown-faults")
		if h.WantSample("teardown-faults") {
			h.Sample("teardown-faults", c)
		}
		return runTeardownFaultCase(c)
	})
	// (i) a backend with partial attribute masks
	rapidCases(h, "partial-mask", env.PerShard(env.Pick(3000, 60000)), func(rt *rapid.T) partialMaskCase {
		return partialMaskCase{Native: rapid.Bool().Draw(rt, "native"), Reqs: genSessionReqs(rt, 20), Dirs: rapid.IntRange(0, 3).Draw(rt, "dirs") == 0}
	}, func(c partialMaskCase) *fail {
		h.Case(evid.HashJSON(c), true, "partial-mask")
		if h.WantSample("partial-mask") {
			h.Sample("partial-mask", c)
		}
		return runPartialMaskCase(c)
	})

	// (h) connections that end in the middle of schedules the harness owns (engine
	// of C07): the teardown's Close calls are released one at a time among the
	// backend calls of the other connections' requests
	schedSubCheck(h, env.PerShard(env.Pick(1600, 60000)), []string{"io", "io", "create", "fnew", "f"}, keepC05)

	// (g) backend failures: an error or a panic at every backend call of a session
	// in turn (the engine of C15), judged here by the File lifecycle alone - the
	// Close that fails included
	lifeVerdict := func(f *fail) *fail {
		if f == nil || strings.HasPrefix(f.Sig, "harness-") {
			return f
		}
		if lifeSig(f.Sig) {
			return f
		}
		h.Count("faults:verdicts-left-to-C15", 1)
		return nil
	}
	errPool := []errSpec{{"linux", 5}, {"syscall", 28}, {"patherror", 2}, {"joined", 39}}
	var struckF *fail
	var struckC faultCase
	faultsOf := func(c faultCase) *fail {
		if c.FaultAt != 0 {
			return lifeVerdict(runFaultCase(c, nil))
		}
		clean := c
		st := &faultStats{}
		if f := lifeVerdict(runFaultCase(clean, st)); f != nil {
			return f
		}
		for k := 1; k <= st.armedCalls; k++ {
			for _, panicKind := range []bool{false, true} {
				fc := c
				fc.Errs = nil
				fc.FaultAt, fc.Panic = k, panicKind
				if !panicKind {
					e := errPool[k%len(errPool)]
					fc.Err = &e
				}
				fst := &faultStats{}
				f := lifeVerdict(runFaultCase(fc, fst))
				cls := "fault:error"
				if panicKind {
					cls = "fault:panic"
				}
				h.Case(faultHash(fc), fst.struck, cls)
				if fst.struck {
					h.Count("faults:struck-in:"+fst.op, 1)
				}
				if fst.struck && h.WantSample("faults") {
					h.Sample("faults", fc)
				}
				if f != nil && !strings.HasPrefix(f.Sig, "harness-") && !h.Known(f.Sig) {
					struckF, struckC = f, fc
					return f
				}
				if f != nil && strings.HasPrefix(f.Sig, "harness-") {
					return f
				}
			}
		}
		return nil
	}
	if env.Shard == 0 {
		for _, c := range c15Targeted() {
			if f := faultsOf(c); f != nil {
				if strings.HasPrefix(f.Sig, "harness-") {
					t.Errorf("HARNESS-ERROR %s", f.Msg)
					continue
				}
				h.report("faults", struckF, struckC)
				return
			}
		}
	}
	rapidCases(h, "faults", env.PerShard(env.Pick(800, 24000)), genFaultSession, func(c faultCase) *fail {
		f := faultsOf(c)
		if f != nil {
			return &fail{Sig: f.Sig, Msg: f.Msg}
		}
		return nil
	})
	if struckF != nil && !strings.HasPrefix(struckF.Sig, "harness-") {
		h.Violation("faults", struckF.Sig, struckF.Msg, struckC)
	}

	// every (operation, way of unbinding) pair, both backends
	if env.Shard == 0 {
		for _, op := range raceOps {
			for _, ub := range raceUnbinds {
				for _, native := range []bool{false, true} {
					c := raceCase{Native: native, Op: op, Unbind: ub}
					f := runRaceCase(c)
					h.Case(evid.HashJSON(c), true, "race:"+ub)
					if f != nil && strings.HasPrefix(f.Sig, "harness-") {
						t.Errorf("HARNESS-ERROR %s", f.Msg)
						continue
					}
					if h.report("clunk-race", f, c) {
						return
					}
				}
			}
		}
		h.Exhaustive(fmt.Sprintf("%d held operations x %d ways of unbinding x 2 backends", len(raceOps), len(raceUnbinds)))
		// (e) the final Close of a File held inside the backend while another
		// request (same or other connection) touches the same entry
		for _, other := range closeRaceOthers {
			for _, two := range []bool{false, true} {
				for _, native := range []bool{false, true} {
					c := closeRaceCase{Native: native, TwoConn: two, Other: other}
					f := runCloseRaceCase(c)
					h.Case(evid.HashJSON(c), true, "close-race:"+other)
					if f != nil && strings.HasPrefix(f.Sig, "harness-") {
						t.Errorf("HARNESS-ERROR %s", f.Msg)
						continue
					}
					if h.report("close-race", f, c) {
						return
					}
				}
			}
		}
		h.Exhaustive(fmt.Sprintf("held final Close x %d concurrent requests on the same entry x {same, other connection} x 2 backends", len(closeRaceOthers)))
		// (f) the last fid of a File goes away (disconnect) while a rename's
		// notification for that File is held: the rename handler releases it
		for _, ren := range notifyRaceRenames {
			for extra := 0; extra <= 2; extra++ {
				for _, native := range []bool{false, true} {
					c := notifyRaceCase{Native: native, Rename: ren, Extra: extra}
					f := runNotifyRaceCase(c)
					h.Case(evid.HashJSON(c), true, "notify-race:"+ren)
					if f != nil && strings.HasPrefix(f.Sig, "harness-") {
						t.Errorf("HARNESS-ERROR %s", f.Msg)
						continue
					}
					if h.report("notify-race", f, c) {
						return
					}
				}
			}
		}
		h.Exhaustive(fmt.Sprintf("held Renamed notification x %d renames x 1-3 victim fids dropped by disconnect x 2 backends", len(notifyRaceRenames)))
		h.Sample("clunk-race", raceCase{Native: true, Op: "read", Unbind: "clunk"})
	}
}
