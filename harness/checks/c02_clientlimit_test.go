package checks

import (
	"encoding/binary"
	"fmt"
	"runtime"
	"strings"
	"time"

	"p9verif/peers"
	"p9verif/refcodec"

	"github.com/hugelgupf/p9/p9"
)

// clientLimitCase (C02, the client as receiver): the server announces an msize
// below the one the client asked for. A reply whose size field is within the
// announced msize is delivered; one above it ends the connection on the header
// alone - the client does not wait for, or buffer, the body.
type clientLimitCase struct {
	Ask   uint32 `json:"ask"`
	Offer uint32 `json:"offer"`
	Size  uint32 `json:"size"` // size field of the Rreaddir sent in answer to the client's Treaddir
}

func runClientLimitCase(c clientLimitCase) *fail {
	fk := peers.NewFake()
	defer fk.Close()
	stop := make(chan struct{})
	defer close(stop)
	desc := fmt.Sprintf("%+v", c)
	go fk.Serve(stop, func(req *refcodec.Msg, raw []byte) []*refcodec.Msg {
		if req == nil {
			return nil
		}
		switch req.Type {
		case refcodec.Tversion:
			return []*refcodec.Msg{refcodec.New(refcodec.Rversion, req.Tag, "msize", c.Offer, "version", req.S("version"))}
		case refcodec.Treaddir:
			if c.Size <= c.Offer {
				// a complete, valid frame of exactly that size: one entry with a long name
				name := strings.Repeat("n", int(c.Size)-35)
				fr := refcodec.Encode(refcodec.New(refcodec.Rreaddir, req.Tag, "entries", []refcodec.Dirent{{QID: refcodec.QID{Path: 9}, Offset: 1, Type: 0, Name: name}}))
				fk.Send(fr)
				return nil
			}
			// only the header and the count: the client must not wait for more
			hdr := make([]byte, 11)
			binary.LittleEndian.PutUint32(hdr, c.Size)
			hdr[4] = refcodec.Rreaddir
			binary.LittleEndian.PutUint16(hdr[5:], req.Tag)
			binary.LittleEndian.PutUint32(hdr[7:], c.Size-11)
			fk.Send(hdr)
			return nil
		}
		return []*refcodec.Msg{peers.GenericReply(req, 0)}
	})
	cl, err := p9.NewClient(fk.Client, p9.WithMessageSize(c.Ask))
	if err != nil {
		return failf("harness-newclient", "HARNESS-ERROR %v (%s)", err, desc)
	}
	root, err := cl.Attach("")
	if err != nil {
		return failf("harness-attach", "HARNESS-ERROR %v", err)
	}
	defer runtime.KeepAlive(root)
	if _, _, err := root.Open(p9.ReadOnly); err != nil {
		return failf("harness-open", "HARNESS-ERROR %v", err)
	}
	type res struct {
		n   int
		err error
	}
	done := make(chan res, 1)
	go func() { ents, err := root.Readdir(0, 1<<20); done <- res{len(ents), err} }()
	select {
	case r := <-done:
		if c.Size <= c.Offer && (r.err != nil || r.n != 1) {
			return failf("client-refuses-frame-within-msize", "the server announced msize %d; a %d-byte Rreaddir was not delivered: %d entries, %v (%s)", c.Offer, c.Size, r.n, r.err, desc)
		}
		if c.Size > c.Offer && r.err == nil {
			return failf("client-accepts-frame-above-msize", "the server announced msize %d; a frame with size field %d was accepted (%s)", c.Offer, c.Size, desc)
		}
	case <-time.After(10 * time.Second):
		if c.Size > c.Offer {
			return failf("client-waits-for-body-above-msize", "the server announced msize %d (the client had asked for %d); on a header with size field %d the client waits for the body instead of ending the connection (%s)", c.Offer, c.Ask, c.Size, desc)
		}
		return failf("client-call-hangs", "Readdir did not return (%s)", desc)
	}
	return nil
}
