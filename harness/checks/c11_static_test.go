package checks

import (
	"bytes"
	"fmt"
	"io"

	"github.com/hugelgupf/p9/fsimpl/composefs"
	"github.com/hugelgupf/p9/fsimpl/staticfs"
	"github.com/hugelgupf/p9/p9"
)

// staticReadCase (C11): ReadAt through client and server on files of the sample
// static file system (served directly and mounted in a composition): any buffer
// length and any offset - inside, at, one past and far beyond the end - behave
// as one read of the remote file.
type staticReadCase struct {
	Size    int    `json:"size"`
	Len     int    `json:"len"`
	Off     uint64 `json:"off"`
	Mounted bool   `json:"mounted_in_composefs"`
	Msize   uint32 `json:"msize"`
}

func runStaticReadCase(c staticReadCase) *fail {
	content := string(patternAt(5, c.Size))
	var att p9.Attacher
	sa, err := staticfs.New(staticfs.WithFile("f", content))
	if err != nil {
		return failf("harness-staticfs", "HARNESS-ERROR %v", err)
	}
	att = sa
	path := []string{"f"}
	if c.Mounted {
		cf, err := composefs.New(composefs.WithMount("m", sa), composefs.WithFile("g", staticfs.ReadOnlyFile(content)))
		if err != nil {
			return failf("harness-composefs", "HARNESS-ERROR %v", err)
		}
		att = cf
		path = []string{"m", "f"}
	}
	cl, closeFn, err := dialPipe(p9.NewServer(att), p9.WithMessageSize(c.Msize))
	if err != nil {
		return failf("harness-dial", "HARNESS-ERROR %v", err)
	}
	defer closeFn()
	root, err := cl.Attach("")
	if err != nil {
		return failf("harness-attach", "HARNESS-ERROR %v", err)
	}
	defer root.Close()
	paths := [][]string{path}
	if c.Mounted {
		paths = append(paths, []string{"g"})
	}
	for _, pth := range paths {
		_, f, err := root.Walk(pth)
		if err != nil {
			return failf("harness-walk", "HARNESS-ERROR %v", err)
		}
		if _, _, err := f.Open(p9.ReadOnly); err != nil {
			f.Close()
			return failf("harness-open", "HARNESS-ERROR %v", err)
		}
		buf := bytes.Repeat([]byte{0x55}, c.Len)
		n, rerr := f.ReadAt(buf, int64(c.Off))
		f.Close()
		what := fmt.Sprintf("staticfs file %v of %d bytes, ReadAt(%d bytes at offset %d), msize %d", pth, c.Size, c.Len, c.Off, c.Msize)
		var want []byte
		if c.Off < uint64(c.Size) {
			want = []byte(content)[c.Off:min(int(c.Off)+c.Len, c.Size)]
		}
		if n != len(want) || !bytes.Equal(buf[:n], want) {
			return failf("read-data-wrong:staticfs", "%s returned n=%d, want %d bytes of the file (err %v)", what, n, len(want), rerr)
		}
		// the property's EOF rule: io.EOF only with fewer than len(p) bytes, and always
		// when nothing was delivered into a non-empty buffer; no other error on a healthy file
		switch {
		case rerr != nil && rerr != io.EOF:
			return failf("read-error:staticfs", "%s: %v", what, rerr)
		case rerr == io.EOF && n == c.Len && c.Len > 0:
			return failf("eof-with-full-buffer:staticfs", "%s filled the buffer and returned io.EOF", what)
		case n == 0 && c.Len > 0 && rerr != io.EOF:
			return failf("eof-missing:staticfs", "%s delivered nothing and returned %v, want io.EOF", what, rerr)
		}
	}
	return nil
}
