package checks

import (
	"fmt"
	"strings"
	"testing"

	"p9verif/evid"
	"p9verif/memtree"
	"p9verif/refcodec"
	"p9verif/refmodel"

	"pgregory.net/rapid"
)

// ---------------------------------------------------------------------------
// C04 — session state machine

const nofid = refcodec.NOFID

func tAttach(fid, afid uint64, aname string) *refcodec.Msg {
	return refcodec.New(refcodec.Tattach, 0, "fid", fid, "afid", afid, "uname", "u", "aname", aname, "n_uname", 1000)
}
func tWalk(fid, newfid uint64, names ...string) *refcodec.Msg {
	if names == nil {
		names = []string{}
	}
	return refcodec.New(refcodec.Twalk, 0, "fid", fid, "newfid", newfid, "wnames", names)
}
func tWalkGA(fid, newfid uint64, names ...string) *refcodec.Msg {
	if names == nil {
		names = []string{}
	}
	return refcodec.New(refcodec.Twalkgetattr, 0, "fid", fid, "newfid", newfid, "wnames", names)
}
func tOpen(fid, flags uint64) *refcodec.Msg {
	return refcodec.New(refcodec.Tlopen, 0, "fid", fid, "flags", flags)
}
func tCreate(fid uint64, name string, flags, mode uint64) *refcodec.Msg {
	return refcodec.New(refcodec.Tlcreate, 0, "fid", fid, "name", name, "flags", flags, "mode", mode, "gid", 7)
}
func tUCreate(fid uint64, name string, flags, mode uint64) *refcodec.Msg {
	return refcodec.New(refcodec.Tucreate, 0, "fid", fid, "name", name, "flags", flags, "mode", mode, "gid", 7, "uid", 8)
}
func tMkdir(dfid uint64, name string) *refcodec.Msg {
	return refcodec.New(refcodec.Tmkdir, 0, "dfid", dfid, "name", name, "mode", 0o755, "gid", 7)
}
func tSymlink(dfid uint64, name, target string) *refcodec.Msg {
	return refcodec.New(refcodec.Tsymlink, 0, "dfid", dfid, "name", name, "symtgt", target, "gid", 7)
}
func tMknod(dfid uint64, name string, mode uint64) *refcodec.Msg {
	return refcodec.New(refcodec.Tmknod, 0, "dfid", dfid, "name", name, "mode", mode, "major", 1, "minor", 2, "gid", 7)
}
func tLink(dfid, fid uint64, name string) *refcodec.Msg {
	return refcodec.New(refcodec.Tlink, 0, "dfid", dfid, "fid", fid, "name", name)
}
func tUnlinkat(dfid uint64, name string) *refcodec.Msg {
	return refcodec.New(refcodec.Tunlinkat, 0, "dirfid", dfid, "name", name, "flags", 0)
}
func tRenameat(od uint64, on string, nd uint64, nn string) *refcodec.Msg {
	return refcodec.New(refcodec.Trenameat, 0, "olddirfid", od, "oldname", on, "newdirfid", nd, "newname", nn)
}
func tRename(fid, dfid uint64, name string) *refcodec.Msg {
	return refcodec.New(refcodec.Trename, 0, "fid", fid, "dfid", dfid, "name", name)
}
func tRemove(fid uint64) *refcodec.Msg { return refcodec.New(refcodec.Tremove, 0, "fid", fid) }
func tClunk(fid uint64) *refcodec.Msg  { return refcodec.New(refcodec.Tclunk, 0, "fid", fid) }
func tReadlink(fid uint64) *refcodec.Msg {
	return refcodec.New(refcodec.Treadlink, 0, "fid", fid)
}
func tRead(fid, off, count uint64) *refcodec.Msg {
	return refcodec.New(refcodec.Tread, 0, "fid", fid, "offset", off, "count", count)
}
func tWrite(fid, off uint64, data string) *refcodec.Msg {
	return refcodec.New(refcodec.Twrite, 0, "fid", fid, "offset", off, "data", []byte(data))
}
func tReaddir(fid, off, count uint64) *refcodec.Msg {
	return refcodec.New(refcodec.Treaddir, 0, "fid", fid, "offset", off, "count", count)
}
func tFsync(fid uint64) *refcodec.Msg { return refcodec.New(refcodec.Tfsync, 0, "fid", fid) }
func tGetattr(fid uint64) *refcodec.Msg {
	return refcodec.New(refcodec.Tgetattr, 0, "fid", fid, "request_mask", 0x3fff)
}
func tSetattr(fid, valid, mode, size uint64) *refcodec.Msg {
	return refcodec.New(refcodec.Tsetattr, 0, "fid", fid, "valid", valid, "mode", mode, "uid", 5, "gid", 6, "size", size,
		"atime_sec", 0, "atime_nsec", 0, "mtime_sec", 0, "mtime_nsec", 0)
}
func tStatfs(fid uint64) *refcodec.Msg { return refcodec.New(refcodec.Tstatfs, 0, "fid", fid) }
func tLock(fid uint64) *refcodec.Msg {
	return refcodec.New(refcodec.Tlock, 0, "fid", fid, "type", 1, "flags", 0, "start", 0, "length", 10, "proc_id", 42, "client_id", "cl")
}
func tXattrwalk(fid, newfid uint64, name string) *refcodec.Msg {
	return refcodec.New(refcodec.Txattrwalk, 0, "fid", fid, "newfid", newfid, "name", name)
}
func tXattrcreate(fid uint64, name string, size, flags uint64) *refcodec.Msg {
	return refcodec.New(refcodec.Txattrcreate, 0, "fid", fid, "name", name, "attr_size", size, "flags", flags)
}
func tAuth() *refcodec.Msg {
	return refcodec.New(refcodec.Tauth, 0, "afid", 9, "uname", "u", "aname", "", "n_uname", 0)
}
func tFlush(old uint64) *refcodec.Msg { return refcodec.New(refcodec.Tflush, 0, "oldtag", old) }

// c04Alphabet is the request alphabet of the bounded-exhaustive part: three
// fid numbers (re-used), three names, every T-type.
func c04Alphabet(reduced bool) []*refcodec.Msg {
	a := []*refcodec.Msg{
		tAttach(0, nofid, ""), tAttach(1, nofid, "d"), tAttach(1, 5, ""), tAuth(),
		tWalk(0, 1), tWalk(0, 1, "d"), tWalk(0, 2, "d", "f"), tWalk(1, 1, "f"), tWalk(1, 2, "f"), tWalk(0, 2, "l"),
		tWalk(1, 2, "x"), tWalk(2, 1), tWalkGA(0, 1, "d"), tWalkGA(1, 2),
		tOpen(0, 0), tOpen(1, 0), tOpen(1, 1), tOpen(2, 0), tOpen(2, 1), tOpen(2, 2),
		tCreate(1, "x", 2, 0o644), tMkdir(1, "x"), tSymlink(1, "x", "t"), tMknod(1, "x", memtree.TFifo|0o600), tLink(1, 2, "x"),
		tUnlinkat(1, "f"), tUnlinkat(0, "d"), tUnlinkat(1, "x"), tUnlinkat(1, "e"),
		tRenameat(1, "f", 0, "x"), tRenameat(0, "d", 0, "x"), tRename(2, 0, "x"), tRename(1, 0, "x"),
		tRemove(1), tRemove(2), tClunk(0), tClunk(1), tClunk(2),
		tReadlink(2), tRead(1, 0, 4), tRead(2, 0, 4), tWrite(1, 0, "ab"), tWrite(2, 0, "ab"),
		tReaddir(1, 0, 1000), tFsync(2), tGetattr(1), tGetattr(2), tSetattr(2, 0x8, 0, 3), tStatfs(1), tLock(2),
		tXattrwalk(1, 2, "user.a"), tXattrwalk(1, 2, ""), tXattrcreate(1, "user.b", 2, 0), tXattrcreate(1, "user.a", 0, 2),
		tFlush(0xBEEF),
	}
	if !reduced {
		a = append(a, tWalk(0, 0), tWalk(0, 0, "d"), tWalk(1, 1), tUCreate(1, "x", 1, 0o600), tRemove(0), tReadlink(1), tReaddir(0, 0, 1000),
			tReaddir(2, 1, 1000), tFsync(1), tGetattr(0), tOpen(1, 2), tRead(2, 2, 100), tRead(2, 0, 0), tWrite(2, 5, "zz"),
			tCreate(0, "x", 0, 0o600), tMkdir(0, "d"), tOpen(2, 0x201), tOpen(2, 0x8000), tCreate(1, "y", 0x241, 0o600), tTread5M(2), tWalk(0, 2, "f", "x"), tWalk(0, 2, "nope"), tSetattr(1, 0x1, 0o700, 0))
	}
	return a
}

func tTread5M(fid uint64) *refcodec.Msg { return tRead(fid, 0, 5<<20) }

type seqCase struct {
	Native bool            `json:"native_walkgetattr"`
	Prefix int             `json:"prefix"`
	Reqs   []*refcodec.Msg `json:"reqs"`
	Probe  bool            `json:"probe_fid_table"`
	Life   bool            `json:"check_lifecycle"`
}

var c04Prefixes = [][]*refcodec.Msg{
	{},
	{tAttach(0, nofid, ""), tWalk(0, 1, "d"), tWalk(0, 2, "d", "f")},
	{tAttach(0, nofid, ""), tWalk(0, 1, "d"), tWalk(0, 2, "d", "f"), tOpen(2, 2), tOpen(1, 0)},
}

func cloneMsg(m *refcodec.Msg) *refcodec.Msg {
	c := &refcodec.Msg{Type: m.Type, Tag: 0, F: map[string]any{}}
	for k, v := range m.F {
		c.F[k] = v
	}
	return c
}

// runSeqCase runs one lock-step session against the model. stats (optional)
// receives per-case facts for the evidence.
type seqStats struct {
	errorsAfterState int // error replies to requests naming a bound fid
	openOutcomes     int
	edges            map[string]bool
	rejected         int
	desync           bool
}

func runSeqCase(c seqCase, st *seqStats) *fail {
	w, f := newWorld(worldOpts{native: c.Native, life: c.Life})
	if f != nil {
		return f
	}
	defer w.closeAll()
	all := append(append([]*refcodec.Msg{}, c04Prefixes[c.Prefix]...), c.Reqs...)
	for i, r := range all {
		req := cloneMsg(r)
		res, f := w.do(0, req)
		if f != nil {
			return f
		}
		if st != nil && i >= len(c04Prefixes[c.Prefix]) {
			if res.rep.Type == refcodec.Rlerror && res.exp.Rejected() && !res.exp.Errnos[refmodel.EBADF] {
				st.errorsAfterState++
			}
			if res.exp.Rejected() {
				st.rejected++
			}
			if res.verdict.Open {
				st.openOutcomes++
			}
			if st.edges != nil {
				outcome := "ok"
				if res.rep.Type == refcodec.Rlerror {
					outcome = fmt.Sprintf("e%d", res.rep.U("ecode"))
				}
				st.edges[refcodec.Name(req.Type)+":"+outcome] = true
			}
		}
		if w.desync {
			if st != nil {
				st.desync = true
			}
			break
		}
		if c.Probe {
			if f := w.probeFids(0, []uint32{0, 1, 2, 3}); f != nil {
				return f
			}
		}
	}
	if f := w.closeAll(); f != nil {
		return f
	}
	return nil
}

// genReq draws one request biased by the model state (bound fids mostly,
// sometimes unbound / clunked ones; names that exist mostly).
func genReq(rt *rapid.T, m *refmodel.Model, conn int, fidAlpha []uint64, names []string) *refcodec.Msg {
	fid := func(label string) uint64 {
		bound := m.Fids(conn)
		if len(bound) > 0 && rapid.IntRange(0, 9).Draw(rt, label+"b") < 8 {
			return uint64(rapid.SampledFrom(bound).Draw(rt, label))
		}
		return rapid.SampledFrom(fidAlpha).Draw(rt, label)
	}
	// fid of a given kind if one exists
	fidWhere := func(label string, pred func(f *refmodel.Fid) bool) uint64 {
		var c []uint32
		for _, n := range m.Fids(conn) {
			if pred(m.Get(conn, n)) {
				c = append(c, n)
			}
		}
		if len(c) > 0 && rapid.IntRange(0, 9).Draw(rt, label+"w") < 7 {
			return uint64(rapid.SampledFrom(c).Draw(rt, label))
		}
		return fid(label)
	}
	isDir := func(f *refmodel.Fid) bool { return f.Type == memtree.TDir && !f.Opened && !f.Opaque }
	isOpen := func(f *refmodel.Fid) bool { return f.Opened }
	notOpen := func(f *refmodel.Fid) bool { return !f.Opened && !f.Opaque }
	name := func(label string) string { return rapid.SampledFrom(names).Draw(rt, label) }
	newfid := func() uint64 { return rapid.SampledFrom(fidAlpha).Draw(rt, "newfid") }
	switch rapid.IntRange(0, 34).Draw(rt, "kind") {
	case 0:
		return tAttach(newfid(), nofid, rapid.SampledFrom([]string{"", "", "/", "d", "/d/e", "d/f", "nope", "f/x"}).Draw(rt, "aname"))
	case 1, 2, 3:
		n := rapid.IntRange(0, 3).Draw(rt, "nw")
		var ns []string
		for i := 0; i < n; i++ {
			ns = append(ns, name("wn"))
		}
		if rapid.Bool().Draw(rt, "ga") {
			return tWalkGA(fid("fid"), newfid(), ns...)
		}
		return tWalk(fid("fid"), newfid(), ns...)
	case 4:
		f := fid("fid")
		return tWalk(f, f) // in place
	case 5, 6, 7:
		return tOpen(fidWhere("fid", notOpen), uint64(rapid.SampledFrom([]int{0, 0, 1, 2, 2, 3, 0x200, 0x8002, 0x201, 0x241, 0x401, 0x8001, 0x10000}).Draw(rt, "flags")))
	case 8, 9:
		if rapid.Bool().Draw(rt, "u") {
			return tUCreate(fidWhere("fid", isDir), name("n"), uint64(rapid.SampledFrom([]int{0, 1, 2, 3, 0x201, 0x8000, 0x402}).Draw(rt, "fl")), 0o644)
		}
		return tCreate(fidWhere("fid", isDir), name("n"), uint64(rapid.SampledFrom([]int{0, 1, 2, 3, 0x201, 0x8000, 0x402}).Draw(rt, "fl")), 0o644)
	case 10:
		return tMkdir(fidWhere("fid", isDir), name("n"))
	case 11:
		return tSymlink(fidWhere("fid", isDir), name("n"), "tgt")
	case 12:
		return tMknod(fidWhere("fid", isDir), name("n"), uint64(rapid.SampledFrom([]int{memtree.TFifo | 0o600, memtree.TChar | 0o600, memtree.TSock | 0o644, 0o644}).Draw(rt, "mode")))
	case 13:
		return tLink(fidWhere("dfid", isDir), fid("fid"), name("n"))
	case 14, 15:
		return tUnlinkat(fidWhere("fid", isDir), name("n"))
	case 16, 17:
		return tRenameat(fidWhere("od", isDir), name("on"), fidWhere("nd", isDir), name("nn"))
	case 18:
		return tRename(fid("fid"), fidWhere("dfid", isDir), name("n"))
	case 19:
		return tRemove(fid("fid"))
	case 20, 21:
		return tClunk(fid("fid"))
	case 22:
		return tReadlink(fid("fid"))
	case 23, 24:
		return tRead(fidWhere("fid", isOpen), uint64(rapid.IntRange(0, 12).Draw(rt, "off")), uint64(rapid.SampledFrom([]int{0, 1, 4, 100, 5 << 20}).Draw(rt, "cnt")))
	case 25, 26:
		return tWrite(fidWhere("fid", isOpen), uint64(rapid.IntRange(0, 6).Draw(rt, "off")), rapid.SampledFrom([]string{"", "a", "xyz"}).Draw(rt, "data"))
	case 27:
		return tReaddir(fidWhere("fid", isOpen), uint64(rapid.IntRange(0, 3).Draw(rt, "off")), uint64(rapid.SampledFrom([]int{0, 30, 60, 4000}).Draw(rt, "cnt")))
	case 28:
		return tFsync(fid("fid"))
	case 29:
		return tGetattr(fid("fid"))
	case 30:
		return tSetattr(fid("fid"), uint64(rapid.SampledFrom([]int{1, 2, 4, 8, 9, 0x1ff}).Draw(rt, "valid")), uint64(rapid.IntRange(0, 0o7777).Draw(rt, "mode")), uint64(rapid.IntRange(0, 20).Draw(rt, "size")))
	case 31:
		return rapid.SampledFrom([]*refcodec.Msg{tStatfs(fid("fid")), tLock(fid("fid")), tAuth(), tAttach(newfid(), 3, ""), tFlush(0xBEEF)}).Draw(rt, "misc")
	case 32:
		return tXattrwalk(fid("fid"), newfid(), rapid.SampledFrom([]string{"", "user.a", "user.b", "user.zz"}).Draw(rt, "xn"))
	case 33:
		return tXattrcreate(fid("fid"), rapid.SampledFrom([]string{"user.a", "user.b"}).Draw(rt, "xn"), uint64(rapid.IntRange(0, 4).Draw(rt, "xs")), uint64(rapid.IntRange(0, 2).Draw(rt, "xf")))
	default:
		// xattr sub-protocol traffic on whatever fid
		if rapid.Bool().Draw(rt, "xr") {
			return tRead(fid("fid"), uint64(rapid.IntRange(0, 3).Draw(rt, "off")), uint64(rapid.IntRange(0, 4).Draw(rt, "cnt")))
		}
		return tWrite(fid("fid"), uint64(rapid.IntRange(0, 3).Draw(rt, "off")), rapid.SampledFrom([]string{"", "a", "ab", "abcd"}).Draw(rt, "data"))
	}
}

func init() {
	replayRegistrars = append(replayRegistrars, func() {
		registerReplay("C04/exhaustive", func(c seqCase) *fail { return runSeqCase(c, nil) })
		registerReplay("C04/backend-failure", func(c faultCase) *fail { return runFaultCase(c, nil) })
		registerReplay("C04/random", func(c seqCase) *fail { return runSeqCase(c, nil) })
	})
}

func seqHash(c seqCase) uint64 {
	parts := [][]byte{{byte(c.Prefix)}}
	if c.Native {
		parts = append(parts, []byte{1})
	}
	for _, r := range c.Reqs {
		r.Tag = 0
		parts = append(parts, refcodec.Encode(r))
	}
	return evid.Hash64(parts...)
}

func TestC04(t *testing.T) {
	h := begin(t, "C04")
	defer h.Finish()
	env := h.Env
	edges := map[string]bool{}

	// (a) bounded-exhaustive: all sequences over the alphabet to a depth.
	enumerate := func(label string, alpha []*refcodec.Msg, prefix, depth int, native bool) bool {
		total := 1
		for i := 0; i < depth; i++ {
			total *= len(alpha)
		}
		idx := make([]int, depth)
		for n := 0; n < total; n++ {
			if n%env.NShards != env.Shard {
				continue
			}
			k := n
			for i := depth - 1; i >= 0; i-- {
				idx[i] = k % len(alpha)
				k /= len(alpha)
			}
			c := seqCase{Native: native, Prefix: prefix}
			for _, i := range idx {
				c.Reqs = append(c.Reqs, alpha[i])
			}
			st := &seqStats{edges: edges}
			f := runSeqCase(c, st)
			h.Case(seqHash(c), st.errorsAfterState > 0, "exhaustive:"+label)
			h.Count("open-outcomes", int64(st.openOutcomes))
			if st.errorsAfterState > 0 && h.WantSample("exhaustive") {
				h.Sample("exhaustive", c)
			}
			if h.report("exhaustive", f, c) {
				return false
			}
		}
		h.Exhaustive(fmt.Sprintf("%s: all %d sequences of depth %d over %d requests after prefix %d", label, total, depth, len(alpha), prefix))
		return true
	}
	// (0) the open state after a backend failure: sessions centred on Tlopen /
	// Tlcreate are re-run with every backend call failing in turn (the engine of
	// C15); a request the backend failed leaves the fid as it was - unopened fids
	// stay unopened (reads EINVAL, a second Tlopen is served), opened directories
	// stay refused, bindings stay
	if env.Shard == 0 {
		e5 := errSpec{Style: "linux", Errno: 5}
		for _, native := range []bool{false, true} {
			for si, reqs := range [][]*refcodec.Msg{
				{tAttach(0, nofid, ""), tWalk(0, 1, "a", "h"), tOpen(1, 0), tRead(1, 0, 4), tWrite(1, 0, "x"), tFsync(1), tOpen(1, 2), tWrite(1, 0, "y"), tRead(1, 0, 4), tOpen(1, 0), tClunk(1)},
				{tAttach(0, nofid, ""), tWalk(0, 1, "a"), tOpen(1, 0), tReaddir(1, 0, 4000), tWalk(1, 1, "b"), tMkdir(1, "m"), tOpen(1, 0), tReaddir(1, 0, 4000), tWalk(1, 1, "b"), tCreate(1, "n", 2, 0o644), tUnlinkat(1, "h"), tClunk(1)},
				{tAttach(0, nofid, ""), tWalk(0, 1, "d"), tCreate(1, "nf", 2, 0o644), tWrite(1, 0, "abc"), tRead(1, 0, 3), tOpen(1, 0), tWalk(0, 1, "d"), tCreate(1, "nf2", 1, 0o644), tRead(1, 0, 1), tWrite(1, 0, "z"), tClunk(1)},
			} {
				c := faultCase{Conns: 1, Native: native, Tree: "deep"}
				for _, r := range reqs {
					c.Steps = append(c.Steps, connReq{0, r})
				}
				st := &faultStats{}
				if f := runFaultCase(c, st); f != nil {
					h.report("backend-failure", f, c)
					return
				}
				for k := 1; k <= st.armedCalls; k++ {
					fc := c
					fc.FaultAt, fc.Err = k, &e5
					fst := &faultStats{}
					f := runFaultCase(fc, fst)
					h.Case(faultHash(fc)+uint64(si), fst.struck && fst.afterOK > 0, "backend-failure:"+fst.op)
					if f != nil && strings.HasPrefix(f.Sig, "harness-") {
						t.Errorf("HARNESS-ERROR %s", f.Msg)
						continue
					}
					if h.report("backend-failure", f, fc) {
						return
					}
				}
			}
		}
		h.Exhaustive("3 open-centred sessions x every backend call failing in turn x 2 backends")
	}
	full, reduced := c04Alphabet(false), c04Alphabet(true)
	if !enumerate("depth2-fresh", full, 0, 2, false) || !enumerate("depth2-bound", full, 1, 2, false) ||
		!enumerate("depth2-opened", full, 2, 2, true) {
		return
	}
	if env.Thorough() {
		if !enumerate("depth3-bound", full, 1, 3, false) || !enumerate("depth3-opened", reduced, 2, 3, true) ||
			!enumerate("depth4-bound-reduced", reduced[:34], 1, 4, false) {
			return
		}
	}

	// (b) random sequences with the fid table probed after every step.
	fidAlpha := []uint64{0, 1, 2, 3, nofid}
	names := []string{"d", "f", "e", "x", "l", "p", "y", "d", "f", "e", "x", "d", "f", "x", "y", "", "..", "a/b"}
	rapidCases(h, "random", env.PerShard(env.Pick(24000, 400000)), func(rt *rapid.T) seqCase {
		// the sequence is generated against a private model so that choices can
		// depend on the state; only the concrete requests are kept
		c := seqCase{Native: rapid.Bool().Draw(rt, "native"), Prefix: 0, Probe: rapid.IntRange(0, 2).Draw(rt, "probe") == 0}
		m := refmodel.New(1)
		memtree.Populate(m.Tree)
		n := rapid.IntRange(1, 60).Draw(rt, "len")
		if rapid.IntRange(0, 3).Draw(rt, "pre") != 0 {
			for _, r := range c04Prefixes[1] {
				c.Reqs = append(c.Reqs, r)
				e := m.Step(0, r)
				advanceModel(m, e)
			}
		}
		for i := 0; i < n; i++ {
			r := genReq(rt, m, 0, fidAlpha, names)
			c.Reqs = append(c.Reqs, r)
			advanceModel(m, m.Step(0, r))
		}
		return c
	}, func(c seqCase) *fail {
		st := &seqStats{edges: edges}
		f := runSeqCase(c, st)
		h.Case(seqHash(c), st.errorsAfterState > 0, "random")
		h.Count("random:state-dependent-rejections", int64(st.errorsAfterState))
		if st.desync {
			h.Count("random:ended-early(open outcome changed the tree)", 1)
		}
		h.Count("open-outcomes", int64(st.openOutcomes))
		if st.errorsAfterState > 2 && h.WantSample("random") {
			h.Sample("random", c)
		}
		return f
	})
	h.Count("edges(request-kind x outcome)", int64(len(edges)))
}

// advanceModel moves a private model forward assuming the server behaves as
// the model says (used only while generating sequences).
func advanceModel(m *refmodel.Model, e *refmodel.Expect) {
	m.Assume(e)
}
