package checks

import (
	"fmt"
	"strings"
	"testing"

	"p9verif/evid"
	"p9verif/memfs"
	"p9verif/memtree"
	"p9verif/refcodec"
	"p9verif/refmodel"

	"pgregory.net/rapid"
)

// ---------------------------------------------------------------------------
// C09 — name confinement

type nameCase struct {
	Native bool            `json:"native_walkgetattr"`
	Reqs   []*refcodec.Msg `json:"reqs"`
}

// c09Setup: 0=/ 1=/d 2=/d/f 3=/l (symlink to d) 4=/p (fifo) 5=/d/e 6=/c (char device)
var c09Setup = []*refcodec.Msg{
	tAttach(0, nofid, ""), tWalk(0, 1, "d"), tWalk(0, 2, "d", "f"), tWalk(0, 3, "l"), tWalk(0, 4, "p"), tWalk(0, 5, "d", "e"), tWalk(0, 6, "c"),
}

var hostileNames = []string{"", ".", "..", "a/b", "/", "a/", "/a", "./a", "../x", "d/f", "d/", "//", "a//b", "../../etc/passwd", "./", "x/.", "x/.."}
var oddSafeNames = []string{"...", "..a", "a..", " ", "a\x00b", "\x00", "\xff\xfe", "-", "~", "a\\b", ".a", "a.", "\n"}
var plainNames = []string{"d", "f", "e", "x", "y", "l", "p", "new"}

func genName(rt *rapid.T, label string) string {
	switch rapid.IntRange(0, 9).Draw(rt, label+"k") {
	case 0, 1, 2, 3:
		return rapid.SampledFrom(hostileNames).Draw(rt, label)
	case 4:
		return rapid.SampledFrom(oddSafeNames).Draw(rt, label)
	case 5:
		// very long names, safe and unsafe
		n := rapid.SampledFrom([]int{255, 256, 4096, 32767, 32768, 65535}).Draw(rt, label+"len")
		b := []byte(strings.Repeat("n", n))
		if rapid.Bool().Draw(rt, label+"slash") {
			b[rapid.IntRange(0, n-1).Draw(rt, label+"pos")] = '/'
		}
		return string(b)
	case 6:
		// arbitrary bytes
		return string(rapid.SliceOfN(rapid.Byte(), 0, 8).Draw(rt, label))
	default:
		return rapid.SampledFrom(plainNames).Draw(rt, label)
	}
}

func genNameReq(rt *rapid.T) *refcodec.Msg {
	dir := uint64(rapid.SampledFrom([]int{0, 1, 1, 5, 0, 1, 3, 4, 2}).Draw(rt, "dir"))
	n := func(l string) string { return genName(rt, l) }
	switch rapid.IntRange(0, 16).Draw(rt, "kind") {
	case 0, 1, 2:
		k := rapid.IntRange(1, 4).Draw(rt, "nw")
		var ns []string
		for i := 0; i < k; i++ {
			if rapid.IntRange(0, 2).Draw(rt, "plain") == 0 {
				ns = append(ns, n("wn"))
			} else {
				// walks through files, symlinks, fifos, devices as intermediates
				ns = append(ns, rapid.SampledFrom([]string{"d", "f", "e", "l", "lf", "p", "c", "b", "s"}).Draw(rt, "wn"))
			}
		}
		if rapid.Bool().Draw(rt, "ga") {
			return tWalkGA(dir, 9, ns...)
		}
		return tWalk(dir, 9, ns...)
	case 3, 4:
		an := rapid.SampledFrom([]string{"", "/", "d", "/d", "d/e", "/d/f", "a//b", "/../x", "a/./b", "//d", "d/", "d//e", "/d/./e", "..", "/..", "l/f", "lf", "f/x", "p/x", "d/e/", "/d/e/../f", "."}).Draw(rt, "aname")
		if rapid.IntRange(0, 3).Draw(rt, "gen") == 0 {
			an = n("an1") + "/" + n("an2")
			if len(an) > 65535 {
				an = an[:65535]
			}
		}
		return tAttach(9, nofid, an)
	case 5:
		return tCreate(dirClone(dir), n("n"), 2, 0o644)
	case 6:
		return tUCreate(dirClone(dir), n("n"), 2, 0o644)
	case 7:
		return rapid.SampledFrom([]*refcodec.Msg{tMkdir(dir, n("n")), refcodec.New(refcodec.Tumkdir, 0, "dfid", dir, "name", n("n2"), "mode", 0o755, "gid", 1, "uid", 2)}).Draw(rt, "mk")
	case 8:
		// the symlink *target* may be anything; only the new name is confined
		tgt := rapid.SampledFrom([]string{"t", "../../x", "/etc/passwd", "", "."}).Draw(rt, "tgt")
		if rapid.Bool().Draw(rt, "u") {
			return refcodec.New(refcodec.Tusymlink, 0, "dfid", dir, "name", n("n"), "symtgt", tgt, "gid", 1, "uid", 2)
		}
		return tSymlink(dir, n("n"), tgt)
	case 9:
		if rapid.Bool().Draw(rt, "u") {
			return refcodec.New(refcodec.Tumknod, 0, "dfid", dir, "name", n("n"), "mode", memtree.TFifo|0o600, "major", 0, "minor", 0, "gid", 1, "uid", 2)
		}
		return tMknod(dir, n("n"), memtree.TFifo|0o600)
	case 10:
		return tLink(dir, 2, n("n"))
	case 11:
		return tRename(uint64(rapid.SampledFrom([]int{2, 5, 4, 1}).Draw(rt, "rf")), dir, n("n"))
	case 12, 13:
		od, nd := dir, uint64(rapid.SampledFrom([]int{0, 1, 5}).Draw(rt, "nd"))
		switch rapid.IntRange(0, 2).Draw(rt, "which") {
		case 0:
			return tRenameat(od, n("on"), nd, rapid.SampledFrom(plainNames).Draw(rt, "nn"))
		case 1:
			return tRenameat(od, rapid.SampledFrom(plainNames).Draw(rt, "on"), nd, n("nn"))
		default:
			return tRenameat(od, n("on"), nd, n("nn"))
		}
	default:
		return tUnlinkat(dir, n("n"))
	}
}

// dirClone: Tlcreate rebinds its fid, so creates go through a scratch clone.
func dirClone(dir uint64) uint64 { return dir }

// checkBackendNames is the invariant over the backend log.
func checkBackendNames(calls []memfs.Call) *fail {
	for _, c := range calls {
		var ns []string
		switch c.Op {
		case "Walk", "WalkGetAttr":
			if len(c.Names) > 1 {
				return failf("multi-component-walk", "backend saw a walk of %d components at once: %s", len(c.Names), c.String())
			}
			if len(c.Names) == 1 && c.Kind != memtree.TDir {
				return failf("walk-through-non-directory", "backend saw a walk from a node it reported as type %#o: %s", c.Kind, c.String())
			}
			ns = c.Names
		case "Create", "Mkdir", "Mknod", "Link", "UnlinkAt":
			ns = []string{c.Name}
		case "Symlink":
			ns = []string{c.Name} // Name2 is the target, which is free
		case "RenameAt":
			ns = []string{c.Name, c.Name2}
		case "Renamed":
			ns = []string{c.Name}
		}
		for _, n := range ns {
			if refmodel.Bad(n) {
				return failf("unsafe-name-reached-backend:"+c.Op, "backend received the unsafe name %q: %s", n, c.String())
			}
		}
	}
	return nil
}

type nameStats struct {
	unsafeAlone int // unsafe name in a position whose other preconditions hold
	controlsOK  int
	hashes      []uint64
}

func reqNames(r *refcodec.Msg) []string {
	var out []string
	for _, k := range []string{"name", "oldname", "newname"} {
		if v, ok := r.F[k]; ok {
			out = append(out, v.(string))
		}
	}
	out = append(out, r.Strs("wnames")...)
	if r.Type == refcodec.Tattach {
		an := r.S("aname")
		if strings.HasPrefix(an, "/") {
			an = an[1:]
		}
		if an != "" {
			out = append(out, strings.Split(an, "/")...)
		}
	}
	return out
}

func runNameCase(c nameCase, st *nameStats) *fail {
	w, f := newWorld(worldOpts{native: c.Native, msize: 1 << 20})
	if f != nil {
		return f
	}
	defer w.closeAll()
	for _, r := range c09Setup {
		if _, f := w.do(0, cloneMsg(r)); f != nil {
			return f
		}
	}
	for _, r := range c.Reqs {
		req := cloneMsg(r)
		if req.Type == refcodec.Tlcreate || req.Type == refcodec.Tucreate {
			// create through a scratch clone so the directory fid survives
			if _, f := w.do(0, tWalk(req.U("fid"), 8)); f != nil {
				return f
			}
			req.F["fid"] = uint64(8)
		}
		unsafe := false
		for _, n := range reqNames(req) {
			if refmodel.Bad(n) {
				unsafe = true
			}
		}
		before := w.fs.Seq()
		res, f := w.do(0, req)
		if f != nil {
			return f
		}
		if f := checkBackendNames(w.fs.LogSince(before)); f != nil {
			f.Msg += "; request: " + req.String() + "; history: " + w.history()
			return f
		}
		if st != nil {
			st.hashes = append(st.hashes, evid.Hash64(refcodec.Encode(r)))
			if unsafe && res.exp.Rejected() && len(res.exp.Errnos) == 1 && res.exp.Errnos[refmodel.EINVAL] {
				st.unsafeAlone++
			}
			if !unsafe && res.rep.Type != refcodec.Rlerror {
				st.controlsOK++
			}
		}
		if unsafe && res.rep.Type != refcodec.Rlerror {
			return failf("unsafe-name-accepted:"+refcodec.Name(req.Type), "%s was not refused; history: %s", req, w.history())
		}
		if w.desync {
			break
		}
	}
	// whole-log invariant once more (covers calls made by the setup and probes)
	if f := checkBackendNames(w.fs.LogSince(0)); f != nil {
		return f
	}
	return w.closeAll()
}

func init() {
	replayRegistrars = append(replayRegistrars, func() {
		registerReplay("C09/names", func(c nameCase) *fail { return runNameCase(c, nil) })
		registerReplay("C09/enumerated", func(c nameCase) *fail { return runNameCase(c, nil) })
	})
}

func TestC09(t *testing.T) {
	h := begin(t, "C09")
	defer h.Finish()
	env := h.Env

	// every hostile name in every name position of every request type, alone
	if env.Shard == 0 {
		controls := 0
		for _, hn := range append(append([]string{}, hostileNames...), oddSafeNames...) {
			reqs := []*refcodec.Msg{
				tWalk(0, 9, hn), tWalk(0, 9, "d", hn), tWalk(0, 9, hn, "f"), tWalk(0, 9, "d", "e", hn), tWalkGA(0, 9, hn), tWalkGA(0, 9, "d", hn),
				tAttach(9, nofid, hn), tAttach(9, nofid, "d/"+hn), tAttach(9, nofid, hn+"/d"), tAttach(9, nofid, "/"+hn),
				tCreate(1, hn, 2, 0o644), tUCreate(1, hn, 2, 0o644), tMkdir(1, hn),
				refcodec.New(refcodec.Tumkdir, 0, "dfid", 1, "name", hn, "mode", 0o755, "gid", 1, "uid", 2),
				tSymlink(1, hn, "t"), refcodec.New(refcodec.Tusymlink, 0, "dfid", 1, "name", hn, "symtgt", "t", "gid", 1, "uid", 2),
				tMknod(1, hn, memtree.TFifo|0o600),
				refcodec.New(refcodec.Tumknod, 0, "dfid", 1, "name", hn, "mode", memtree.TFifo|0o600, "major", 0, "minor", 0, "gid", 1, "uid", 2),
				tLink(1, 2, hn), tRename(2, 1, hn), tRenameat(1, hn, 0, "zz"), tRenameat(1, "f", 0, hn), tRenameat(1, hn, 1, hn), tUnlinkat(1, hn),
			}
			for _, r := range reqs {
				for _, native := range []bool{false, true} {
					c := nameCase{Native: native, Reqs: []*refcodec.Msg{r}}
					st := &nameStats{}
					f := runNameCase(c, st)
					h.Case(evid.Hash64(refcodec.Encode(r), []byte{b2u(native)}), st.unsafeAlone > 0, "enumerated:"+refcodec.Name(r.Type))
					controls += st.controlsOK
					if h.report("enumerated", f, c) {
						return
					}
				}
			}
		}
		h.Count("enumerated:safe-controls-accepted", int64(controls))
		h.Exhaustive(fmt.Sprintf("%d hostile/odd names x 24 name positions x 2 backends", len(hostileNames)+len(oddSafeNames)))
	}

	// walks whose start or intermediate directory is removed or replaced while
	// the walk is under way (engine of C07, schedules owned by the harness)
	schedSubCheck(h, env.PerShard(env.Pick(3200, 80000)), []string{"e", "e", "k"}, keepC09)

	rapidCases(h, "names", env.PerShard(env.Pick(32000, 800000)), func(rt *rapid.T) nameCase {
		c := nameCase{Native: rapid.Bool().Draw(rt, "native")}
		n := rapid.IntRange(1, 8).Draw(rt, "n")
		for i := 0; i < n; i++ {
			c.Reqs = append(c.Reqs, genNameReq(rt))
		}
		return c
	}, func(c nameCase) *fail {
		st := &nameStats{}
		f := runNameCase(c, st)
		for i, hsh := range st.hashes {
			_ = i
			h.Case(hsh, false)
		}
		// the case itself counts as non-trivial when an unsafe name stood alone
		parts := [][]byte{}
		for _, r := range c.Reqs {
			parts = append(parts, refcodec.Encode(r))
		}
		h.Case(evid.Hash64(parts...), st.unsafeAlone > 0, "random-session")
		h.Count("random:unsafe-name-alone", int64(st.unsafeAlone))
		h.Count("random:safe-controls-accepted", int64(st.controlsOK))
		if st.unsafeAlone > 1 && h.WantSample("names") {
			h.Sample("names", c)
		}
		return f
	})
}

func b2u(b bool) byte {
	if b {
		return 1
	}
	return 0
}
