package checks

import (
	"fmt"
	"time"

	"p9verif/memfs"
	"p9verif/memtree"
	"p9verif/peers"
	"p9verif/refcodec"

	"github.com/hugelgupf/p9/p9"
)

// partialMaskCase (C05): a backend whose attribute masks are partial (everything
// but directories comes back without the Mode bit, which the File contract
// allows). Whatever the server makes of such a file - serve it or refuse it -
// every File the backend handed out is closed exactly once, none is used after
// its Close, and Handle returns. Replies are not judged here.
type partialMaskCase struct {
	Native bool            `json:"native_walkgetattr"`
	Reqs   []*refcodec.Msg `json:"reqs"`
	Dirs   bool            `json:"dirs_too,omitempty"` // directories, the root included, come back without Mode as well (attaches are then refused)
}

func runPartialMaskCase(c partialMaskCase) *fail {
	fs := memfs.New(memfs.Options{NativeWalkGetAttr: c.Native, PartialMask: true, PartialMaskDirs: c.Dirs})
	memtree.Populate(fs.Tree)
	s := peers.Start(p9.NewServer(fs))
	if _, err := s.Version(64<<10, "9P2000.L.Google.7"); err != nil {
		return failf("harness-version", "HARNESS-ERROR %v", err)
	}
	hist := ""
	for i, r := range c.Reqs {
		rep, err := s.Call(withTag(cloneMsg(r), uint16(10+i)))
		if err != nil {
			return failf("no-reply:partial-mask", "request %s was not answered (%v); history:%s", r, err, hist)
		}
		hist += fmt.Sprintf(" [%s => %s]", r, rep)
	}
	if !s.Close(20 * time.Second) {
		return failf("handle-did-not-return:partial-mask", "Handle did not return; history:%s", hist)
	}
	for _, a := range fs.Anomalies() {
		if a.Kind == "use-after-close" || a.Kind == "double-close" || a.Kind == "close-during-call" {
			return failf(a.Sig, "%s: %s; history:%s", a.Kind, a.A, hist)
		}
	}
	for _, h := range fs.Handles() {
		if h.Closes != 1 {
			return failf(map[bool]string{true: "not-closed-at-teardown", false: "double-close"}[h.Closes == 0], "backend with partial attribute masks: File h%d (%s) was closed %d times although the connection ended; history:%s", h.ID, h.Path, h.Closes, hist)
		}
	}
	return nil
}
