package checks

import (
	"bytes"
	"errors"
	"fmt"
	"io"
	"runtime"
	"testing"
	"time"

	"p9verif/evid"
	"p9verif/memfs"
	"p9verif/memtree"

	"github.com/hugelgupf/p9/linux"
	"github.com/hugelgupf/p9/p9"
	"pgregory.net/rapid"
)

// ---------------------------------------------------------------------------
// C11 — chunked I/O: ReadAt/WriteAt of any size equal one remote operation

type ioCase struct {
	Msize    uint32 `json:"msize"`
	IOUnit   uint32 `json:"iounit,omitempty"` // what the backend's Open announces; has no bearing on the limits
	FileSize uint64 `json:"file_size"`
	Op       string `json:"op"` // read | write
	Len      int    `json:"len"`
	Offset   uint64 `json:"offset"`
	ShortAt  int    `json:"short_at"` // chunk index that transfers only ShortCount bytes (no error); -1 none
	ShortN   int    `json:"short_n"`
	ErrAt    int    `json:"err_at"` // chunk index that fails with zero bytes; -1 none
	Errno    int    `json:"errno"`
	Salt     uint8  `json:"salt"`
	Sock     int    `json:"sock,omitempty"` // > 0: over a real socket pair with kernel buffers of this size (else in memory)
}

type ioStats struct {
	chunks int
}

func initialByte(off uint64) byte { return byte(off) ^ byte(off>>7) ^ byte(off>>16) | 0x80 }

func runIOCase(c ioCase, st *ioStats) *fail {
	fs := memfs.New(memfs.Options{NativeWalkGetAttr: true})
	fs.IOUnit = c.IOUnit
	f0, _ := fs.Tree.Create(fs.Tree.Root, "f", 0o644, 0, 0)
	// initial content: a recognisable pattern in the first and last 64 KiB windows, zeros between
	initAt := func(off uint64) byte {
		if off >= c.FileSize {
			return 0
		}
		if off < 1<<16 || c.FileSize-off <= 1<<16 {
			return initialByte(off)
		}
		return 0
	}
	fill := func(from, to uint64) {
		if to > c.FileSize {
			to = c.FileSize
		}
		if from >= to {
			return
		}
		b := make([]byte, to-from)
		for i := range b {
			b[i] = initialByte(from + uint64(i))
		}
		f0.WriteAt(b, from)
	}
	fill(0, 1<<16)
	if c.FileSize > 1<<16 {
		fill(c.FileSize-(1<<16), c.FileSize)
	}
	f0.Truncate(c.FileSize)
	var scriptErr error
	if c.ErrAt >= 0 {
		scriptErr = linux.Errno(c.Errno)
	}
	fs.IOScript = func(op string, idx int, off int64, n int) (int, error) {
		if idx == c.ErrAt {
			return 0, scriptErr
		}
		if idx == c.ShortAt {
			return c.ShortN, nil
		}
		return -1, nil
	}
	srv := p9.NewServer(fs)
	dial := dialPipe
	if c.Sock > 0 {
		dial = func(srv *p9.Server, opts ...p9.ClientOpt) (*p9.Client, func(), error) {
			return dialSock(srv, c.Sock, opts...)
		}
	}
	cl, closeFn, err := dial(srv, p9.WithMessageSize(c.Msize))
	if err != nil {
		return failf("harness-dial", "HARNESS-ERROR msize %d: %v", c.Msize, err)
	}
	defer closeFn()
	root, err := cl.Attach("")
	if err != nil {
		return failf("harness-attach", "HARNESS-ERROR %v", err)
	}
	defer runtime.KeepAlive(root)
	_, f, err := root.Walk([]string{"f"})
	if err != nil {
		return failf("harness-walk", "HARNESS-ERROR %v", err)
	}
	defer runtime.KeepAlive(f)
	if _, _, err := f.Open(p9.ReadWrite); err != nil {
		return failf("harness-open", "HARNESS-ERROR %v", err)
	}
	fs.ResetIO()
	from := fs.Seq()
	what := fmt.Sprintf("%s of %d bytes at offset %d (msize %d, file size %d, short chunk %d->%d bytes, failing chunk %d)", c.Op, c.Len, c.Offset, c.Msize, c.FileSize, c.ShortAt, c.ShortN, c.ErrAt)
	p := make([]byte, c.Len)
	var n int
	var opErr error
	if c.Op == "write" {
		for i := range p {
			p[i] = byte(i*13) ^ c.Salt | 1
		}
		n, opErr = f.WriteAt(p, int64(c.Offset))
	} else {
		for i := range p {
			p[i] = 0xEE
		}
		n, opErr = f.ReadAt(p, int64(c.Offset))
	}
	// --- the chunks the backend saw ---------------------------------------------------
	var calls []memfs.Call
	want := "WriteAt"
	if c.Op == "read" {
		want = "ReadAt"
	}
	for _, cl := range fs.LogSince(from) {
		if cl.Op == want {
			calls = append(calls, cl)
		}
	}
	if st != nil {
		st.chunks = len(calls)
	}
	limit := int(c.Msize) - 23
	if c.Op == "read" {
		limit = int(c.Msize) - 11
	}
	pos := c.Offset
	total := 0
	stopped := false
	var firstErr error
	for i, cl := range calls {
		off, req, done := cl.Args[0], int(cl.Args[1]), int(cl.Args[2])
		if stopped {
			return failf("chunk-after-short-or-failed", "%s: chunk %d was issued after a short or failed chunk", what, i)
		}
		if off != pos {
			return failf("chunks-not-contiguous", "%s: chunk %d starts at offset %d, expected %d", what, i, off, pos)
		}
		if req > limit {
			return failf("chunk-exceeds-msize", "%s: chunk %d asks for %d bytes, the frame limit allows %d", what, i, req, limit)
		}
		if total+req > c.Len {
			return failf("chunk-beyond-buffer", "%s: chunk %d asks for %d bytes, only %d remain", what, i, req, c.Len-total)
		}
		pos += uint64(done)
		total += done
		if i == c.ErrAt {
			stopped, firstErr = true, scriptErr
		} else if done < req {
			stopped = true
		}
	}
	if len(calls) == 0 && c.Len > 0 {
		return failf("no-chunk-issued", "%s: the backend saw no %s", what, want)
	}
	// --- what the caller sees ---------------------------------------------------------
	if n != total {
		return failf("count-mismatch:"+c.Op, "%s: the caller got n=%d, the backend transferred %d bytes in %d chunks", what, n, total, len(calls))
	}
	if firstErr != nil {
		if opErr == nil || !errors.Is(opErr, linux.Errno(c.Errno)) {
			return failf("chunk-error-lost:"+c.Op, "%s: chunk %d failed with errno %d, the caller got n=%d err=%v", what, c.ErrAt, c.Errno, n, opErr)
		}
	} else if c.Op == "write" {
		if opErr != nil {
			return failf("unexpected-error:write", "%s: %v", what, opErr)
		}
		if !stopped && n != c.Len {
			return failf("write-incomplete", "%s: every chunk was accepted but n=%d", what, n)
		}
	} else {
		// read: io.EOF only if fewer than len(p) bytes were delivered, and always
		// when none was delivered for a non-empty buffer
		if opErr != nil && opErr != io.EOF {
			return failf("unexpected-error:read", "%s: %v", what, opErr)
		}
		if opErr == io.EOF && n == c.Len {
			return failf("eof-with-full-buffer", "%s: the buffer was filled completely and io.EOF was returned", what)
		}
		if n == 0 && c.Len > 0 && opErr != io.EOF {
			return failf("empty-read-without-eof", "%s: no byte was delivered and the error is %v (want io.EOF)", what, opErr)
		}
	}
	// --- content ------------------------------------------------------------------------
	if c.Op == "read" {
		for i := 0; i < n; i++ {
			if p[i] != initAt(c.Offset+uint64(i)) {
				return failf("read-wrong-bytes", "%s: byte %d of the result is %#x, the file holds %#x there", what, i, p[i], initAt(c.Offset+uint64(i)))
			}
		}
		for i := n; i < c.Len; i++ {
			if p[i] != 0xEE {
				return failf("read-touched-tail", "%s: the buffer was modified at index %d beyond the %d bytes returned", what, i, n)
			}
		}
		if firstErr == nil && !stopped && uint64(n) < uint64(c.Len) && c.Offset+uint64(n) < c.FileSize {
			return failf("read-short-without-cause", "%s: only %d bytes were returned although the file continues and no chunk was short", what, n)
		}
		return nil
	}
	// write: the file holds exactly p[:total] at the offset, everything else unchanged
	ino, _ := fs.Tree.Resolve([]string{"f"})
	check := func(from, to uint64, expect func(off uint64) byte) *fail {
		if to <= from {
			return nil
		}
		buf := make([]byte, to-from)
		got := ino.ReadAt(buf, from)
		for i := 0; i < int(to-from); i++ {
			var b byte
			if i < got {
				b = buf[i]
			}
			if b != expect(from+uint64(i)) {
				return failf("write-wrong-content", "%s: after the write the file holds %#x at offset %d, expected %#x", what, b, from+uint64(i), expect(from+uint64(i)))
			}
		}
		return nil
	}
	lo := uint64(0)
	if c.Offset > 64 {
		lo = c.Offset - 64
	}
	if f := check(lo, c.Offset, initAt); f != nil {
		return f
	}
	if f := check(c.Offset, c.Offset+uint64(total), func(off uint64) byte { return p[off-c.Offset] }); f != nil {
		return f
	}
	if f := check(c.Offset+uint64(total), c.Offset+uint64(c.Len)+64, initAt); f != nil {
		return f
	}
	wantSize := c.FileSize
	if total > 0 && c.Offset+uint64(total) > wantSize {
		wantSize = c.Offset + uint64(total)
	}
	if ino.Size != wantSize {
		return failf("write-wrong-size", "%s: the file is %d bytes long afterwards, expected %d", what, ino.Size, wantSize)
	}
	return nil
}

func genIOCase(rt *rapid.T) ioCase {
	lfs := p9.VerifLargestFixedSize()
	return genIOCaseM(rt, []uint32{lfs + 1, lfs + 2, lfs + 100, 512, 1000, 4096, 65536, 1 << 20})
}

// genIOSockCase: the same over a real socket pair, with frames larger than the
// kernel's buffers.
func genIOSockCase(rt *rapid.T) ioCase {
	c := genIOCaseM(rt, []uint32{4096, 65536, 200000, 1 << 20, 1 << 20, 4 << 20})
	c.Sock = rapid.SampledFrom([]int{2048, 16384, 65536, 212992}).Draw(rt, "sockbuf")
	return c
}

func genIOCaseM(rt *rapid.T, msizes []uint32) ioCase {
	lfs := p9.VerifLargestFixedSize()
	c := ioCase{ShortAt: -1, ErrAt: -1, Salt: rapid.Byte().Draw(rt, "salt"), Op: rapid.SampledFrom([]string{"read", "write"}).Draw(rt, "op")}
	c.Msize = rapid.SampledFrom(msizes).Draw(rt, "msize")
	c.IOUnit = rapid.SampledFrom([]uint32{0, 0, 1, 100, 512, 4096, 8192, 65536, 1 << 20, 1 << 31, 1<<32 - 1}).Draw(rt, "iounit")
	// the client's payload size, for choosing interesting lengths only (the
	// oracle does not depend on it)
	payload := int(c.Msize - lfs)
	if payload > 512 {
		payload -= payload % 512
	}
	k := rapid.IntRange(0, 5).Draw(rt, "k")
	switch rapid.IntRange(0, 5).Draw(rt, "lk") {
	case 0:
		c.Len = rapid.IntRange(0, 2).Draw(rt, "len")
	case 1:
		c.Len = k*payload - 1
	case 2:
		c.Len = k * payload
	case 3:
		c.Len = k*payload + 1
	default:
		c.Len = rapid.IntRange(0, 5*payload+7).Draw(rt, "len")
	}
	if c.Len < 0 {
		c.Len = 0
	}
	if c.Len > 6<<20 {
		c.Len = 6 << 20
	}
	c.FileSize = uint64(rapid.SampledFrom([]int{0, 1, payload - 1, payload, payload + 1, 3 * payload, 3*payload + 17, 200000}).Draw(rt, "fsize"))
	switch rapid.IntRange(0, 7).Draw(rt, "ok") {
	case 0, 1:
		c.Offset = 0
	case 2:
		c.Offset = uint64(rapid.IntRange(0, int(c.FileSize)).Draw(rt, "off"))
	case 3:
		if c.FileSize > 0 {
			c.Offset = c.FileSize - 1
		}
	case 4:
		c.Offset = c.FileSize + uint64(rapid.IntRange(0, 1).Draw(rt, "beyond"))
	case 5:
		c.Offset = rapid.SampledFrom([]uint64{1<<32 - 1, 1 << 32, 1<<32 + 1}).Draw(rt, "off32")
		if rapid.Bool().Draw(rt, "bigfile") {
			c.FileSize = c.Offset + uint64(c.Len/2) + 3
		}
	default:
		c.Offset = 1 << 62
		if rapid.Bool().Draw(rt, "bigfile") {
			c.FileSize = c.Offset + uint64(c.Len/2) + 3
		}
	}
	nchunks := 1
	if payload > 0 {
		nchunks = c.Len/payload + 1
	}
	switch rapid.IntRange(0, 5).Draw(rt, "faultk") {
	case 0:
		c.ShortAt = rapid.IntRange(0, nchunks).Draw(rt, "shortat")
		c.ShortN = rapid.IntRange(0, max(payload-1, 0)).Draw(rt, "shortn")
	case 1:
		c.ErrAt = rapid.IntRange(0, nchunks).Draw(rt, "errat")
		c.Errno = rapid.SampledFrom([]int{5, 28, 27, 122, 13}).Draw(rt, "errno")
	}
	return c
}

func init() {
	replayRegistrars = append(replayRegistrars, func() {
		registerReplay("C11/io", func(c ioCase) *fail { return runIOCase(c, nil) })
		registerReplay("C11/io-socket", func(c ioCase) *fail { return runIOCase(c, nil) })
		registerReplay("C11/concurrent-reads", runConcReadCase)
		registerReplay("C11/held-writes", runHeldWriteCase)
		registerReplay("C11/staticfs-reads", runStaticReadCase)
		registerReplay("C11/cut", func(c ioCutCase) *fail { _, f := runIOCutCase(c); return f })
	})
}

// concReadCase: two goroutines read two files through one client at the same
// time, after reads that ran into the end of a file; each ReadAt must fill its
// buffer with the bytes of its own file ("behaves as one operation on the
// remote file"), whatever the other one does meanwhile.
type concReadCase struct {
	EOFReads int    `json:"eof_reads"` // reads that reach the end of the file beforehand (the backend returns data together with io.EOF, or none)
	SizeA    int    `json:"size_a"`
	SizeB    int    `json:"size_b"`
	Msize    uint32 `json:"msize"`
	After    bool   `json:"hold_after"` // hold the first read after the backend has filled its buffer (else on entry)
	// SameFile: the reads issued meanwhile go through the SAME client File (other
	// offsets, the same length as the held read)
	SameFile bool `json:"same_file,omitempty"`
}

func runConcReadCase(c concReadCase) *fail {
	fs := memfs.New(memfs.Options{NativeWalkGetAttr: true, TailEOF: true})
	fa, _ := fs.Tree.Create(fs.Tree.Root, "a", 0o644, 0, 0)
	fb, _ := fs.Tree.Create(fs.Tree.Root, "b", 0o644, 0, 0)
	contentA, contentB := bytes.Repeat([]byte{0xA1, 0xA2, 0xA3}, 4000), bytes.Repeat([]byte{0xB4, 0xB5}, 6000)
	fa.WriteAt(contentA, 0)
	fb.WriteAt(contentB, 0)
	cl, closeFn, err := dialPipe(p9.NewServer(fs), p9.WithMessageSize(c.Msize))
	if err != nil {
		return failf("harness-dial", "HARNESS-ERROR %v", err)
	}
	defer closeFn()
	root, err := cl.Attach("")
	if err != nil {
		return failf("harness-attach", "HARNESS-ERROR %v", err)
	}
	defer root.Close()
	open := func(name string) (p9.File, int, *fail) {
		before := fs.Seq()
		_, f, err := root.Walk([]string{name})
		if err != nil {
			return nil, 0, failf("harness-walk", "HARNESS-ERROR %v", err)
		}
		if _, _, err := f.Open(p9.ReadOnly); err != nil {
			return nil, 0, failf("harness-open", "HARNESS-ERROR %v", err)
		}
		hid := 0
		for _, cl := range fs.LogSince(before) {
			if cl.Op == "Open" {
				hid = cl.Handle
			}
		}
		return f, hid, nil
	}
	a, hA, f := open("a")
	if f != nil {
		return f
	}
	defer a.Close()
	b, _, f := open("b")
	if f != nil {
		return f
	}
	defer b.Close()
	desc := fmt.Sprintf("%+v", c)
	for i := 0; i < c.EOFReads; i++ {
		buf := make([]byte, 300)
		off := len(contentA) - 100 - i
		if i%2 == 1 {
			off = len(contentA) + i // nothing to read at all
		}
		n, _ := a.ReadAt(buf, int64(off))
		if want := contentA[min(off, len(contentA)):]; !bytes.Equal(buf[:n], want[:min(len(want), n)]) {
			return failf("read-data-wrong:tail", "tail read at %d returned bytes that are not the file's (%s)", off, desc)
		}
	}
	gate := memfs.NewGate(func(cl *memfs.Call) bool { return cl.Op == "ReadAt" && cl.Handle == hA })
	gate.After = c.After
	fs.AddGate(gate)
	defer gate.Release()
	bufA := make([]byte, c.SizeA)
	type res struct {
		n   int
		err error
	}
	doneA := make(chan res, 1)
	go func() {
		n, err := a.ReadAt(bufA, 0)
		doneA <- res{n, err}
	}()
	select {
	case <-gate.Entered:
	case <-time.After(20 * time.Second):
		return failf("harness-gate", "HARNESS-ERROR the first read never reached the backend (%s)", desc)
	}
	var keptBufs [][]byte
	var keptWant [][]byte
	for k := 0; k < 3; k++ {
		if c.SameFile {
			off := 200 + k*10
			bufB := make([]byte, c.SizeA)
			n, err := a.ReadAt(bufB, int64(off))
			want := contentA[min(off, len(contentA)):min(off+c.SizeA, len(contentA))]
			if (err != nil && err != io.EOF) || !bytes.Equal(bufB[:n], want) {
				return failf("read-data-wrong:concurrent-same-file", "a ReadAt of file a (%d bytes at %d) issued through the same File while a ReadAt at 0 was in progress returned n=%d err=%v and bytes %x…, the file holds %x… (%s)", c.SizeA, off, n, err, bufB[:min(n, 12)], want[:min(len(want), 12)], desc)
			}
			keptBufs, keptWant = append(keptBufs, bufB[:n]), append(keptWant, want)
			continue
		}
		bufB := make([]byte, c.SizeB)
		n, err := b.ReadAt(bufB, int64(k*10))
		want := contentB[k*10 : min(k*10+c.SizeB, len(contentB))]
		if (err != nil && err != io.EOF) || !bytes.Equal(bufB[:n], want) {
			return failf("read-data-wrong:concurrent", "a ReadAt of file b (%d bytes at %d) issued while a ReadAt of file a was in progress returned n=%d err=%v and bytes %x…, the file holds %x… (%s)", c.SizeB, k*10, n, err, bufB[:min(n, 12)], want[:min(len(want), 12)], desc)
		}
	}
	fs.ClearGates()
	gate.Release()
	var ra res
	select {
	case ra = <-doneA:
	case <-time.After(20 * time.Second):
		return failf("read-hangs:concurrent", "the first ReadAt did not return (%s)", desc)
	}
	for k := range keptBufs {
		if !bytes.Equal(keptBufs[k], keptWant[k]) {
			return failf("read-data-wrong:buffer-changed-after-return", "the buffer of a ReadAt that had returned (same File, offset %d) was changed when the earlier ReadAt completed (%s)", 200+k*10, desc)
		}
	}
	want := contentA[:min(c.SizeA, len(contentA))]
	if (ra.err != nil && ra.err != io.EOF) || !bytes.Equal(bufA[:ra.n], want) {
		return failf("read-data-wrong:concurrent", "the ReadAt of file a (%d bytes) that was in progress while file b was read returned n=%d err=%v and bytes %x…, the file holds %x… (%s)", c.SizeA, ra.n, ra.err, bufA[:min(ra.n, 12)], want[:min(len(want), 12)], desc)
	}
	return nil
}

func TestC11(t *testing.T) {
	h := begin(t, "C11")
	defer h.Finish()
	env := h.Env
	rapidCases(h, "concurrent-reads", env.PerShard(env.Pick(400, 20000)), func(rt *rapid.T) concReadCase {
		return concReadCase{EOFReads: rapid.IntRange(0, 4).Draw(rt, "eof"), SizeA: rapid.SampledFrom([]int{1, 100, 3000, 5000, 12000}).Draw(rt, "sa"),
			SizeB: rapid.SampledFrom([]int{1, 100, 3000, 5000}).Draw(rt, "sb"), Msize: rapid.SampledFrom([]uint32{4096, 8192, 65536}).Draw(rt, "msize"),
			After: rapid.Bool().Draw(rt, "after"), SameFile: rapid.IntRange(0, 2).Draw(rt, "samefile") == 0}
	}, func(c concReadCase) *fail {
		h.Case(evid.HashJSON(c), c.EOFReads > 0, "concurrent-reads")
		return runConcReadCase(c)
	})
	// reads of the sample static file system, offsets beyond the end included
	rapidCases(h, "staticfs-reads", env.PerShard(env.Pick(1600, 60000)), func(rt *rapid.T) staticReadCase {
		c := staticReadCase{Size: rapid.SampledFrom([]int{0, 1, 16, 4000, 9000}).Draw(rt, "size"), Mounted: rapid.Bool().Draw(rt, "mounted"),
			Msize: rapid.SampledFrom([]uint32{4096, 8192, 65536}).Draw(rt, "msize"), Len: rapid.SampledFrom([]int{0, 1, 10, 4000, 5000, 20000}).Draw(rt, "len")}
		c.Off = rapid.SampledFrom([]uint64{0, 1, uint64(c.Size) / 2, uint64(max(c.Size-1, 0)), uint64(c.Size), uint64(c.Size) + 1, uint64(c.Size) + 4096, 1<<32 + 3, 1 << 62}).Draw(rt, "off")
		return c
	}, func(c staticReadCase) *fail {
		h.Case(evid.HashJSON(c), c.Off >= uint64(c.Size) && c.Len > 0, "staticfs-reads")
		if h.WantSample("staticfs-reads") {
			h.Sample("staticfs-reads", c)
		}
		return runStaticReadCase(c)
	})
	// small and large writes held inside the backend while other requests are
	// served: what the backend stores is what the caller passed (engine of C18)
	rapidCases(h, "held-writes", env.PerShard(env.Pick(600, 30000)), func(rt *rapid.T) heldWriteCase {
		c := heldWriteCase{Traffic: rapid.IntRange(1, 6).Draw(rt, "traffic"), Conns: rapid.IntRange(1, 2).Draw(rt, "conns")}
		for i := rapid.IntRange(1, 8).Draw(rt, "nheld"); i > 0; i-- {
			c.Sizes = append(c.Sizes, rapid.SampledFrom([]int{1, 2, 8, 16, 24, 40, 41, 48, 49, 57, 64, 100, 1000, 5000}).Draw(rt, "size"))
		}
		return c
	}, func(c heldWriteCase) *fail {
		h.Case(evid.HashJSON(c), len(c.Sizes) >= 2, "held-writes")
		return runHeldWriteCase(c)
	})
	// the connection dies inside a chunk (real sockets)
	{
		totals := map[string]int{}
		rapidCases(h, "cut", env.PerShard(env.Pick(480, 24000)), func(rt *rapid.T) ioCutCase {
			c := ioCutCase{Op: rapid.SampledFrom([]string{"read", "write"}).Draw(rt, "op"), Msize: rapid.SampledFrom([]uint32{4096, 8192, 65536}).Draw(rt, "msize"),
				Len: rapid.SampledFrom([]int{100, 4000, 9000, 20000, 70000}).Draw(rt, "len"), Off: uint64(rapid.SampledFrom([]int{0, 1, 5000, 123457}).Draw(rt, "off"))}
			key := fmt.Sprintf("%s/%d/%d", c.Op, c.Msize, c.Len)
			if _, ok := totals[key]; !ok {
				m := c
				m.CutAt = -1
				totals[key], _ = runIOCutCase(m)
			}
			c.CutAt = rapid.IntRange(1, max(totals[key]-1, 1)).Draw(rt, "cut")
			return c
		}, func(c ioCutCase) *fail {
			h.Case(evid.HashJSON(c), true, "cut:"+c.Op)
			if h.WantSample("cut") {
				h.Sample("cut", c)
			}
			_, f := runIOCutCase(c)
			return f
		})
	}
	// the same rule over a real socket pair (vectorised receive path on both
	// peers), frames up to 4 MiB through kernel buffers of 2-208 KiB
	rapidCases(h, "io-socket", env.PerShard(env.Pick(800, 40000)), genIOSockCase, func(c ioCase) *fail {
		st := &ioStats{}
		f := runIOCase(c, st)
		h.Case(evid.HashJSON(c), int(c.Msize) > c.Sock && c.Len > c.Sock, "io-socket:"+c.Op)
		if int(c.Msize) > c.Sock && c.Len > c.Sock && h.WantSample("io-socket") {
			h.Sample("io-socket", c)
		}
		return f
	})
	rapidCases(h, "io", env.PerShard(env.Pick(12000, 1000000)), genIOCase, func(c ioCase) *fail {
		st := &ioStats{}
		f := runIOCase(c, st)
		cls := "io:" + c.Op
		h.Case(evid.HashJSON(c), st.chunks >= 2, cls)
		if st.chunks >= 2 {
			h.Count("io:spanning>=2-chunks", 1)
		}
		if c.ShortAt >= 0 && c.ShortAt < st.chunks {
			h.Count("io:short-chunk-struck", 1)
		}
		if c.ErrAt >= 0 && c.ErrAt < st.chunks {
			h.Count("io:failing-chunk-struck", 1)
		}
		if c.Offset >= 1<<32 {
			h.Count("io:offset>=2^32", 1)
		}
		if st.chunks >= 2 && h.WantSample("io") {
			h.Sample("io", c)
		}
		return f
	})
	_ = bytes.Equal
	_ = memtree.TReg
}
