package checks

import (
	"fmt"
	"sync"
	"time"

	"p9verif/peers"
	"p9verif/refcodec"

	"github.com/hugelgupf/p9/p9"
)

// concVersionCase (C18): many connections of one process negotiate at the same
// time, each again and again with an msize and a version number of its own. The
// request objects come from the process-wide cache; every Rversion must answer
// the Tversion of its own connection (msize as asked, version min(N, 7)).
type concVersionCase struct {
	Conns  int `json:"conns"`
	Rounds int `json:"rounds"`
}

func runConcVersionCase(c concVersionCase) *fail {
	srv := p9.NewServer(nullAttacher{})
	var wg sync.WaitGroup
	var mu sync.Mutex
	var bad *fail
	start := make(chan struct{})
	for i := 0; i < c.Conns; i++ {
		wg.Add(1)
		go func(i int) {
			defer wg.Done()
			s := peers.Start(srv)
			defer s.Close(10 * time.Second)
			<-start
			for r := 0; r < c.Rounds; r++ {
				msize := uint32(1000 + i*977 + r*13)
				n := (i + r) % 10
				v := fmt.Sprintf("9P2000.L.Google.%d", n)
				rep, err := s.Version(msize, v)
				want := refVersionString(uint64(min(n, 7)))
				if err != nil || rep.Type != refcodec.Rversion || rep.U("msize") != uint64(msize) || rep.S("version") != want {
					mu.Lock()
					if bad == nil {
						bad = failf("carry-over:tversion-of-another-connection", "connection %d, round %d: Tversion(msize %d, %q) answered %v (%v), want msize %d version %q; %d connections negotiating at once", i, r, msize, v, rep, err, msize, want, c.Conns)
					}
					mu.Unlock()
					return
				}
			}
		}(i)
	}
	close(start)
	wg.Wait()
	return bad
}
