package checks

import (
	"fmt"
	"os"
	"strings"
	"testing"
	"time"

	"p9verif/evid"
	"p9verif/memfs"
	"p9verif/peers"
	"p9verif/refcodec"

	"pgregory.net/rapid"
)

// ---------------------------------------------------------------------------
// C14 — flush ordering

type flushCase struct {
	Native bool   `json:"native_walkgetattr"`
	Target string `json:"target"`  // read | write | walk3 | rename | create | getattr | mkdir | readdir
	HoldAt int    `json:"hold_at"` // which backend call of the target is held (1-based among its calls)
	// Events are executed in order: "F<k>:<of>" send flush k naming the target
	// ("t") or an earlier flush ("f<j>"); "R" release the held call; "U"
	// unrelated request (must be answered at once); "I" flush of an idle tag;
	// "O" flush of its own tag; "A" flush of an already answered tag.
	Events []string `json:"events"`
	// FlushTags: the tags carried by successive Tflush requests (0, NOTAG and
	// other corner values included); when exhausted, 60, 61, … are used
	FlushTags []uint16 `json:"flush_tags,omitempty"`
	// Reuse: the target's tag was used just before by a request whose reply has
	// reached the peer while the server goroutine that wrote it has not yet
	// returned from the transport Write (it finishes only once the target is
	// executing)
	Reuse bool `json:"reuse,omitempty"`
	// ReuseFlush: as Reuse, but the earlier request with that tag was a Tflush (of
	// an idle tag): a flush's own tag is free again as soon as its Rflush is out
	ReuseFlush bool `json:"reuse_flush,omitempty"`
}

const (
	tagTarget = 50
	tagFlush0 = 60
)

type flushStats struct {
	flushWhileInside bool
}

func runFlushCase(c flushCase, st *flushStats) *fail {
	p, f := newPipe(1, c.Native)
	if f != nil {
		return f
	}
	defer p.close()
	desc := func() string { return fmt.Sprintf("%+v", c) }
	// the target request works on files of its own so that its backend calls
	// can be attributed to it
	var target *refcodec.Msg
	switch c.Target {
	case "read":
		target = tRead(90, 0, 4)
	case "write":
		target = tWrite(90, 0, "zz")
	case "walk3":
		target = tWalk(0, 300, "P", "kdX", "wA")
	case "rename":
		target = tRenameat(91, "rA", 92, "renamed")
	case "create":
		target = tCreate(100, "created", 2, 0o644)
	case "mkdir":
		target = tMkdir(91, "made")
	case "readdir":
		if r, err := p.s.Call(withTag(tOpen(100, 0), 3)); err != nil || r.Type == refcodec.Rlerror {
			return failf("harness-setup", "HARNESS-ERROR open dir: %v %v", r, err)
		}
		target = tReaddir(100, 0, 4000)
	case "clunk": // the release of the fid's File is the request's backend call
		target = tClunk(100)
	case "remove": // UnlinkAt, then the release
		target = tRemove(90)
	case "walk-replace": // the walk, then the release of the File newfid was bound to
		target = tWalk(0, 100, "P", "kdB")
	case "walk-fail": // the third step fails: the Files of the first two are released
		target = tWalk(0, 300, "P", "kdX", "no-such-entry")
	case "rename-release": // see below: the rename itself performs the final release of a File
		target = tRenameat(91, "rA", 92, "renamed")
	default:
		target = tGetattr(100)
	}
	target.Tag = tagTarget
	// hold the HoldAt-th backend call made after the target is sent; nothing
	// else is in flight at that moment, so these calls are the target's
	base := p.fs.Seq()
	holdAt := c.HoldAt
	if holdAt < 1 {
		holdAt = 1
	}
	gate := memfs.NewGate(func(cl *memfs.Call) bool { return cl.Seq == base+holdAt })
	var held *memfs.Call
	var resumePaused func()
	waitStart := time.Now()
	if c.Reuse && c.Target != "rename-release" {
		// an earlier request with the target's tag: its reply (header and body: two
		// Writes) is delivered, the writing goroutine is paused inside the second
		nw, earlier := 2, tStatfs(0)
		if c.ReuseFlush {
			nw, earlier = 1, tFlush(0x7B7B) // an Rflush has no body: one Write
		}
		entered, resume := p.s.S2C.PauseAfterWriteAt(p.s.S2C.Writes() + nw)
		defer resume()
		p.s.Send(refcodec.Encode(withTag(earlier, tagTarget)))
		select {
		case <-entered:
		case <-time.After(20 * time.Second):
			return failf("harness-reuse", "HARNESS-ERROR the earlier reply was not written in %d Writes", nw)
		}
		if ok, f := p.waitFor(tagTarget, 1, 20*time.Second); f != nil || !ok {
			return failf("harness-reuse", "HARNESS-ERROR the earlier reply did not arrive (%v)", f)
		}
		p.frames = nil // the earlier reply is not part of the scenario
		base = p.fs.Seq()
		gate = memfs.NewGate(func(cl *memfs.Call) bool { return cl.Seq == base+holdAt })
		// the paused goroutine goes on as soon as the target is inside the backend
		resumePaused = resume
	}
	if c.Target == "rename-release" {
		// A third connection holds the only fid on the renamed entry. The rename
		// is first held inside that File's Renamed notification, the third
		// connection goes away (its fid is dropped without waiting for the rename
		// lock), and then the notification returns: the reference the rename took
		// is the last one and the rename handler itself closes the File. That
		// Close is the call held for the rest of the scenario.
		s3 := peers.Start(p.srv)
		defer s3.Close(10 * time.Second)
		if _, err := s3.Version(64<<10, "9P2000.L.Google.7"); err != nil {
			return failf("harness-version", "HARNESS-ERROR %v", err)
		}
		before := p.fs.Seq()
		for i, m := range []*refcodec.Msg{tAttach(0, nofid, ""), tWalk(0, 1, "P", "kdA", "rA")} {
			if r, err := s3.Call(withTag(m, uint16(1+i))); err != nil || r.Type == refcodec.Rlerror {
				return failf("harness-setup", "HARNESS-ERROR %s: %v %v", m, r, err)
			}
		}
		victim := 0
		for _, cl := range p.fs.LogSince(before) {
			if cl.New != 0 {
				victim = cl.New
			}
		}
		g1 := memfs.NewGate(func(cl *memfs.Call) bool { return cl.Op == "Renamed" && cl.Handle == victim })
		p.fs.AddGate(g1)
		defer g1.Release()
		gate = memfs.NewGate(func(cl *memfs.Call) bool { return cl.Op == "Close" && cl.Handle == victim })
		p.fs.AddGate(gate)
		defer gate.Release()
		p.s.Send(refcodec.Encode(target))
		select {
		case <-g1.Entered:
		case <-time.After(20 * time.Second):
			return failf("harness-gate", "HARNESS-ERROR the rename never reached Renamed on the victim")
		}
		s3.Close(300 * time.Millisecond)
		g1.Release()
		select {
		case held = <-gate.Entered:
		case <-time.After(20 * time.Second):
			return failf("harness-gate", "HARNESS-ERROR the victim's File was not closed after the notification returned (connection gone): %s", logString(p.fs.LogSince(before)))
		}
		goto events
	}
	p.fs.AddGate(gate)
	defer gate.Release()
	p.s.Send(refcodec.Encode(target))
	for held == nil {
		select {
		case held = <-gate.Entered:
		case <-time.After(2 * time.Millisecond):
			if resumePaused != nil && time.Since(waitStart) > 60*time.Millisecond {
				// the target does not get that far: its own reply needs the paused writer out of the way
				resumePaused()
				resumePaused = nil
			}
			if f := p.drain(time.Millisecond); f != nil {
				return f
			}
			if p.count(tagTarget) > 0 {
				// the target finished with fewer backend calls than HoldAt: hold nothing
				held = nil
				gate.Release()
				goto events
			}
			if time.Since(waitStart) > 20*time.Second {
				if c.Reuse {
					// the tag was free: the reply of the earlier request that carried it had arrived
					return failf("request-not-served:tag-reused-after-its-reply", "%s was sent on a tag whose earlier reply had been delivered (the goroutine that wrote it was still inside the transport Write) and was neither served nor answered within 20 s: %s", target, desc())
				}
				return failf("harness-gate", "HARNESS-ERROR target %s never reached backend call %d", target, holdAt)
			}
		}
	}
events:
	if resumePaused != nil {
		resumePaused()
		time.Sleep(5 * time.Millisecond)
	}
	released := held == nil
	flushTags := map[int]uint16{}
	nextTag := uint16(tagFlush0)
	usedTags := map[uint16]bool{tagTarget: true}
	takeTag := func() uint16 {
		for len(c.FlushTags) > 0 {
			t := c.FlushTags[0]
			c.FlushTags = c.FlushTags[1:]
			if !usedTags[t] && !(t >= 20 && t < 60) {
				usedTags[t] = true
				return t
			}
		}
		for usedTags[nextTag] {
			nextTag++
		}
		usedTags[nextTag] = true
		return nextTag
	}
	pendingFlushOfTarget := map[uint16]bool{} // flush tags whose Rflush must wait for the target
	seqAtRflush := -1
	checkEarly := func(when string) *fail {
		if f := p.drain(3 * time.Millisecond); f != nil {
			return f
		}
		for _, fr := range p.frames {
			if fr.Type == refcodec.Rflush && pendingFlushOfTarget[fr.Tag] && !released {
				return failf("rflush-before-target-finished:"+c.Target, "Rflush (tag %d) arrived %s while the flushed request (%s) was still held inside the backend at %s: %s", fr.Tag, when, target, held.String(), desc())
			}
		}
		return nil
	}
	nA := 0
	ended := false // the request stream of the connection has ended (events "H" / "X")
	for ei, ev := range c.Events {
		if ended && ev != "R" && ev != "U" {
			continue // nothing more can be sent on this connection
		}
		switch {
		case ev == "H" || ev == "X":
			// the server stops receiving while its sending direction stays usable:
			// the peer half-closes (H), or sends a size field above msize (X).
			// Flushes that are waiting must go on waiting for their request.
			if ev == "H" {
				p.s.C2S.CloseWrite()
			} else {
				bad := refcodec.Encode(withTag(tStatfs(0), 0x7e7e))
				bad[0], bad[1], bad[2], bad[3] = 0xff, 0xff, 0xff, 0x7f
				p.s.Send(bad)
			}
			ended = true
			time.Sleep(15 * time.Millisecond)
			if f := checkEarly("after the request stream of the connection had ended"); f != nil {
				return f
			}
		case ev == "R":
			if !released {
				if f := checkEarly("before the release"); f != nil {
					return f
				}
				released = true
				gate.Release()
			}
		case ev == "M":
			// many other requests on the same connection (more than 2^15, and in the
			// thorough tier more than 2^16) while the target is in flight
			if ended {
				continue
			}
			total := 34000
			if os.Getenv("VERIF_TIER") == "thorough" {
				total = 70000
			}
			for sent := 0; sent < total; {
				base := len(p.frames)
				n := min(500, total-sent)
				for j := 0; j < n; j++ {
					p.s.Send(refcodec.Encode(withTag(tClunk(7777), uint16(0x3000+j))))
				}
				for dl := time.Now().Add(30 * time.Second); len(p.frames) < base+n; {
					if f := p.drain(2 * time.Millisecond); f != nil {
						return f
					}
					if time.Now().After(dl) {
						return failf("unrelated-request-delayed", "filler requests were not all answered within 30 s during the flush scenario: %s", desc())
					}
				}
				sent += n
			}
			kept := p.frames[:0:0] // (the fillers' replies are of no further interest)
			for _, fr := range p.frames {
				if fr.Tag < 0x3000 || fr.Tag >= 0x3000+500 {
					kept = append(kept, fr)
				}
			}
			p.frames = kept
		case ev == "V":
			// a second Tversion in mid-session (same parameters) while the target is in flight
			if ended {
				continue
			}
			p.s.Send(refcodec.Encode(refcodec.New(refcodec.Tversion, uint16(0x300+ei), "msize", 64<<10, "version", "9P2000.L.Google.7")))
			if ok, f := p.waitFor(uint16(0x300+ei), 1, 20*time.Second); f != nil || !ok {
				if f != nil {
					return f
				}
				return failf("unrelated-request-delayed", "a Tversion in mid-session was not answered within 20 s during the flush scenario: %s", desc())
			}
		case ev == "D":
			// a frame that re-uses the target's tag while the target is in flight (what a
			// faulty client does); whatever the server makes of it, the flush rules hold
			if released {
				continue // the tag is free again: that would be an ordinary request
			}
			p.s.Send(refcodec.Encode(withTag(tStatfs(100), tagTarget)))
			time.Sleep(20 * time.Millisecond)
		case ev == "U":
			// statfs takes no path lock, so it is unordered even with a held rename
			r, err := p.s2.Call(withTag(tStatfs(100), uint16(20+ei)))
			if err != nil || r.Type != refcodec.Rstatfs {
				return failf("unrelated-request-delayed", "an unrelated request on another connection got %v / %v during the flush scenario: %s", r, err, desc())
			}
		case ev == "I" || ev == "O" || ev == "A":
			tag := takeTag()
			old := uint64(0x7B7B)
			if ev == "O" {
				old = uint64(tag)
			}
			if ev == "A" {
				// a tag that was used and answered on this connection
				nA++
				atag := uint16(32 + nA)
				p.s.Send(refcodec.Encode(withTag(tStatfs(0), atag)))
				if ok, f := p.waitFor(atag, 1, 20*time.Second); f != nil || !ok {
					if f != nil {
						return f
					}
					return failf("unrelated-request-delayed", "a statfs on the same connection was not answered within 20 s during the flush scenario: %s", desc())
				}
				old = uint64(atag)
			}
			p.s.Send(refcodec.Encode(withTag(tFlush(old), tag)))
			ok, f := p.waitFor(tag, 1, 20*time.Second)
			if f != nil {
				return f
			}
			if !ok {
				return failf("flush-not-answered-at-once:"+ev, "Tflush of %s tag (oldtag %d) was not answered within 20 s although nothing it names is executing: %s", map[string]string{"I": "an idle", "O": "its own", "A": "an answered"}[ev], old, desc())
			}
		case len(ev) > 1 && ev[0] == 'F':
			var k int
			var of string
			fmt.Sscanf(ev, "F%d:%s", &k, &of)
			tag := takeTag()
			flushTags[k] = tag
			old := uint16(tagTarget)
			if of != "t" {
				var j int
				fmt.Sscanf(of, "f%d", &j)
				if t, ok := flushTags[j]; ok {
					old = t
				}
			}
			// a flush of the target, or of a flush that itself waits for the target, must wait
			if !released && (old == tagTarget || pendingFlushOfTarget[old]) {
				pendingFlushOfTarget[tag] = true
				if st != nil {
					st.flushWhileInside = true
				}
			}
			p.s.Send(refcodec.Encode(withTag(tFlush(uint64(old)), tag)))
			p.s.C2S.WaitConsumed(p.s.C2S.Written(), 5*time.Second)
			if f := checkEarly("after the flush was delivered"); f != nil {
				return f
			}
		}
	}
	if !released {
		if f := checkEarly("before the release"); f != nil {
			return f
		}
		// give a wrongly early Rflush a little more time to show up
		time.Sleep(5 * time.Millisecond)
		if f := checkEarly("before the release"); f != nil {
			return f
		}
		released = true
		gate.Release()
	}
	// everything must be answered exactly once: the target and every flush
	if ok, f := p.waitFor(tagTarget, 1, 20*time.Second); f != nil || !ok {
		if f != nil {
			return f
		}
		return failf("flushed-request-lost-its-reply:"+c.Target, "the flushed request %s got no reply of its own: %s", target, desc())
	}
	for k, tag := range flushTags {
		ok, f := p.waitFor(tag, 1, 20*time.Second)
		if f != nil {
			return f
		}
		if !ok {
			return failf("flush-not-answered", "Tflush #%d (tag %d) was never answered: %s", k, tag, desc())
		}
	}
	// no backend call on behalf of the target starts after an Rflush for it was received
	for i, fr := range p.frames {
		if fr.Type == refcodec.Rflush && pendingFlushOfTarget[fr.Tag] && seqAtRflush < 0 {
			_ = i
		}
	}
	if f := p.close(); f != nil {
		return f
	}
	n := 0
	for _, fr := range p.frames {
		if fr.Tag == tagTarget {
			n++
			if fr.Type != target.Type+1 && fr.Type != refcodec.Rlerror {
				return failf("flushed-request-reply-type", "the flushed request %s was answered %s: %s", target, fr, desc())
			}
			if fr.Type == refcodec.Rlerror && c.Target == "walk-fail" && fr.U("ecode") == 2 {
				continue // its own, expected outcome
			}
			if fr.Type == refcodec.Rlerror {
				return failf("flushed-request-cancelled:"+c.Target, "the flushed request %s was answered %s instead of completing: %s", target, fr, desc())
			}
		}
	}
	if n != 1 {
		return failf("flushed-request-reply-count", "the flushed request %s got %d replies: %s", target, n, desc())
	}
	for _, tag := range flushTags {
		if p.count(tag) != 1 {
			return failf("flush-reply-count", "Tflush tag %d got %d replies: %s", tag, p.count(tag), desc())
		}
	}
	return nil
}

// flushRoundsCase: several rounds on ONE connection; in each round 1-3 requests
// are held inside the backend, each is flushed (the flush really waits), then
// they are released. Whatever the server recycles between rounds (tags, wait
// structures), no Rflush may arrive while its request is still held.
type flushRoundsCase struct {
	Native bool  `json:"native_walkgetattr"`
	Rounds []int `json:"rounds"`  // number of simultaneously held requests per round (1..3)
	NoWait []int `json:"no_wait"` // rounds (indices) whose requests are NOT flushed
}

func runFlushRoundsCase(c flushRoundsCase) *fail {
	p, f := newPipe(3, c.Native)
	if f != nil {
		return f
	}
	defer p.close()
	desc := fmt.Sprintf("%+v", c)
	skip := map[int]bool{}
	for _, r := range c.NoWait {
		skip[r] = true
	}
	tag := uint16(100)
	for ri, k := range c.Rounds {
		if k < 1 {
			k = 1
		}
		if k > 3 {
			k = 3
		}
		type heldReq struct {
			gate      *memfs.Gate
			tag, ftag uint16
			flushed   bool
		}
		var hs []*heldReq
		for i := 0; i < k; i++ {
			hh := p.handles[uint64(100+i)]
			g := memfs.NewGate(func(cl *memfs.Call) bool { return cl.Handle == hh && cl.Op == "GetAttr" })
			p.fs.AddGate(g)
			tag += 2
			h := &heldReq{gate: g, tag: tag, ftag: tag + 1}
			hs = append(hs, h)
			p.s.Send(refcodec.Encode(withTag(tGetattr(uint64(100+i)), h.tag)))
			select {
			case <-g.Entered:
			case <-time.After(20 * time.Second):
				return failf("request-not-served:gated", "round %d: request %d never reached the backend (%s)", ri, i, desc)
			}
		}
		if !skip[ri] {
			for _, h := range hs {
				p.s.Send(refcodec.Encode(withTag(tFlush(uint64(h.tag)), h.ftag)))
				h.flushed = true
			}
			p.s.C2S.WaitConsumed(p.s.C2S.Written(), 5*time.Second)
			time.Sleep(4 * time.Millisecond)
			if f := p.drain(3 * time.Millisecond); f != nil {
				return f
			}
			for _, fr := range p.frames {
				for _, h := range hs {
					if fr.Type == refcodec.Rflush && fr.Tag == h.ftag {
						return failf("rflush-before-target-finished:round", "round %d of a connection: Rflush (tag %d) arrived while the flushed Tgetattr (tag %d) was still held inside the backend; %d requests were held in this round (%s)", ri, h.ftag, h.tag, k, desc)
					}
				}
			}
		}
		for _, h := range hs {
			h.gate.Release()
		}
		for _, h := range hs {
			if ok, f := p.waitFor(h.tag, 1, 20*time.Second); f != nil || !ok {
				if f != nil {
					return f
				}
				return failf("flushed-request-lost-its-reply:round", "round %d: the Tgetattr with tag %d got no reply (%s)", ri, h.tag, desc)
			}
			if h.flushed {
				if ok, f := p.waitFor(h.ftag, 1, 20*time.Second); f != nil || !ok {
					if f != nil {
						return f
					}
					return failf("flush-not-answered", "round %d: Tflush tag %d was never answered (%s)", ri, h.ftag, desc)
				}
			}
		}
		p.fs.ClearGates()
	}
	return nil
}

var flushTargets = []string{"read", "write", "walk3", "rename", "create", "getattr", "mkdir", "readdir", "clunk", "remove", "walk-replace", "walk-fail", "rename-release"}

func genFlushCase(rt *rapid.T) flushCase {
	c := flushCase{Native: rapid.Bool().Draw(rt, "native"), Target: rapid.SampledFrom(flushTargets).Draw(rt, "target"), HoldAt: rapid.IntRange(1, 5).Draw(rt, "hold")}
	for i := rapid.IntRange(0, 3).Draw(rt, "nft"); i > 0; i-- {
		c.FlushTags = append(c.FlushTags, rapid.SampledFrom([]uint16{0, 0xffff, 1, 2, 0xfffe, 0x8000, 70}).Draw(rt, "ftag"))
	}
	c.Reuse = rapid.IntRange(0, 3).Draw(rt, "reuse") == 0
	c.ReuseFlush = c.Reuse && rapid.Bool().Draw(rt, "reuseflush")
	n := rapid.IntRange(1, 8).Draw(rt, "nev")
	nf := 0
	rel := false
	for i := 0; i < n; i++ {
		switch rapid.IntRange(0, 7).Draw(rt, "ev") {
		case 0, 1, 2:
			nf++
			of := "t"
			if nf > 1 && rapid.Bool().Draw(rt, "chain") {
				of = fmt.Sprintf("f%d", rapid.IntRange(1, nf-1).Draw(rt, "of"))
			}
			c.Events = append(c.Events, fmt.Sprintf("F%d:%s", nf, of))
		case 3:
			if !rel {
				c.Events = append(c.Events, "R")
				rel = true
			}
		case 4:
			if rapid.IntRange(0, 2).Draw(rt, "endk") == 0 {
				c.Events = append(c.Events, rapid.SampledFrom([]string{"H", "X"}).Draw(rt, "end"))
			} else {
				c.Events = append(c.Events, "U")
			}
		case 5:
			c.Events = append(c.Events, "I")
		case 6:
			c.Events = append(c.Events, "O")
		default:
			if !rel && rapid.IntRange(0, 2).Draw(rt, "dup") == 0 {
				c.Events = append(c.Events, rapid.SampledFrom([]string{"D", "V"}).Draw(rt, "dv"))
			} else {
				c.Events = append(c.Events, "A")
			}
		}
	}
	return c
}

func init() {
	replayRegistrars = append(replayRegistrars, func() {
		registerReplay("C14/rounds", runFlushRoundsCase)
		registerReplay("C14/after-rejected-frame", runRejectedFlushCase)
		registerReplay("C14/schedules", func(c flushCase) *fail { return runFlushCase(c, nil) })
		registerReplay("C14/enumerated", func(c flushCase) *fail { return runFlushCase(c, nil) })
	})
}

func TestC14(t *testing.T) {
	h := begin(t, "C14")
	defer h.Finish()
	env := h.Env
	// a flush that arrives after tens of thousands of other requests still waits
	{
		many := []flushCase{}
		for _, tgt := range []string{"read", "getattr", "walk3"} {
			for _, evs := range [][]string{{"M", "F1:t", "R"}, {"F1:t", "M", "F2:t", "R"}} {
				many = append(many, flushCase{Native: len(many)%2 == 0, Target: tgt, HoldAt: 1, Events: evs})
			}
		}
		for i, c := range many {
			if i%env.NShards != env.Shard {
				continue
			}
			st := &flushStats{}
			f := runFlushCase(c, st)
			h.Case(evid.HashJSON(c), true, "flush-after-many-requests")
			if f != nil && strings.HasPrefix(f.Sig, "harness-") {
				t.Errorf("HARNESS-ERROR %s", f.Msg)
				continue
			}
			if h.report("enumerated", f, c) {
				return
			}
		}
	}
	// the tag of a frame the receiver rejected is idle
	rapidCases(h, "after-rejected-frame", env.PerShard(env.Pick(1600, 60000)), func(rt *rapid.T) rejectedFlushCase {
		var c rejectedFlushCase
		for i := rapid.IntRange(1, 4).Draw(rt, "n"); i > 0; i-- {
			c.Frames = append(c.Frames, rejectedFrame{
				Kind: rapid.SampledFrom([]string{"short", "short", "overrun", "unknown-type", "valid"}).Draw(rt, "kind"),
				Type: rapid.SampledFrom([]uint8{refcodec.Twrite, refcodec.Tread, refcodec.Twalk, refcodec.Tgetattr, refcodec.Tsetattr, refcodec.Tattach, refcodec.Tlopen}).Draw(rt, "type"),
				Tag:  rapid.SampledFrom([]uint16{0, 1, 7, 0x4001, 0xfffe, refcodec.NOTAG}).Draw(rt, "tag"),
				Then: rapid.SampledFrom([]string{"flush", "reuse", "flush-reuse", "reuse-flush", "none"}).Draw(rt, "then")})
		}
		return c
	}, func(c rejectedFlushCase) *fail {
		h.Case(evid.HashJSON(c), c.Frames[0].Kind != "valid", "after-rejected-frame")
		if h.WantSample("after-rejected-frame") {
			h.Sample("after-rejected-frame", c)
		}
		return runRejectedFlushCase(c)
	})
	// enumerated: every target x hold position x every order of {F1, F2 (chained or not), R, U}
	if env.Shard == 0 {
		evsets := [][]string{
			{"D", "F1:t", "R"}, {"F1:t", "D", "R"}, {"F1:t", "D", "F2:t", "R"},
			{"V", "F1:t", "R"}, {"F1:t", "V", "R"}, {"F1:t", "V", "F2:t", "R"},
			{"F1:t", "R"}, {"F1:t", "U", "R"}, {"F1:t", "F2:t", "R"}, {"F1:t", "F2:f1", "R"}, {"F1:t", "F2:f1", "F3:f2", "R"},
			{"F1:t", "O", "I", "A", "R"}, {"F1:t", "R", "F2:t"}, {"R", "F1:t"}, {"O"}, {"I"}, {"A"}, {"F1:t"},
			{"F1:t", "H", "R"}, {"F1:t", "X", "R"}, {"F1:t", "F2:f1", "H", "U", "R"},
		}
		for _, tg := range flushTargets {
			for hold := 1; hold <= 3; hold++ {
				for _, evs := range evsets {
					idx := make([]int, len(evs))
					for i := range idx {
						idx[i] = i
					}
					perms := [][]int{idx}
					if len(evs) <= env.Pick(3, 4) {
						perms = permutations(idx)
					}
					for _, perm := range perms {
						c := flushCase{Native: hold%2 == 0, Target: tg, HoldAt: hold, Reuse: (hold+len(evs))%3 == 0}
						// corner values for the flushes' own tags, varied deterministically
						c.FlushTags = [][]uint16{{0, 0xffff}, nil, {0xffff, 0}, {1, 0}}[(hold+len(evs)+len(perm))%4]
						for _, i := range perm {
							c.Events = append(c.Events, evs[i])
						}
						// a chained flush must come after the flush it names
						if !validFlushOrder(c.Events) {
							continue
						}
						st := &flushStats{}
						f := runFlushCase(c, st)
						h.Case(evid.HashJSON(c), st.flushWhileInside, "enumerated:"+tg)
						if st.flushWhileInside && h.WantSample("enumerated") {
							h.Sample("enumerated", c)
						}
						if h.report("enumerated", f, c) {
							return
						}
					}
				}
			}
		}
		h.Exhaustive(fmt.Sprintf("%d flushed request types (incl. requests whose backend call is the release of a File) x 3 hold positions x event sets (every order for the small sets)", len(flushTargets)))
	}
	rapidCases(h, "rounds", env.PerShard(env.Pick(240, 12000)), func(rt *rapid.T) flushRoundsCase {
		c := flushRoundsCase{Native: rapid.Bool().Draw(rt, "native")}
		n := rapid.IntRange(2, 5).Draw(rt, "rounds")
		for i := 0; i < n; i++ {
			c.Rounds = append(c.Rounds, rapid.IntRange(1, 3).Draw(rt, "k"))
			if rapid.IntRange(0, 4).Draw(rt, "nowait") == 0 {
				c.NoWait = append(c.NoWait, i)
			}
		}
		return c
	}, func(c flushRoundsCase) *fail {
		h.Case(evid.HashJSON(c), len(c.Rounds) >= 2, "rounds")
		return runFlushRoundsCase(c)
	})
	rapidCases(h, "schedules", env.PerShard(env.Pick(1200, 120000)), genFlushCase, func(c flushCase) *fail {
		st := &flushStats{}
		f := runFlushCase(c, st)
		h.Case(evid.HashJSON(c), st.flushWhileInside, "schedules:"+c.Target)
		return f
	})
}

func validFlushOrder(evs []string) bool {
	seen := map[int]bool{}
	for _, ev := range evs {
		if len(ev) > 1 && ev[0] == 'F' {
			var k int
			var of string
			fmt.Sscanf(ev, "F%d:%s", &k, &of)
			if of != "t" {
				var j int
				fmt.Sscanf(of, "f%d", &j)
				if !seen[j] {
					return false
				}
			}
			seen[k] = true
		}
	}
	return true
}
