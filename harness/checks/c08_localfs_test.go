package checks

import (
	"fmt"
	"os"
	"path/filepath"
	"sort"
	"strings"

	"github.com/hugelgupf/p9/fsimpl/localfs"
	"github.com/hugelgupf/p9/p9"
)

// C08 with the path-based sample backend (localfs): whatever is renamed, a
// fid keeps denoting the file object it was bound to, also when it is open.
// The oracle is the directory tree on disk: every object carries a unique
// size, so "which object did the operation reach" can be read off os.Lstat.

type lfsOp struct {
	Kind string `json:"kind"` // walk | open | create | mkdir | renameat | truncate | getattr | walkchild | listdir
	Fid  int    `json:"fid"`  // index into the fids bound so far
	Fid2 int    `json:"fid2"`
	Name string `json:"name"`
	Nam2 string `json:"name2"`
	Path string `json:"path"` // walk: slash-separated path from the root
}

type lfsCase struct {
	Ops []lfsOp `json:"ops"`
}

type lfsNode struct {
	id     int
	dir    bool
	parent *lfsNode
	name   string
	gone   bool
	kids   map[string]*lfsNode
}

func (n *lfsNode) path() string {
	if n.parent == nil {
		return ""
	}
	return filepath.Join(n.parent.path(), n.name)
}

func (n *lfsNode) deleted() bool {
	for x := n; x != nil; x = x.parent {
		if x.gone {
			return true
		}
	}
	return false
}

func runLfsCase(c lfsCase) *fail {
	root, err := os.MkdirTemp("", "p9verif-c08-")
	if err != nil {
		return failf("harness-tmp", "HARNESS-ERROR %v", err)
	}
	defer os.RemoveAll(root)
	nextID := 0
	sizes := 10 // every object gets a size of its own (files only)
	mk := func(parent *lfsNode, name string, dir bool) *lfsNode {
		nextID++
		n := &lfsNode{id: nextID, dir: dir, parent: parent, name: name, kids: map[string]*lfsNode{}}
		if parent != nil {
			parent.kids[name] = n
		}
		return n
	}
	top := mk(nil, "", true)
	newSize := func() int64 { sizes += 7; return int64(sizes) }
	fileSize := map[int]int64{}
	// initial tree: a/{f,g,b/{h}}, d/{k}
	for _, p := range []string{"a/", "a/f", "a/g", "a/b/", "a/b/h", "d/", "d/k"} {
		dir := strings.HasSuffix(p, "/")
		parts := strings.Split(strings.TrimSuffix(p, "/"), "/")
		cur := top
		for _, q := range parts[:len(parts)-1] {
			cur = cur.kids[q]
		}
		n := mk(cur, parts[len(parts)-1], dir)
		full := filepath.Join(root, n.path())
		if dir {
			err = os.Mkdir(full, 0o755)
		} else {
			fileSize[n.id] = newSize()
			err = os.WriteFile(full, make([]byte, fileSize[n.id]), 0o644)
		}
		if err != nil {
			return failf("harness-tmp", "HARNESS-ERROR %v", err)
		}
	}
	cl, closeFn, err := dialPipe(p9.NewServer(localfs.Attacher(root)))
	if err != nil {
		return failf("harness-dial", "HARNESS-ERROR %v", err)
	}
	defer closeFn()
	rf, err := cl.Attach("")
	if err != nil {
		return failf("harness-attach", "HARNESS-ERROR %v", err)
	}
	type bound struct {
		f    p9.File
		n    *lfsNode
		open bool
	}
	fids := []*bound{{f: rf, n: top}}
	defer func() {
		for _, b := range fids {
			b.f.Close()
		}
	}()
	var hist []string
	pick := func(i int) *bound { return fids[((i%len(fids))+len(fids))%len(fids)] }
	// a name that does not exist in the directory stands for "one of its entries"
	kidName := func(n *lfsNode, s string, salt int) string {
		if k := n.kids[s]; k != nil && !k.gone {
			return s
		}
		var live []string
		for k, v := range n.kids {
			if !v.gone {
				live = append(live, k)
			}
		}
		if len(live) == 0 {
			return s
		}
		sort.Strings(live)
		return live[(salt+len(s)+int(s[0]))%len(live)]
	}
	for step, op := range c.Ops {
		what := fmt.Sprintf("step %d %+v", step, op)
		hist = append(hist, fmt.Sprintf("%+v", op))
		bad := func(sig, format string, a ...any) *fail {
			return failf(sig, "%s: %s; history: %s", what, fmt.Sprintf(format, a...), strings.Join(hist, " | "))
		}
		switch op.Kind {
		case "walk":
			cur := top
			var names []string
			for _, q := range strings.Split(op.Path, "/") {
				if q == "" || cur == nil || cur.kids[q] == nil || cur.kids[q].gone {
					cur = nil
					break
				}
				cur = cur.kids[q]
				names = append(names, q)
			}
			if cur == nil || len(names) == 0 {
				continue
			}
			_, f, err := rf.Walk(names)
			if err != nil {
				return bad("localfs-walk-failed", "Walk(%v) to an existing entry: %v", names, err)
			}
			fids = append(fids, &bound{f: f, n: cur})
		case "open":
			b := pick(op.Fid)
			if b.open || b.n.deleted() || b == fids[0] {
				continue
			}
			if _, _, err := b.f.Open(p9.ReadOnly); err != nil {
				return bad("localfs-open-failed", "Open of %q: %v", b.n.path(), err)
			}
			b.open = true
		case "create", "mkdir":
			b := pick(op.Fid)
			if !b.n.dir || b.open || b.n.deleted() || b.n.kids[op.Name] != nil && !b.n.kids[op.Name].gone {
				continue
			}
			if op.Kind == "mkdir" {
				if _, err := b.f.Mkdir(op.Name, 0o755, p9.NoUID, p9.NoGID); err != nil {
					return bad("localfs-mkdir-failed", "Mkdir(%q) in %q: %v", op.Name, b.n.path(), err)
				}
				mk(b.n, op.Name, true)
				continue
			}
			_, d, err := b.f.Walk(nil)
			if err != nil {
				return bad("localfs-clone-failed", "clone of %q: %v", b.n.path(), err)
			}
			if _, _, _, err := d.Create(op.Name, p9.ReadWrite, 0o644, p9.NoUID, p9.NoGID); err != nil {
				d.Close()
				return bad("localfs-create-failed", "Create(%q) in %q: %v", op.Name, b.n.path(), err)
			}
			n := mk(b.n, op.Name, false)
			fileSize[n.id] = 0
			fids = append(fids, &bound{f: d, n: n, open: true}) // the fid is now the open new file
		case "renameat":
			from, to := pick(op.Fid), pick(op.Fid2)
			op.Name = kidName(from.n, op.Name, step)
			src := from.n.kids[op.Name]
			if !from.n.dir || !to.n.dir || from.open || to.open || from.n.deleted() || to.n.deleted() || src == nil || src.gone {
				continue
			}
			if dst := to.n.kids[op.Nam2]; dst != nil && !dst.gone {
				continue // no overwriting here: fencing has its own checks
			}
			for x := to.n; x != nil; x = x.parent {
				if x == src {
					src = nil // into its own subtree
					break
				}
			}
			if src == nil {
				continue
			}
			if err := from.f.RenameAt(op.Name, to.f, op.Nam2); err != nil {
				return bad("localfs-rename-failed", "RenameAt(%q/%q -> %q/%q): %v", from.n.path(), op.Name, to.n.path(), op.Nam2, err)
			}
			delete(from.n.kids, op.Name)
			src.parent, src.name = to.n, op.Nam2
			to.n.kids[op.Nam2] = src
		case "truncate":
			b := pick(op.Fid)
			if b.n.dir || b.n.deleted() {
				continue
			}
			sz := newSize()
			if err := b.f.SetAttr(p9.SetAttrMask{Size: true}, p9.SetAttr{Size: uint64(sz)}); err != nil {
				return bad("localfs-setattr-failed", "SetAttr(size) through a fid on %q: %v", b.n.path(), err)
			}
			fileSize[b.n.id] = sz
		case "getattr":
			b := pick(op.Fid)
			if b.n.dir || b.n.deleted() {
				continue
			}
			_, _, attr, err := b.f.GetAttr(p9.AttrMaskAll)
			if err != nil {
				return bad("localfs-getattr-failed", "GetAttr through a fid on %q (open: %v): %v", b.n.path(), b.open, err)
			}
			if int64(attr.Size) != fileSize[b.n.id] {
				return bad("localfs-fid-denotes-another-file", "GetAttr through a fid bound to the object now at %q reports size %d, that object has size %d", b.n.path(), attr.Size, fileSize[b.n.id])
			}
		case "walkchild":
			b := pick(op.Fid)
			op.Name = kidName(b.n, op.Name, step)
			kid := b.n.kids[op.Name]
			if !b.n.dir || b.n.deleted() || b.open || kid == nil || kid.gone {
				continue
			}
			_, f, err := b.f.Walk([]string{op.Name})
			if err != nil {
				return bad("localfs-walk-from-fid-failed", "Walk(%q) from a fid on %q: %v", op.Name, b.n.path(), err)
			}
			fids = append(fids, &bound{f: f, n: kid})
		}
		// after every step: what is on disk is what the model says (sizes identify the objects)
		var walkModel func(n *lfsNode) *fail
		walkModel = func(n *lfsNode) *fail {
			names := make([]string, 0, len(n.kids))
			for k := range n.kids {
				names = append(names, k)
			}
			sort.Strings(names)
			for _, k := range names {
				kid := n.kids[k]
				if kid.gone {
					continue
				}
				st, err := os.Lstat(filepath.Join(root, kid.path()))
				if err != nil {
					return bad("localfs-tree-differs", "%q should exist: %v", kid.path(), err)
				}
				if !kid.dir && st.Size() != fileSize[kid.id] {
					return bad("localfs-operation-reached-another-file", "%q has size %d on disk, the operations issued so far leave it at %d: an operation through a fid acted on another path", kid.path(), st.Size(), fileSize[kid.id])
				}
				if kid.dir {
					if f := walkModel(kid); f != nil {
						return f
					}
				}
			}
			return nil
		}
		if f := walkModel(top); f != nil {
			return f
		}
	}
	return nil
}
