package checks

import (
	"bytes"
	"fmt"
	"runtime"
	"sync"
	"time"

	"p9verif/peers"
	"p9verif/refcodec"
	"p9verif/vconn"

	"github.com/hugelgupf/p9/p9"
)

// sockMuxCase (C10): the client sits on a real socket (vectorised receive
// path). Several goroutines have reads and getattrs in flight on Files of their
// own; the fake server answers in a chosen order and delivers every reply in the
// pieces the case dictates (each piece is taken by the client before the next is
// written), cutting inside headers, counts and payloads. Every call returns its
// own data, none fails on the healthy connection, and later calls work.
type sockMuxCase struct {
	Sizes  []int `json:"sizes"`  // payload size of the read of caller i (0: a getattr instead)
	Order  []int `json:"order"`  // reply order (indices; missing ones last)
	Cuts   []int `json:"cuts"`   // offsets into the concatenated reply stream at which delivery is cut
	After  int   `json:"after"`  // calls made afterwards
	Joined bool  `json:"joined"` // the replies form one stream that is cut (else each reply is cut on its own)
}

func sockMuxByte(fid uint64, off int) byte { return byte(fid*31+uint64(off)*7) | 1 }

func runSockMuxCase(c sockMuxCase) *fail {
	sock, err := vconn.NewSock()
	if err != nil {
		return failf("harness-sock", "HARNESS-ERROR %v", err)
	}
	defer sock.Close()
	sock.SetReadDeadline(time.Now().Add(60 * time.Second))
	desc := fmt.Sprintf("%+v", c)
	type pend struct {
		req *refcodec.Msg
	}
	var mu, dmu sync.Mutex // dmu: one delivery at a time
	var pending []*refcodec.Msg
	arrived := make(chan struct{}, 64)
	srvErr := make(chan error, 1)
	hold := true // while set, reads and getattrs are collected instead of answered
	replyTo := func(req *refcodec.Msg) []byte {
		if req.Type == refcodec.Tread {
			n := int(req.U("count"))
			d := make([]byte, n)
			for i := range d {
				d[i] = sockMuxByte(req.U("fid"), int(req.U("offset"))+i)
			}
			return refcodec.Encode(refcodec.New(refcodec.Rread, req.Tag, "data", d))
		}
		r := peers.GenericReply(req, 0)
		if req.Type == refcodec.Tgetattr {
			a := refcodec.Attr{}
			a[0] = 0o100644
			a[5] = 1000 + req.U("fid") // size: tells the replies apart
			r.F["attr"] = a
			r.F["valid"] = uint64(0x3fff)
		}
		return refcodec.Encode(r)
	}
	go func() {
		for {
			raw, err := peers.ReadFrame(sock)
			if err != nil {
				srvErr <- err
				return
			}
			req, derr := refcodec.DecodeStrict(raw)
			if derr != nil {
				srvErr <- derr
				return
			}
			mu.Lock()
			h := hold && (req.Type == refcodec.Tread || req.Type == refcodec.Tgetattr)
			if h {
				pending = append(pending, req)
			}
			mu.Unlock()
			if h {
				arrived <- struct{}{}
				continue
			}
			dmu.Lock()
			err = sock.Deliver(replyTo(req), 10*time.Second)
			dmu.Unlock()
			if err != nil {
				srvErr <- err
				return
			}
		}
	}()
	var logMu sync.Mutex
	var clog []string
	var opts []p9.ClientOpt
	if sockMuxDebug {
		opts = append(opts, p9.WithClientLogger(logFunc(func(f string, a ...any) {
			logMu.Lock()
			clog = append(clog, fmt.Sprintf(f, a...)[:min(len(fmt.Sprintf(f, a...)), 120)])
			logMu.Unlock()
		})))
		defer func() {
			logMu.Lock()
			lastClientLog = append([]string{}, clog...)
			logMu.Unlock()
		}()
	}
	cl, err := p9.NewClient(sock.Conn, opts...)
	if err != nil {
		return failf("harness-newclient", "HARNESS-ERROR %v", err)
	}
	root, err := cl.Attach("")
	if err != nil {
		return failf("harness-attach", "HARNESS-ERROR %v", err)
	}
	var files []p9.File
	// (a File that is not referenced any more is clunked by its finalizer - even
	// while a call on it is in flight; the Files stay referenced to the end)
	defer func() { runtime.KeepAlive(&files); runtime.KeepAlive(root) }()
	for range c.Sizes {
		_, f, err := root.Walk([]string{"x"})
		if err != nil {
			return failf("harness-walk", "HARNESS-ERROR %v", err)
		}
		if _, _, err := f.Open(p9.ReadOnly); err != nil {
			return failf("harness-open", "HARNESS-ERROR %v", err)
		}
		files = append(files, f)
	}
	type res struct {
		i    int
		data []byte
		size uint64
		err  error
	}
	out := make(chan res, len(c.Sizes))
	for i, n := range c.Sizes {
		go func(i, n int) {
			if n == 0 {
				_, _, a, err := files[i].GetAttr(p9.AttrMaskAll)
				out <- res{i: i, size: a.Size, err: err}
				return
			}
			b := make([]byte, n)
			m, err := files[i].ReadAt(b, int64(i*3))
			out <- res{i: i, data: b[:m], err: err}
		}(i, n)
	}
	for range c.Sizes {
		select {
		case <-arrived:
		case e := <-srvErr:
			return failf("harness-server", "HARNESS-ERROR fake server: %v (%s)", e, desc)
		case <-time.After(20 * time.Second):
			return failf("harness-arrival", "HARNESS-ERROR the calls did not all send their requests (%s)", desc)
		}
	}
	mu.Lock()
	hold = false
	reqs := append([]*refcodec.Msg{}, pending...)
	mu.Unlock()
	// reply order
	used := map[int]bool{}
	var order []int
	for _, o := range c.Order {
		if o >= 0 && o < len(reqs) && !used[o] {
			used[o] = true
			order = append(order, o)
		}
	}
	for i := range reqs {
		if !used[i] {
			order = append(order, i)
		}
	}
	var frames [][]byte
	for _, o := range order {
		frames = append(frames, replyTo(reqs[o]))
	}
	deliver := func(stream []byte, cuts []int) *fail {
		prev := 0
		for _, cut := range append(append([]int{}, cuts...), len(stream)) {
			if cut <= prev || cut > len(stream) {
				continue
			}
			dmu.Lock()
			err := sock.Deliver(stream[prev:cut], 10*time.Second)
			dmu.Unlock()
			if err != nil {
				early := ""
				for k := 0; k < len(c.Sizes); k++ {
					select {
					case r := <-out:
						early += fmt.Sprintf(" [caller %d returned %d bytes, err %v]", r.i, len(r.data), r.err)
					default:
					}
				}
				var tags []string
				for _, q := range reqs {
					tags = append(tags, fmt.Sprintf("%s", q))
				}
				return failf("client-stopped-reading:socket", "the client did not take the reply bytes %d..%d of %d: %v; calls that had already returned:%s; requests %v; stream head %x (%s)", prev, cut, len(stream), err, early, tags, stream[:min(len(stream), 40)], desc)
			}
			prev = cut
		}
		return nil
	}
	if c.Joined {
		if f := deliver(bytes.Join(frames, nil), c.Cuts); f != nil {
			return f
		}
	} else {
		for _, fr := range frames {
			var cuts []int
			for _, x := range c.Cuts {
				cuts = append(cuts, x%max(len(fr), 1))
			}
			sortInts(cuts)
			if f := deliver(fr, cuts); f != nil {
				return f
			}
		}
	}
	for range c.Sizes {
		select {
		case r := <-out:
			fid := uint64(0)
			for _, q := range reqs {
				_ = q
			}
			if r.err != nil {
				return failf("call-fails-on-healthy-connection:socket", "caller %d got %v although every reply was delivered intact (%s)", r.i, r.err, desc)
			}
			if c.Sizes[r.i] == 0 {
				// which fid did caller i use? the size carries it: it must be one of the fids, and distinct per caller
				if r.size < 1000 {
					return failf("reply-of-another-call:socket", "caller %d (getattr) got size %d (%s)", r.i, r.size, desc)
				}
				continue
			}
			if len(r.data) != c.Sizes[r.i] {
				return failf("short-read-on-healthy-connection:socket", "caller %d asked for %d bytes and got %d (%s)", r.i, c.Sizes[r.i], len(r.data), desc)
			}
			// the data pattern depends on the fid and the offset; the fid is not known to
			// the caller, but all bytes must follow one fid's pattern at offset i*3
			ok := false
			for fid = 0; fid < 64 && !ok; fid++ {
				ok = true
				for k := range r.data {
					if r.data[k] != sockMuxByte(fid, r.i*3+k) {
						ok = false
						break
					}
				}
			}
			if !ok {
				// describe the damage against the best matching File
				bestFid, bestAt := uint64(0), -1
				for fid = 0; fid < 64; fid++ {
					k := 0
					for k < len(r.data) && r.data[k] == sockMuxByte(fid, r.i*3+k) {
						k++
					}
					if k > bestAt {
						bestFid, bestAt = fid, k
					}
				}
				return failf("read-data-wrong:socket", "caller %d: the %d bytes it got follow no File's pattern at its offset: against fid %d the first wrong byte is at %d (got %x, want %x; next bytes %x) - bytes of the reply were lost or shifted (%s)", r.i, len(r.data), bestFid, bestAt, r.data[bestAt], sockMuxByte(bestFid, r.i*3+bestAt), r.data[bestAt:min(bestAt+8, len(r.data))], desc)
			}
		case <-time.After(20 * time.Second):
			return failf("client-call-hangs:socket", "a call did not return although every reply was delivered (%s)", desc)
		}
	}
	for i := 0; i < c.After; i++ {
		done := make(chan error, 1)
		go func() { _, _, _, err := root.GetAttr(p9.AttrMaskAll); done <- err }()
		select {
		case err := <-done:
			if err != nil {
				return failf("later-call-fails:socket", "a later call failed: %v (%s)", err, desc)
			}
		case <-time.After(20 * time.Second):
			return failf("client-call-hangs:socket", "a later call did not return (%s)", desc)
		}
	}
	return nil
}

func sortInts(a []int) {
	for i := 1; i < len(a); i++ {
		for j := i; j > 0 && a[j] < a[j-1]; j-- {
			a[j], a[j-1] = a[j-1], a[j]
		}
	}
}

var sockMuxDebug bool
var lastClientLog []string

type logFunc func(string, ...any)

func (l logFunc) Printf(f string, a ...any) { l(f, a...) }
func (l logFunc) Print(a ...any)            { l("%s", fmt.Sprint(a...)) }
