package checks

import (
	"fmt"
	"runtime"
	"strings"
	"sync"
	"sync/atomic"
	"testing"
	"time"

	"p9verif/evid"
	"p9verif/memfs"
	"p9verif/memtree"
	"p9verif/peers"
	"p9verif/refcodec"

	"github.com/hugelgupf/p9/p9"
	"pgregory.net/rapid"
)

// ---------------------------------------------------------------------------
// C07 — backend concurrency contract

// ccOp is one backend-reaching operation of the pairwise rendezvous.
type ccOp struct {
	Name  string
	Needs string // type the target fid must denote: dir | file | openfile | opendir | symlink | any
	Gate  string // backend method at which the operation is held (native/non-native agnostic unless GateNative set)
	GateN string // backend method when WalkGetAttr is native ("" = same)
	Build func(fid uint64, tag string) *refcodec.Msg
}

func ccOps() []ccOp {
	return []ccOp{
		{"walk", "dir", "Walk", "WalkGetAttr", func(f uint64, t string) *refcodec.Msg { return tWalk(f, 30, "w"+t) }},
		{"clone", "any", "Walk", "", func(f uint64, t string) *refcodec.Msg { return tWalk(f, 31) }},
		{"walkgetattr", "dir", "Walk", "WalkGetAttr", func(f uint64, t string) *refcodec.Msg { return tWalkGA(f, 32, "w"+t) }},
		{"open", "any", "Open", "", func(f uint64, t string) *refcodec.Msg { return tOpen(f, 0) }},
		{"read", "openfile", "ReadAt", "", func(f uint64, t string) *refcodec.Msg { return tRead(f, 0, 4) }},
		{"write", "openfile", "WriteAt", "", func(f uint64, t string) *refcodec.Msg { return tWrite(f, 0, "zz") }},
		{"getattr", "any", "GetAttr", "", func(f uint64, t string) *refcodec.Msg { return tGetattr(f) }},
		{"readdir", "opendir", "Readdir", "", func(f uint64, t string) *refcodec.Msg { return tReaddir(f, 0, 4000) }},
		{"readlink", "symlink", "Readlink", "", func(f uint64, t string) *refcodec.Msg { return tReadlink(f) }},
		{"fsync", "openfile", "FSync", "", func(f uint64, t string) *refcodec.Msg { return tFsync(f) }},
		{"create", "dir", "Create", "", func(f uint64, t string) *refcodec.Msg { return tCreate(f, "c"+t, 2, 0o644) }},
		{"mkdir", "dir", "Mkdir", "", func(f uint64, t string) *refcodec.Msg { return tMkdir(f, "m"+t) }},
		{"symlink", "dir", "Symlink", "", func(f uint64, t string) *refcodec.Msg { return tSymlink(f, "s"+t, "tgt") }},
		{"link", "dir", "Link", "", func(f uint64, t string) *refcodec.Msg { return tLink(f, 29, "l"+t) }},
		{"mknod", "dir", "Mknod", "", func(f uint64, t string) *refcodec.Msg { return tMknod(f, "n"+t, memtree.TFifo|0o600) }},
		{"unlinkat", "dir", "UnlinkAt", "", func(f uint64, t string) *refcodec.Msg { return tUnlinkat(f, "v"+t) }},
		{"setattr", "any", "SetAttr", "", func(f uint64, t string) *refcodec.Msg { return tSetattr(f, 1, 0o700, 0) }},
		// (the class of SetAttr does not depend on which attributes are set)
		{"setattr-mtime", "any", "SetAttr", "", func(f uint64, t string) *refcodec.Msg { return tSetattr(f, 0x20, 0, 0) }},
		{"setattr-times", "any", "SetAttr", "", func(f uint64, t string) *refcodec.Msg { return tSetattr(f, 0x1b0, 0, 0) }},
		{"setattr-owner", "any", "SetAttr", "", func(f uint64, t string) *refcodec.Msg { return tSetattr(f, 6, 0, 0) }},
		{"renameat", "dir", "RenameAt", "", func(f uint64, t string) *refcodec.Msg { return tRenameat(f, "r"+t, f, "q"+t) }},
		{"rename", "any-nonroot", "RenameAt", "", func(f uint64, t string) *refcodec.Msg { return tRename(f, 28, "moved"+t) }},
		{"remove", "any-nonroot", "UnlinkAt", "", func(f uint64, t string) *refcodec.Msg { return tRemove(f) }},
		// the same rename, held inside the Renamed notification of the moved File (global class)
		{"rename-notify", "any-nonroot", "Renamed", "", func(f uint64, t string) *refcodec.Msg { return tRename(f, 28, "movedn"+t) }},
		{"renameat-notify", "dir", "Renamed", "", func(f uint64, t string) *refcodec.Msg { return tRenameat(f, "kd"+t+"n", f, "kdq"+t) }},
		{"xattrwalk", "any", "GetXattr", "", func(f uint64, t string) *refcodec.Msg { return tXattrwalk(f, 33, "user.a") }},
		{"statfs", "any", "StatFS", "", func(f uint64, t string) *refcodec.Msg { return tStatfs(f) }},
		{"attach", "root", "GetAttr", "", func(f uint64, t string) *refcodec.Msg { return tAttach(34, nofid, "") }},
	}
}

var ccRelations = []string{"same-fid", "two-fids", "two-conns", "parent-child", "child-parent", "siblings"}

// populateCC: /P is the shared directory. Each side (A, B) gets its own
// victims so that the operations themselves succeed.
//
//	/P/kd{A,B}  directories   /P/kf{A,B} files   /P/ks{A,B} symlinks
//	inside every directory X that may be a target: wA wB (files to walk to), vA vB (files to unlink), rA rB (files to rename)
func populateCC(t *memtree.Tree) {
	fill := func(d *memtree.Inode) {
		for _, n := range []string{"wA", "wB", "vA", "vB", "rA", "rB"} {
			t.Create(d, n, 0o644, 0, 0)
		}
		for _, n := range []string{"kdAn", "kdBn"} {
			t.Mkdir(d, n, 0o755, 0, 0)
		}
		d.SetXattr("user.a", []byte("v"), 0)
	}
	fill(t.Root)
	p, _ := t.Mkdir(t.Root, "P", 0o755, 0, 0)
	fill(p)
	for _, s := range []string{"A", "B", "X"} {
		d, _ := t.Mkdir(p, "kd"+s, 0o755, 0, 0)
		fill(d)
		f, _ := t.Create(p, "kf"+s, 0o644, 0, 0)
		f.WriteAt([]byte("data"), 0)
		f.SetXattr("user.a", []byte("v"), 0)
		sl, _ := t.Symlink(p, "ks"+s, "kf"+s, 0, 0)
		sl.SetXattr("user.a", []byte("v"), 0)
	}
	t.Create(t.Root, "linktarget", 0o644, 0, 0)
	t.Mkdir(t.Root, "dest", 0o755, 0, 0)
}

type pairCase struct {
	A        string `json:"a"`
	B        string `json:"b"`
	Relation string `json:"relation"`
	Native   bool   `json:"native_walkgetattr"`
}

type pairStats struct {
	skipped   bool
	overlapOK bool // B ran inside the backend while A was held, legitimately
	ordered   bool // B did not complete while A was held
}

// targetFor picks the path (components under the root) an operation's fid
// denotes for a relation; side is "A" or "B". It returns ok=false when the
// relation cannot be realised for these two operations.
func ccPaths(a, b ccOp, rel string) (pa, pb []string, ok bool) {
	kind := func(o ccOp) string {
		switch o.Needs {
		case "dir", "opendir":
			return "d"
		case "file", "openfile":
			return "f"
		case "symlink":
			return "s"
		case "root":
			return "root"
		}
		return "*"
	}
	ka, kb := kind(a), kind(b)
	child := func(k, side string) string {
		switch k {
		case "f":
			return "kf" + side
		case "s":
			return "ks" + side
		}
		return "kd" + side
	}
	switch rel {
	case "same-fid", "two-fids", "two-conns":
		if ka == "root" || kb == "root" {
			if rel == "same-fid" || (ka != "root" && ka != "d" && ka != "*") || (kb != "root" && kb != "d" && kb != "*") {
				return nil, nil, false
			}
			if a.Needs == "any-nonroot" || b.Needs == "any-nonroot" {
				return nil, nil, false
			}
			return nil, nil, true // both on the root
		}
		k := ka
		if k == "*" {
			k = kb
		}
		if kb != "*" && kb != k {
			return nil, nil, false
		}
		if k == "*" {
			k = "d"
		}
		p := []string{"P", child(k, "X")}
		return p, p, true
	case "parent-child":
		if ka != "d" && ka != "*" && ka != "root" {
			return nil, nil, false
		}
		if kb == "root" {
			return nil, nil, false
		}
		if ka == "root" {
			return nil, []string{"P"}, kb == "d" || kb == "*"
		}
		return []string{"P"}, []string{"P", child(kb, "B")}, true
	case "child-parent":
		if kb != "d" && kb != "*" && kb != "root" {
			return nil, nil, false
		}
		if ka == "root" {
			return nil, nil, false
		}
		if kb == "root" {
			return []string{"P"}, nil, ka == "d" || ka == "*"
		}
		return []string{"P", child(ka, "A")}, []string{"P"}, true
	case "siblings":
		if ka == "root" || kb == "root" {
			return nil, nil, false
		}
		return []string{"P", child(ka, "A")}, []string{"P", child(kb, "B")}, true
	}
	return nil, nil, false
}

func runPairCase(c pairCase, st *pairStats) *fail {
	var a, b ccOp
	for _, o := range ccOps() {
		if o.Name == c.A {
			a = o
		}
		if o.Name == c.B {
			b = o
		}
	}
	if a.Name == "" || b.Name == "" {
		return failf("harness-op", "HARNESS-ERROR unknown operation in %+v", c)
	}
	pa, pb, ok := ccPaths(a, b, c.Relation)
	if !ok {
		if st != nil {
			st.skipped = true
		}
		return nil
	}
	fs := memfs.New(memfs.Options{NativeWalkGetAttr: c.Native, Monitor: true})
	populateCC(fs.Tree)
	srv := p9.NewServer(fs)
	sa := peers.Start(srv)
	sb := sa
	if c.Relation == "two-conns" {
		sb = peers.Start(srv)
	}
	defer func() {
		fs.ClearGates()
		sa.Close(5 * time.Second)
		if sb != sa {
			sb.Close(5 * time.Second)
		}
	}()
	call := func(s *peers.Session, m *refcodec.Msg) *fail {
		m.Tag = s.Tag()
		r, err := s.Call(m)
		if err != nil {
			return failf("harness-setup", "HARNESS-ERROR setup %s: %v", m, err)
		}
		if r.Type == refcodec.Rlerror {
			return failf("harness-setup", "HARNESS-ERROR setup %s => %s", m, r)
		}
		return nil
	}
	for _, s := range []*peers.Session{sa, sb} {
		if _, err := s.Version(64<<10, "9P2000.L.Google.7"); err != nil {
			return failf("harness-version", "HARNESS-ERROR %v", err)
		}
		if s == sb && sb == sa {
			break
		}
	}
	// fids: 0 root; 1 = A's target; 2 = B's target; 28 = /dest; 29 = /linktarget
	setup := func(s *peers.Session, fid uint64, path []string, o ccOp) *fail {
		if f := call(s, tAttach(0, nofid, "")); f != nil {
			return f
		}
		if f := call(s, tWalk(0, 28, "dest")); f != nil {
			return f
		}
		if f := call(s, tWalk(0, 29, "linktarget")); f != nil {
			return f
		}
		if f := call(s, tWalk(0, fid, path...)); f != nil {
			return f
		}
		if o.Name == "renameat-notify" {
			side := "A"
			if fid == 2 {
				side = "B"
			}
			if f := call(s, tWalk(fid, 26+fid-1-1+0, "kd"+side+"n")); f != nil {
				return f
			}
		}
		switch o.Needs {
		case "openfile":
			return call(s, tOpen(fid, 2))
		case "opendir":
			return call(s, tOpen(fid, 0))
		}
		return nil
	}
	fa, fb := uint64(1), uint64(2)
	if f := setup(sa, fa, pa, a); f != nil {
		return f
	}
	if c.Relation == "same-fid" {
		fb = fa
		// the single fid must satisfy both operations' open-state needs
		openNeeded := a.Needs == "openfile" || a.Needs == "opendir" || b.Needs == "openfile" || b.Needs == "opendir"
		mustBeClosed := func(o ccOp) bool {
			switch o.Name {
			case "open", "walk", "walkgetattr", "create", "mkdir", "symlink", "link", "mknod", "unlinkat", "renameat":
				return true
			}
			return false
		}
		if openNeeded && (mustBeClosed(a) || mustBeClosed(b)) {
			if st != nil {
				st.skipped = true
			}
			return nil
		}
		if (b.Needs == "openfile" || b.Needs == "opendir") && !(a.Needs == "openfile" || a.Needs == "opendir") {
			fl := uint64(2)
			if b.Needs == "opendir" {
				fl = 0
			}
			if f := call(sa, tOpen(fa, fl)); f != nil {
				return f
			}
		}
	} else if f := setup(sb, fb, pb, b); f != nil {
		return f
	}
	gateOp := a.Gate
	if c.Native && a.GateN != "" {
		gateOp = a.GateN
	}
	gate := memfs.NewGate(func(cl *memfs.Call) bool { return cl.Op == gateOp })
	fs.AddGate(gate)
	ra := a.Build(fa, "A")
	ra.Tag = 200
	sa.Send(refcodec.Encode(ra))
	var held *memfs.Call
	waitStart := time.Now()
	for held == nil {
		select {
		case held = <-gate.Entered:
		case <-time.After(2 * time.Millisecond):
			if sa.Pending() >= 7 {
				// A was answered without reaching the backend call: the
				// combination is not realisable (e.g. open of a symlink)
				if st != nil {
					st.skipped = true
				}
				return nil
			}
			if time.Since(waitStart) > 10*time.Second {
				return failf("harness-gate", "HARNESS-ERROR %s never reached %s (relation %s)", ra, gateOp, c.Relation)
			}
		}
	}
	nAnom := len(fs.Anomalies())
	rb := b.Build(fb, "B")
	rb.Tag = 201
	sb.Send(refcodec.Encode(rb))
	// wait until the server has taken B's frame, then give it time to run
	sb.C2S.WaitConsumed(sb.C2S.Written(), 5*time.Second)
	bDone := false
	deadline := time.Now().Add(25 * time.Millisecond)
	for time.Now().Before(deadline) {
		if sb == sa {
			if sa.Pending() >= 7 {
				bDone = true
				break
			}
		} else if sb.Pending() >= 7 {
			bDone = true
			break
		}
		time.Sleep(200 * time.Microsecond)
	}
	violation := func() *fail {
		for _, an := range fs.Anomalies()[nAnom:] {
			if an.Kind == "overlap" || an.Kind == "second-open" {
				return failf(an.Sig+":"+c.Relation, "%s: %s entered while %s was held inside the backend (A=%s B=%s relation=%s native=%v)", an.Kind, an.B+" "+an.A, held.String(), c.A, c.B, c.Relation, c.Native)
			}
		}
		return nil
	}
	if f := violation(); f != nil {
		return f
	}
	if st != nil {
		st.ordered = !bDone
		st.overlapOK = fs.MaxInside() >= 2
	}
	gate.Release()
	// both must complete
	got := 0
	if sa == sb {
		for got < 2 {
			if _, err := sa.Recv(20 * time.Second); err != nil {
				break
			}
			got++
		}
	} else {
		for _, s := range []*peers.Session{sa, sb} {
			if _, err := s.Recv(20 * time.Second); err == nil {
				got++
			}
		}
	}
	if got < 2 {
		return failf("pair-did-not-complete:"+c.A+"/"+c.B, "after releasing %s only %d of 2 requests were answered (A=%s B=%s relation=%s); inside: %v", held.String(), got, c.A, c.B, c.Relation, fs.Inside())
	}
	return violation()
}

// ---------------------------------------------------------------------------
// random concurrent workloads with the overlap monitor

type workloadCase struct {
	Seed    uint64 `json:"seed"`
	Conns   int    `json:"conns"`
	Workers int    `json:"workers"`
	Ops     int    `json:"ops_per_worker"`
	Native  bool   `json:"native_walkgetattr"`
	Renames bool   `json:"cross_directory_renames"`
}

func runWorkload(c workloadCase, monitor bool) (*fail, *memfs.FS) {
	fs := memfs.New(memfs.Options{NativeWalkGetAttr: c.Native, Monitor: monitor})
	populateCC(fs.Tree)
	rng := newSplitMix(c.Seed)
	var pmu sync.Mutex
	fs.Perturb = func(*memfs.Call) {
		pmu.Lock()
		r := rng.next() % 8
		pmu.Unlock()
		switch {
		case r < 3:
			// yield
			time.Sleep(0)
		case r == 3:
			time.Sleep(time.Duration(20) * time.Microsecond)
		}
	}
	srv := p9.NewServer(fs)
	var clients []*p9.Client
	var closers []func()
	for i := 0; i < c.Conns; i++ {
		cl, closeFn, err := dialPipe(srv)
		if err != nil {
			return failf("harness-dial", "HARNESS-ERROR %v", err), fs
		}
		clients = append(clients, cl)
		closers = append(closers, closeFn)
	}
	defer func() {
		for _, f := range closers {
			f()
		}
	}()
	dirs := [][]string{{"P"}, {"P", "kdA"}, {"P", "kdB"}, {"P", "kdX"}, {}, {"dest"}}
	var wg sync.WaitGroup
	errs := make(chan *fail, c.Workers)
	done := make(chan struct{})
	for wi := 0; wi < c.Workers; wi++ {
		wg.Add(1)
		go func(wi int) {
			defer wg.Done()
			r := newSplitMix(c.Seed*1000003 + uint64(wi))
			cl := clients[wi%len(clients)]
			root, err := cl.Attach("")
			if err != nil {
				errs <- failf("workload-attach", "attach failed: %v", err)
				return
			}
			defer root.Close()
			for i := 0; i < c.Ops; i++ {
				d := dirs[r.next()%uint64(len(dirs))]
				_, dir, err := root.Walk(d)
				if err != nil {
					continue
				}
				name := fmt.Sprintf("w%d_%d", wi, r.next()%4)
				switch r.next() % 12 {
				case 0:
					dir.Mkdir(name, 0o755, 0, 0)
				case 1:
					if _, f, err := dir.Walk(nil); err == nil {
						if nf, _, _, err := f.Create(name, p9.ReadWrite, 0o644, 0, 0); err == nil {
							nf.WriteAt([]byte("x"), 0)
						}
						f.Close()
					}
				case 2:
					dir.UnlinkAt(name, 0)
				case 3:
					if c.Renames {
						d2 := dirs[r.next()%uint64(len(dirs))]
						if _, dir2, err := root.Walk(d2); err == nil {
							dir.RenameAt(name, dir2, fmt.Sprintf("w%d_%d", wi, r.next()%4))
							dir2.Close()
						}
					} else {
						dir.RenameAt(name, dir, fmt.Sprintf("w%d_%d", wi, r.next()%4))
					}
				case 4:
					dir.GetAttr(p9.AttrMaskAll)
				case 5:
					if _, f, err := dir.Walk([]string{"wA"}); err == nil {
						f.GetAttr(p9.AttrMaskAll)
						if _, _, err := f.Open(p9.ReadOnly); err == nil {
							f.ReadAt(make([]byte, 8), 0)
						}
						f.Close()
					}
				case 6:
					dir.SetAttr(p9.SetAttrMask{Permissions: true}, p9.SetAttr{Permissions: 0o755})
				case 7:
					if _, f, err := dir.Walk(nil); err == nil {
						if _, _, err := f.Open(p9.ReadOnly); err == nil {
							f.Readdir(0, 4000)
						}
						f.Close()
					}
				case 8:
					dir.Symlink("t", name, 0, 0)
				case 9:
					if _, f, err := dir.Walk([]string{name}); err == nil {
						f.Rename(dir, fmt.Sprintf("w%d_%d", wi, r.next()%4))
						f.Close()
					}
				case 10:
					if _, f, _, _, err := dir.WalkGetAttr([]string{"wB"}); err == nil {
						f.Close()
					}
				default:
					if _, f, err := dir.Walk([]string{name}); err == nil {
						f.(interface{ Remove() error }).Remove()
					}
				}
				dir.Close()
			}
		}(wi)
	}
	go func() { wg.Wait(); close(done) }()
	select {
	case <-done:
	case <-time.After(120 * time.Second):
		return failf("workload-deadlock", "concurrent workload did not finish within 120 s (%+v); inside backend: %v", c, fs.Inside()), fs
	}
	select {
	case f := <-errs:
		return f, fs
	default:
	}
	for _, an := range fs.Anomalies() {
		if an.Kind == "overlap" || an.Kind == "second-open" {
			return failf(an.Sig+":workload", "%s in a concurrent workload: %s / %s (%+v)", an.Kind, an.A, an.B, c), fs
		}
	}
	return nil, fs
}

// splitMix is a tiny deterministic PRNG for schedule perturbation and
// workload choices (seeded from VERIF_SEED; never the global RNG).
type splitMix struct{ s uint64 }

func newSplitMix(seed uint64) *splitMix { return &splitMix{s: seed + 0x9e3779b97f4a7c15} }
func (r *splitMix) next() uint64 {
	r.s += 0x9e3779b97f4a7c15
	z := r.s
	z = (z ^ (z >> 30)) * 0xbf58476d1ce4e5b9
	z = (z ^ (z >> 27)) * 0x94d049bb133111eb
	return z ^ (z >> 31)
}

// firstWalksCase: several connections walk to the same, never walked entry at
// the same moment (all are held inside the backend's Walk and released
// together). The fids they bind denote one path: a write-class call through
// one of them must exclude read-class calls through all the others.
type firstWalksCase struct {
	Native  bool `json:"native_walkgetattr"`
	Walkers int  `json:"walkers"`
	Round   int  `json:"round"` // selects the (fresh) entry
}

func runFirstWalksCase(c firstWalksCase) *fail {
	fs := memfs.New(memfs.Options{NativeWalkGetAttr: c.Native, Monitor: true})
	populateCC(fs.Tree)
	srv := p9.NewServer(fs)
	var ss []*peers.Session
	defer func() {
		fs.ClearGates()
		for _, s := range ss {
			s.Close(5 * time.Second)
		}
	}()
	dirs := []string{"kdA", "kdB", "kdX"}
	names := []string{"wA", "wB", "vA", "vB", "rA", "rB"}
	dir, name := dirs[c.Round%len(dirs)], names[(c.Round/len(dirs))%len(names)]
	desc := fmt.Sprintf("%+v (%s/%s)", c, dir, name)
	for i := 0; i < c.Walkers; i++ {
		s := peers.Start(srv)
		ss = append(ss, s)
		if _, err := s.Version(64<<10, "9P2000.L.Google.7"); err != nil {
			return failf("harness-version", "HARNESS-ERROR %v", err)
		}
		for j, m := range []*refcodec.Msg{tAttach(0, nofid, ""), tWalk(0, 1, "P", dir)} {
			if r, err := s.Call(withTag(m, uint16(1+j))); err != nil || r.Type == refcodec.Rlerror {
				return failf("harness-setup", "HARNESS-ERROR %s: %v %v", m, r, err)
			}
		}
	}
	// the walks line up at the very end of the backend call (spin barrier) and
	// return into the server at the same instant
	var arrived int64
	var barrierBroken int32
	fs.LateHook = func(cl *memfs.Call) {
		if len(cl.Names) != 1 || cl.Names[0] != name {
			return
		}
		atomic.AddInt64(&arrived, 1)
		start := time.Now()
		for spins := 0; atomic.LoadInt64(&arrived) < int64(c.Walkers); spins++ {
			if spins > 200 {
				runtime.Gosched()
			}
			if spins%1024 == 0 && time.Since(start) > 10*time.Second {
				atomic.StoreInt32(&barrierBroken, 1)
				return
			}
		}
	}
	for _, s := range ss {
		s.Send(refcodec.Encode(withTag(tWalk(1, 2, name), 10)))
	}
	for i, s := range ss {
		raw, err := s.Recv(20 * time.Second)
		if err != nil {
			return failf("no-reply:first-walks", "walk %d was not answered: %v (%s)", i, err, desc)
		}
		if _, isErr := refcodec.Errno(raw); isErr {
			return failf("harness-walk", "HARNESS-ERROR walk %d => %x (%s)", i, raw, desc)
		}
	}
	fs.LateHook = nil
	if atomic.LoadInt32(&barrierBroken) != 0 {
		return failf("harness-barrier", "HARNESS-ERROR the walks did not meet inside the backend (%s)", desc)
	}
	// SetAttr through the first fid is held; GetAttr through every other fid must wait
	g2 := memfs.NewGate(func(cl *memfs.Call) bool { return cl.Op == "SetAttr" })
	fs.AddGate(g2)
	ss[0].Send(refcodec.Encode(withTag(tSetattr(2, 1, 0o600, 0), 20)))
	select {
	case <-g2.Entered:
	case <-time.After(20 * time.Second):
		return failf("harness-gate", "HARNESS-ERROR SetAttr never reached the backend (%s)", desc)
	}
	for _, s := range ss[1:] {
		s.Send(refcodec.Encode(withTag(tGetattr(2), 21)))
	}
	time.Sleep(40 * time.Millisecond)
	g2.Release()
	for _, an := range fs.Anomalies() {
		if an.Kind == "overlap" {
			return failf(an.Sig+":after-concurrent-first-walks", "overlap: %s entered while %s was held inside the backend; the fids were bound by %d walks to a never walked entry released from the backend at the same moment (%s)", an.B, an.A, c.Walkers, desc)
		}
	}
	return nil
}

// racedWalkCase: a multi-component walk is overtaken, between two of its
// steps, by a rename that replaces the entry its last component names. The
// fid the walk binds and a fid bound afterwards denote the same path; a
// write-class call through one must still exclude a read-class call through
// the other.
type racedWalkCase struct {
	Native bool   `json:"native_walkgetattr"`
	HoldAt int    `json:"hold_at"` // which step of the walk is held while the rename queues up (0: "P", 1: "kdA")
	Write  string `json:"write"`   // the held write-class call: setattr | unlinkat-entry
	ViaNew bool   `json:"via_new"` // the write goes through the fid bound afterwards (else through the walk's fid)
}

func runRacedWalkCase(c racedWalkCase) *fail {
	fs := memfs.New(memfs.Options{NativeWalkGetAttr: c.Native, Monitor: true})
	populateCC(fs.Tree)
	srv := p9.NewServer(fs)
	s1, s2 := peers.Start(srv), peers.Start(srv)
	defer func() {
		fs.ClearGates()
		s1.Close(5 * time.Second)
		s2.Close(5 * time.Second)
	}()
	desc := fmt.Sprintf("%+v", c)
	for _, s := range []*peers.Session{s1, s2} {
		if _, err := s.Version(64<<10, "9P2000.L.Google.7"); err != nil {
			return failf("harness-version", "HARNESS-ERROR %v", err)
		}
		for i, m := range []*refcodec.Msg{tAttach(0, nofid, ""), tWalk(0, 1, "P", "kdA")} {
			if r, err := s.Call(withTag(m, uint16(1+i))); err != nil || r.Type == refcodec.Rlerror {
				return failf("harness-setup", "HARNESS-ERROR %s: %v %v", m, r, err)
			}
		}
	}
	// the walk P / kdA / rA is held at one of its first two steps
	stepName := []string{"P", "kdA"}[c.HoldAt%2]
	g1 := memfs.NewGate(func(cl *memfs.Call) bool {
		return (cl.Op == "Walk" || cl.Op == "WalkGetAttr") && len(cl.Names) == 1 && cl.Names[0] == stepName
	})
	fs.AddGate(g1)
	s1.Send(refcodec.Encode(withTag(tWalk(0, 10, "P", "kdA", "rA"), 100)))
	select {
	case <-g1.Entered:
	case <-time.After(20 * time.Second):
		return failf("harness-gate", "HARNESS-ERROR the walk never reached step %q (%s)", stepName, desc)
	}
	// a rename onto rA queues up behind the walk's hold on the rename lock
	s2.Send(refcodec.Encode(withTag(tRenameat(1, "rB", 1, "rA"), 101)))
	time.Sleep(15 * time.Millisecond)
	g1.Release()
	if _, err := s1.Recv(20 * time.Second); err != nil {
		return failf("no-reply:raced-walk", "the walk was not answered: %v (%s)", err, desc)
	}
	if _, err := s2.Recv(20 * time.Second); err != nil {
		return failf("no-reply:raced-walk", "the rename was not answered: %v (%s)", err, desc)
	}
	// a fid bound afterwards to the same path
	if r, err := s2.Call(withTag(tWalk(1, 11, "rA"), 102)); err != nil || r.Type == refcodec.Rlerror {
		return failf("harness-setup", "HARNESS-ERROR second walk: %v %v", r, err)
	}
	// a write-class call through one fid is held; a read-class call through the other must wait
	wS, wFid, rS, rFid := s1, uint64(10), s2, uint64(11)
	if c.ViaNew {
		wS, wFid, rS, rFid = s2, 11, s1, 10
	}
	var wm *refcodec.Msg
	wop := "SetAttr"
	if c.Write == "unlinkat-entry" {
		// UnlinkAt on the directory also excludes calls on the entry being removed
		wm, wop = tUnlinkat(1, "rA"), "UnlinkAt"
		_ = wFid
	} else {
		wm = tSetattr(wFid, 1, 0o600, 0)
	}
	g2 := memfs.NewGate(func(cl *memfs.Call) bool { return cl.Op == wop })
	fs.AddGate(g2)
	wS.Send(refcodec.Encode(withTag(wm, 110)))
	select {
	case <-g2.Entered:
	case <-time.After(20 * time.Second):
		return failf("harness-gate", "HARNESS-ERROR %s never reached the backend (%s)", wm, desc)
	}
	rS.Send(refcodec.Encode(withTag(tGetattr(rFid), 111)))
	rS.Recv(60 * time.Millisecond) // whether it is answered early shows in the overlap monitor
	g2.Release()
	for _, an := range fs.Anomalies() {
		if an.Kind == "overlap" {
			return failf(an.Sig+":after-raced-walk", "overlap: %s entered while %s was held inside the backend; the two fids were bound to one path by a walk that a rename-over overtook between two of its steps and by a walk made afterwards (%s)", an.B, an.A, desc)
		}
	}
	return nil
}

// openOnceCase: Open is invoked at most once on a File, whichever fids lead to
// it. Besides the fid a File was walked to, the fid created by Txattrwalk
// shares its origin's File.
type openOnceCase struct {
	Native bool     `json:"native_walkgetattr"`
	Target string   `json:"target"` // file | dir
	Steps  []string `json:"steps"`  // open:<flags> | xwalk:<name> | xopen:<flags> | xclone | reopen:<flags> | clunk-x
}

func runOpenOnceCase(c openOnceCase) *fail {
	fs := memfs.New(memfs.Options{NativeWalkGetAttr: c.Native})
	memtree.Populate(fs.Tree)
	s := peers.Start(p9.NewServer(fs))
	defer s.Close(10 * time.Second)
	if _, err := s.Version(64<<10, "9P2000.L.Google.7"); err != nil {
		return failf("harness-version", "HARNESS-ERROR %v", err)
	}
	setup := []*refcodec.Msg{tAttach(0, nofid, ""), tWalk(0, 1, "d", "f")}
	if c.Target == "dir" {
		setup[1] = tWalk(0, 1, "d")
	}
	for _, m := range setup {
		m.Tag = s.Tag()
		if r, err := s.Call(m); err != nil || r.Type == refcodec.Rlerror {
			return failf("harness-setup", "HARNESS-ERROR %s => %v %v", m, r, err)
		}
	}
	var hist []string
	for _, st := range c.Steps {
		var m *refcodec.Msg
		var arg string
		kind := st
		if i := strings.IndexByte(st, ':'); i >= 0 {
			kind, arg = st[:i], st[i+1:]
		}
		var n uint64
		fmt.Sscanf(arg, "%d", &n)
		switch kind {
		case "open", "reopen":
			m = tOpen(1, n)
		case "xwalk":
			m = tXattrwalk(1, 2, arg)
		case "xopen":
			m = tOpen(2, n)
		case "xclone":
			m = tWalk(2, 3)
		case "xcopen":
			m = tOpen(3, n)
		default:
			m = tClunk(2)
		}
		m.Tag = s.Tag()
		r, err := s.Call(m)
		if err != nil {
			return failf("no-reply:open-once", "%s: %v", m, err)
		}
		hist = append(hist, fmt.Sprintf("%s => %s", m, r))
	}
	opens := map[int]int{}
	for _, cl := range fs.LogSince(0) {
		if cl.Op == "Open" {
			opens[cl.Handle]++
		}
	}
	for h, n := range opens {
		if n > 1 {
			return failf("second-open:sequence", "Open was invoked %d times on File h%d: %s", n, h, strings.Join(hist, "; "))
		}
	}
	return nil
}

func init() {
	replayRegistrars = append(replayRegistrars, func() {
		registerReplay("C07/pairs", func(c pairCase) *fail { return runPairCase(c, nil) })
		registerReplay("C07/open-once", runOpenOnceCase)
		registerReplay("C07/raced-walk", runRacedWalkCase)
		registerReplay("C07/first-walks", runFirstWalksCase)
		registerReplay("C07/workload", func(c workloadCase) *fail { f, _ := runWorkload(c, true); return f })
	})
}

func TestC07(t *testing.T) {
	h := begin(t, "C07")
	defer h.Finish()
	env := h.Env

	ops := ccOps()
	n := 0
	for _, a := range ops {
		for _, b := range ops {
			for _, rel := range ccRelations {
				for _, native := range []bool{false, true} {
					n++
					if n%env.NShards != env.Shard {
						continue
					}
					if !env.Thorough() && native && !(strings.HasPrefix(a.Name, "walk") || strings.HasPrefix(b.Name, "walk") || a.Name == "attach" || b.Name == "attach") {
						// quick tier: the native backend only differs for walks
						continue
					}
					c := pairCase{A: a.Name, B: b.Name, Relation: rel, Native: native}
					st := &pairStats{}
					f := runPairCase(c, st)
					if st.skipped {
						h.Count("pairs:not-realisable", 1)
						continue
					}
					h.Case(evid.HashJSON(c), st.ordered || st.overlapOK, "pairs:"+rel)
					if st.ordered {
						h.Count("pairs:B-ordered-behind-A", 1)
					}
					if st.overlapOK {
						h.Count("pairs:B-inside-with-A(allowed)", 1)
					}
					if st.ordered && h.WantSample("pairs") {
						h.Sample("pairs", c)
					}
					if f != nil && strings.HasPrefix(f.Sig, "harness-") {
						t.Errorf("HARNESS-ERROR %s: %+v", f.Msg, c)
						continue
					}
					if f != nil && h.Known(f.Sig) {
						continue
					}
					h.report("pairs", f, c)
				}
			}
		}
	}
	h.Exhaustive(fmt.Sprintf("every ordered pair of %d operations x %d relations (x 2 backends in the thorough tier)", len(ops), len(ccRelations)))

	// the harness owns the schedule at backend-call granularity
	schedSubCheck(h, env.PerShard(env.Pick(4800, 160000)), []string{"f", "f", "k", "k", "e", "dir", "fnew", "knew", "create", "io", "io"}, nil)
	// concurrent first walks to one entry
	for rep := 0; rep < env.Pick(640, 6400)/env.NShards+1; rep++ {
		// (with a backend that has WalkGetAttr the path node is looked up exactly once per step)
		c := firstWalksCase{Native: rep%4 != 0, Walkers: 4 + rep%5, Round: rep*env.NShards + env.Shard}
		f := runFirstWalksCase(c)
		h.Case(evid.HashJSON(c), true, "concurrent-first-walks")
		if f != nil && strings.HasPrefix(f.Sig, "harness-") {
			t.Errorf("HARNESS-ERROR %s", f.Msg)
			continue
		}
		if h.report("first-walks", f, c) {
			return
		}
	}
	// a walk overtaken by a rename-over between two of its steps
	if env.Shard == 1%env.NShards {
		for _, native := range []bool{false, true} {
			for hold := 0; hold < 2; hold++ {
				for _, wr := range []string{"setattr", "unlinkat-entry"} {
					for _, via := range []bool{false, true} {
						for rep := 0; rep < env.Pick(2, 10); rep++ {
							c := racedWalkCase{Native: native, HoldAt: hold, Write: wr, ViaNew: via}
							f := runRacedWalkCase(c)
							h.Case(evid.HashJSON(c)+uint64(rep), true, "raced-walk")
							if f != nil && strings.HasPrefix(f.Sig, "harness-") {
								t.Errorf("HARNESS-ERROR %s", f.Msg)
								continue
							}
							if h.report("raced-walk", f, c) {
								return
							}
						}
					}
				}
			}
		}
	}
	// Open at most once per File: every short sequence of opens through the fid
	// and through attribute fids derived from it
	if env.Shard == 0 {
		steps := []string{"open:0", "open:2", "xwalk:user.a", "xwalk:", "xopen:0", "xopen:1", "xclone", "xcopen:0", "reopen:0", "clunk-x"}
		var rec func(prefix []string, depth int) bool
		rec = func(prefix []string, depth int) bool {
			if len(prefix) >= 2 {
				for _, tg := range []string{"file", "dir"} {
					c := openOnceCase{Native: len(prefix)%2 == 0, Target: tg, Steps: append([]string{}, prefix...)}
					f := runOpenOnceCase(c)
					h.Case(evid.HashJSON(c), true, "open-once")
					if f != nil && strings.HasPrefix(f.Sig, "harness-") {
						t.Errorf("HARNESS-ERROR %s", f.Msg)
						continue
					}
					if h.report("open-once", f, c) {
						return false
					}
				}
			}
			if depth == 0 {
				return true
			}
			for _, st := range steps {
				if !rec(append(prefix, st), depth-1) {
					return false
				}
			}
			return true
		}
		rec(nil, env.Pick(3, 4))
		h.Exhaustive(fmt.Sprintf("every sequence of 2..%d steps over %d open / attribute-fid steps x {file, directory}: Open at most once per File", env.Pick(3, 4), len(steps)))
	}
	rapidCases(h, "workload", env.PerShard(env.Pick(48, 24000)), func(rt *rapid.T) workloadCase {
		return workloadCase{Seed: rapid.Uint64Range(1, 1<<40).Draw(rt, "seed"), Conns: rapid.IntRange(1, 4).Draw(rt, "conns"),
			Workers: rapid.IntRange(4, 32).Draw(rt, "workers"), Ops: rapid.IntRange(10, 60).Draw(rt, "ops"),
			Native: rapid.Bool().Draw(rt, "native"), Renames: rapid.Bool().Draw(rt, "renames")}
	}, func(c workloadCase) *fail {
		f, fs := runWorkload(c, true)
		h.Case(evid.HashJSON(c), fs.MaxInside() >= 2, "workload")
		h.Count("workload:max-calls-inside-at-once", int64(fs.MaxInside()))
		if h.WantSample("workload") {
			h.Sample("workload", c)
		}
		return f
	})
}
