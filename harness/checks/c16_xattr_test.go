package checks

import (
	"bytes"
	"fmt"
	"sync"
	"time"

	"p9verif/memfs"
	"p9verif/peers"
	"p9verif/refcodec"

	"github.com/hugelgupf/p9/p9"
)

// xattrIsoCase (C16, isolation): sessions on connections of their own, each on a
// file of its own, set an extended attribute (Txattrcreate, one Twrite with the
// whole value, Tclunk) and write to their file, all with values of the same
// length, at the same time. Each reads back exactly what it set: the attribute
// value and the file content it would see running alone.
type xattrIsoCase struct {
	Sessions int  `json:"sessions"`
	Rounds   int  `json:"rounds"`
	Len      int  `json:"len"`
	Native   bool `json:"native_walkgetattr"`
}

func runXattrIsoCase(c xattrIsoCase) *fail {
	fs := memfs.New(memfs.Options{NativeWalkGetAttr: c.Native})
	for w := 0; w < c.Sessions; w++ {
		fs.Tree.Create(fs.Tree.Root, fmt.Sprintf("x%d", w), 0o644, 0, 0)
	}
	srv := p9.NewServer(fs)
	var wg sync.WaitGroup
	var mu sync.Mutex
	var bad *fail
	start := make(chan struct{})
	for w := 0; w < c.Sessions; w++ {
		wg.Add(1)
		go func(w int) {
			defer wg.Done()
			s := peers.Start(srv)
			defer s.Close(10 * time.Second)
			report := func(f *fail) {
				mu.Lock()
				if bad == nil {
					bad = f
				}
				mu.Unlock()
			}
			tag := uint16(1)
			call := func(m *refcodec.Msg) *refcodec.Msg {
				tag++
				r, err := s.Call(withTag(m, tag))
				if err != nil {
					report(failf("isolation:no-reply", "session %d: %s was not answered: %v (%+v)", w, m, err, c))
					return nil
				}
				return r
			}
			if _, err := s.Version(64<<10, "9P2000.L.Google.7"); err != nil {
				report(failf("harness-version", "HARNESS-ERROR %v", err))
				return
			}
			if r := call(tAttach(0, nofid, "")); r == nil || r.Type == refcodec.Rlerror {
				return
			}
			if r := call(tWalk(0, 1, fmt.Sprintf("x%d", w))); r == nil || r.Type == refcodec.Rlerror {
				return
			}
			if r := call(tWalk(1, 2)); r == nil || r.Type == refcodec.Rlerror {
				return
			}
			if r := call(tOpen(2, 2)); r == nil || r.Type == refcodec.Rlerror {
				return
			}
			<-start
			for r := 0; r < c.Rounds; r++ {
				val := bytes.Repeat([]byte{byte('a' + w%26)}, c.Len)
				val[0], val[c.Len-1] = byte('0'+r%10), byte('A'+w%26)
				data := bytes.Repeat([]byte{byte('k' + w%10)}, c.Len)
				data[0] = byte('0' + r%10)
				steps := []*refcodec.Msg{tWalk(1, 3), tXattrcreate(3, "user.k", uint64(c.Len), 0), tWrite(3, 0, string(val)),
					tWrite(2, 0, string(data)), tClunk(3)}
				for _, m := range steps {
					rep := call(m)
					if rep == nil {
						return
					}
					if rep.Type == refcodec.Rlerror {
						report(failf("isolation:xattr-step", "session %d round %d: %s answered %s; alone it succeeds (%+v)", w, r, m, rep, c))
						return
					}
				}
				// read both back
				if rep := call(tXattrwalk(1, 4, "user.k")); rep == nil || rep.Type == refcodec.Rlerror || int(rep.U("size")) != c.Len {
					report(failf("isolation:xattr", "session %d round %d: Txattrwalk answered %v (%+v)", w, r, rep, c))
					return
				}
				rep := call(tRead(4, 0, uint64(c.Len)))
				if rep == nil {
					return
				}
				if rep.Type == refcodec.Rlerror || !bytes.Equal(rep.Bytes("data"), val) {
					report(failf("isolation:xattr", "session %d (alone on /x%d) round %d: it set user.k to %q and reads back %q - the value of another session; case %+v", w, w, r, val, rep.Bytes("data"), c))
					return
				}
				call(tClunk(4))
				rep = call(tRead(2, 0, uint64(c.Len)))
				if rep == nil {
					return
				}
				if rep.Type == refcodec.Rlerror || !bytes.Equal(rep.Bytes("data"), data) {
					report(failf("isolation:write", "session %d (alone on /x%d) round %d: it wrote %q and reads back %q; case %+v", w, w, r, data, rep.Bytes("data"), c))
					return
				}
			}
		}(w)
	}
	close(start)
	done := make(chan struct{})
	go func() { wg.Wait(); close(done) }()
	select {
	case <-done:
	case <-time.After(120 * time.Second):
		return failf("workload-stuck", "the attribute workload did not finish within 120 s (%+v)", c)
	}
	return bad
}
