package checks

import (
	"encoding/binary"
	"fmt"
	"time"

	"p9verif/peers"
	"p9verif/refcodec"

	"github.com/hugelgupf/p9/p9"
)

// renegCase (C02): the size limit after a SECOND Tversion. The connection is
// negotiated with msize First, used, left quiet for a moment (the goroutine that
// will receive the next frame is then already waiting), renegotiated to Second,
// and the very next frame carries the size field Size. If Size is within the new
// limit the frame (a Twrite on an unbound fid, complete) must be answered; if it
// is above it (or below a header's size) the connection must end on the header
// alone, without the body being read and without a reply.
type renegCase struct {
	First   uint32 `json:"first"`
	Second  uint32 `json:"second"`
	PauseUs int    `json:"pause_us"`
	Probes  int    `json:"probes"` // exchanges before the pause
	Size    uint32 `json:"size"`
	// Refused: the second Tversion names a version that is not 9P2000.L; it is
	// answered (unknown, 0) and the first negotiation stays in force
	Refused bool `json:"refused,omitempty"`
}

func runRenegCase(c renegCase) *fail {
	s := peers.Start(p9.NewServer(nullAttacher{}))
	defer s.Close(10 * time.Second)
	rv1, err := s.Version(c.First, "9P2000.L.Google.7")
	if err != nil || rv1.Type != refcodec.Rversion {
		return failf("harness-version", "HARNESS-ERROR %v %v", rv1, err)
	}
	tag := uint16(0x100)
	probe := func() *fail {
		tag++
		raw, err := s.RPC(refcodec.Encode(refcodec.New(refcodec.Tclunk, tag, "fid", probeFid)))
		want := refcodec.Encode(refcodec.New(refcodec.Rlerror, tag, "ecode", 9))
		if err != nil || string(raw) != string(want) {
			return failf("harness-probe", "HARNESS-ERROR probe answered %x (%v)", raw, err)
		}
		return nil
	}
	for i := 0; i < c.Probes; i++ {
		if f := probe(); f != nil {
			return f
		}
	}
	time.Sleep(time.Duration(c.PauseUs) * time.Microsecond)
	version2 := "9P2000.L.Google.7"
	if c.Refused {
		version2 = "9P2000.u"
	}
	rv, err := s.Version(c.Second, version2)
	if err != nil || rv.Type != refcodec.Rversion {
		return failf("tversion-not-rversion:renegotiation", "second Tversion(msize %d) answered %v (%v)", c.Second, rv, err)
	}
	limit := uint32(rv.U("msize"))
	if c.Refused {
		if rv.S("version") != "unknown" || limit != 0 {
			return failf("tversion-refusal:renegotiation", "Tversion(msize %d, 9P2000.u) answered %v, want (unknown, 0)", c.Second, rv)
		}
		limit = uint32(rv1.U("msize")) // nothing was negotiated
	}
	what := fmt.Sprintf("refused=%v: msize %d, then %d (limit in force %d) after %d exchanges and %d us of quiet; next frame with size field %d", c.Refused, c.First, c.Second, limit, c.Probes, c.PauseUs, c.Size)
	tag++
	if c.Size < 7 || c.Size > limit {
		hdr := make([]byte, 7)
		binary.LittleEndian.PutUint32(hdr, c.Size)
		hdr[4] = refcodec.Twrite
		binary.LittleEndian.PutUint16(hdr[5:], tag)
		s.Send(hdr)
		select {
		case <-s.Done():
		case <-time.After(20 * time.Second):
			return failf("bad-size-not-fatal:renegotiated", "%s: the connection did not end on the header (the receiver used an older limit and waits for the body)", what)
		}
		if s.Pending() != 0 {
			raw, _ := s.Recv(time.Second)
			return failf("reply-to-bad-size:renegotiated", "%s: the server answered %x", what, raw[:min(len(raw), 32)])
		}
		return nil
	}
	// a complete frame of exactly that size
	var frame []byte
	if c.Size >= 23 {
		frame = refcodec.Encode(refcodec.New(refcodec.Twrite, tag, "fid", probeFid, "offset", 0, "data", make([]byte, c.Size-23)))
	} else {
		frame = make([]byte, c.Size) // too short for any body: rejected, but delimited
		binary.LittleEndian.PutUint32(frame, c.Size)
		frame[4] = refcodec.Tclunk
		binary.LittleEndian.PutUint16(frame[5:], tag)
	}
	if uint32(len(frame)) != c.Size {
		return failf("harness-frame", "HARNESS-ERROR frame of %d bytes for size %d", len(frame), c.Size)
	}
	s.Send(frame)
	raw, err := s.Recv(20 * time.Second)
	if err != nil {
		if s.Returned() {
			return failf("connection-ended-on-frame-within-msize", "%s: the connection ended although the frame is within the negotiated limit", what)
		}
		return failf("no-reply-to-complete-frame:renegotiated", "%s: no reply", what)
	}
	rep, derr := refcodec.DecodeStrict(raw)
	if derr != nil || rep.Type != refcodec.Rlerror {
		return failf("reply-undecodable:renegotiated", "%s: reply %x (%v)", what, raw[:min(len(raw), 32)], derr)
	}
	return probe()
}
