package checks

import (
	"fmt"
	"os"
	"path/filepath"
	"runtime"
	"sort"
	"strings"
	"sync"
	"sync/atomic"
	"testing"

	"p9verif/evid"

	"github.com/hugelgupf/p9/fsimpl/composefs"
	"github.com/hugelgupf/p9/fsimpl/localfs"
	"github.com/hugelgupf/p9/fsimpl/staticfs"
	"github.com/hugelgupf/p9/p9"
	"pgregory.net/rapid"
)

// ---------------------------------------------------------------------------
// C19 — directory listing: every entry exactly once, QIDs agree with Walk/GetAttr

type listCase struct {
	FS      string `json:"fs"` // localfs | staticfs | composefs | composefs-nested | composefs-mount
	N       int    `json:"n"`  // number of entries
	NameLen int    `json:"name_len"`
	Via     string `json:"via"`   // direct | server
	Count   uint32 `json:"count"` // entries (direct) or bytes (server) per call
	Msize   uint32 `json:"msize"`
	Seed    uint64 `json:"seed"`
}

func listNames(c listCase) []string {
	const charset = "abcdefghijklmnopqrstuvwxyz0123456789-_"
	r := newSplitMix(c.Seed)
	var out []string
	for i := 0; i < c.N; i++ {
		l := c.NameLen
		if l <= 0 {
			l = 4 + int(r.next()%37)
		}
		// the index in base 38 makes the name unique; the rest is random
		w := 4
		if l < w {
			w = l
		}
		space := 1
		for k := 0; k < w; k++ {
			space *= len(charset)
		}
		if i >= space {
			break // the name space of this length is exhausted
		}
		b := make([]byte, l)
		for k := range b {
			b[k] = charset[r.next()%uint64(len(charset))]
		}
		v := i
		for k := 0; k < w; k++ {
			b[l-1-k] = charset[v%len(charset)]
			v /= len(charset)
		}
		out = append(out, string(b))
	}
	return out
}

// buildFS returns the attacher, the path (below the attach point) of the
// directory to list, the ground-truth names and a cleanup function.
func buildFS(c listCase) (p9.Attacher, []string, []string, func(), *fail) {
	names := listNames(c)
	cleanup := func() {}
	mkLocal := func() (string, *fail) {
		dir, err := os.MkdirTemp("", "p9verif-c19-")
		if err != nil {
			return "", failf("harness-tmp", "HARNESS-ERROR %v", err)
		}
		for i, n := range names {
			p := filepath.Join(dir, n)
			var err error
			switch i % 7 {
			case 3:
				err = os.Mkdir(p, 0o755)
			case 5:
				err = os.Symlink("target", p)
			default:
				err = os.WriteFile(p, []byte(n), 0o644)
			}
			if err != nil {
				os.RemoveAll(dir)
				return "", failf("harness-tmp", "HARNESS-ERROR %v", err)
			}
		}
		return dir, nil
	}
	switch c.FS {
	case "localfs":
		dir, f := mkLocal()
		if f != nil {
			return nil, nil, nil, cleanup, f
		}
		return localfs.Attacher(dir), nil, names, func() { os.RemoveAll(dir) }, nil
	case "staticfs":
		var opts []staticfs.Option
		for _, n := range names {
			opts = append(opts, staticfs.WithFile(n, "content-"+n))
		}
		a, err := staticfs.New(opts...)
		if err != nil {
			return nil, nil, nil, cleanup, failf("harness-static", "HARNESS-ERROR %v", err)
		}
		return a, nil, names, cleanup, nil
	case "composefs":
		var opts []composefs.Opt
		for i, n := range names {
			if i%5 == 2 {
				opts = append(opts, composefs.WithDir(n, composefs.WithFile("inner", staticfs.ReadOnlyFile("x"))))
			} else {
				opts = append(opts, composefs.WithFile(n, staticfs.ReadOnlyFile("content-"+n)))
			}
		}
		fs, err := composefs.New(opts...)
		if err != nil {
			return nil, nil, nil, cleanup, failf("harness-compose", "HARNESS-ERROR %v", err)
		}
		return fs, nil, names, cleanup, nil
	case "composefs-nested":
		var inner []composefs.Opt
		for _, n := range names {
			inner = append(inner, composefs.WithFile(n, staticfs.ReadOnlyFile("content-"+n)))
		}
		fs, err := composefs.New(composefs.WithFile("top", staticfs.ReadOnlyFile("t")), composefs.WithDir("sub", inner...))
		if err != nil {
			return nil, nil, nil, cleanup, failf("harness-compose", "HARNESS-ERROR %v", err)
		}
		return fs, []string{"sub"}, names, cleanup, nil
	case "composefs-static-mount":
		var opts []staticfs.Option
		for _, n := range names {
			opts = append(opts, staticfs.WithFile(n, "content-"+n))
		}
		a, err := staticfs.New(opts...)
		if err != nil {
			return nil, nil, nil, cleanup, failf("harness-static", "HARNESS-ERROR %v", err)
		}
		fs, err := composefs.New(composefs.WithFile("top", staticfs.ReadOnlyFile("t")), composefs.WithMount("smnt", a))
		if err != nil {
			return nil, nil, nil, cleanup, failf("harness-compose", "HARNESS-ERROR %v", err)
		}
		return fs, []string{"smnt"}, names, cleanup, nil
	default: // composefs-mount
		dir, f := mkLocal()
		if f != nil {
			return nil, nil, nil, cleanup, f
		}
		fs, err := composefs.New(composefs.WithFile("top", staticfs.ReadOnlyFile("t")), composefs.WithMount("mnt", localfs.Attacher(dir)))
		if err != nil {
			os.RemoveAll(dir)
			return nil, nil, nil, cleanup, failf("harness-compose", "HARNESS-ERROR %v", err)
		}
		return fs, []string{"mnt"}, names, func() { os.RemoveAll(dir) }, nil
	}
}

type listStats struct {
	calls int
}

func runListCase(c listCase, st *listStats) *fail {
	att, sub, names, cleanup, f := buildFS(c)
	defer cleanup()
	if f != nil {
		return f
	}
	var root p9.File
	closers := []func(){}
	defer func() {
		for _, fn := range closers {
			fn()
		}
	}()
	if c.Via == "server" {
		srv := p9.NewServer(att)
		cl, closeFn, err := dialPipe(srv, p9.WithMessageSize(c.Msize))
		if err != nil {
			return failf("harness-dial", "HARNESS-ERROR %v", err)
		}
		closers = append(closers, closeFn)
		root, err = cl.Attach("")
		if err != nil {
			return failf("harness-attach", "HARNESS-ERROR %v", err)
		}
	} else {
		var err error
		root, err = att.Attach()
		if err != nil {
			return failf("harness-attach", "HARNESS-ERROR %v", err)
		}
	}
	defer runtime.KeepAlive(root)
	dirw := root
	if len(sub) > 0 {
		_, d, err := root.Walk(sub)
		if err != nil {
			return failf("harness-walk", "HARNESS-ERROR walk %v: %v", sub, err)
		}
		dirw = d
		defer runtime.KeepAlive(d)
	}
	// a handle for listing (opened) and one for walking
	_, lister, err := dirw.Walk(nil)
	if err != nil {
		return failf("harness-clone", "HARNESS-ERROR %v", err)
	}
	defer runtime.KeepAlive(lister)
	if _, _, err := lister.Open(p9.ReadOnly); err != nil {
		return failf("harness-open", "HARNESS-ERROR open directory: %v", err)
	}
	what := fmt.Sprintf("%s with %d entries (names of %d bytes), %s, count %d, msize %d", c.FS, len(names), c.NameLen, c.Via, c.Count, c.Msize)
	for pass := 0; pass < 2; pass++ {
		if pass == 1 {
			what += " (second listing of the same directory)"
		}
		got := map[string]int{}
		var all []p9.Dirent
		offset := uint64(0)
		for iter := 0; ; iter++ {
			if iter > len(names)+10 {
				return failf("listing-does-not-terminate:"+c.FS, "%s: more than %d Readdir calls", what, len(names)+10)
			}
			ents, err := lister.Readdir(offset, c.Count)
			if err != nil {
				return failf("readdir-error:"+c.FS, "%s: Readdir(offset=%d) failed: %v", what, offset, err)
			}
			if st != nil {
				st.calls++
			}
			if len(ents) == 0 {
				break
			}
			for _, e := range ents {
				got[e.Name]++
				all = append(all, e)
			}
			offset = ents[len(ents)-1].Offset
		}
		want := append([]string{}, names...)
		sort.Strings(want)
		var missing, dup, extra []string
		for _, n := range want {
			switch {
			case got[n] == 0:
				missing = append(missing, n)
			case got[n] > 1:
				dup = append(dup, n)
			}
		}
		wantSet := map[string]bool{}
		for _, n := range want {
			wantSet[n] = true
		}
		for n := range got {
			if !wantSet[n] {
				extra = append(extra, n)
			}
		}
		if len(missing)+len(dup)+len(extra) > 0 {
			return failf("listing-incomplete:"+c.FS, "%s: paged listing in %d calls: %d entries missing (%.120s), %d listed more than once (%.120s), %d unknown (%.120s)", what, 0, len(missing), strings.Join(missing, ","), len(dup), strings.Join(dup, ","), len(extra), strings.Join(extra, ","))
		}
		// QID / type agreement with Walk and GetAttr (sampled for large directories)
		step := 1
		if len(all) > 60 {
			step = len(all) / 60
		}
		for i := 0; i < len(all); i += step {
			e := all[i]
			qs, f2, err := dirw.Walk([]string{e.Name})
			if err != nil || len(qs) != 1 {
				return failf("walk-to-listed-entry-failed:"+c.FS, "%s: Walk(%q) after listing it: %v (%d QIDs)", what, e.Name, err, len(qs))
			}
			q, _, attr, err := f2.GetAttr(p9.AttrMaskAll)
			f2.Close()
			if err != nil {
				return failf("getattr-of-listed-entry-failed:"+c.FS, "%s: GetAttr(%q): %v", what, e.Name, err)
			}
			if e.QID != qs[0] || e.QID != q {
				return failf("qid-disagreement:"+c.FS, "%s: entry %q is listed with QID %v, Walk returns %v, GetAttr returns %v", what, e.Name, e.QID, qs[0], q)
			}
			if e.Type != q.Type || e.Type != attr.Mode.QIDType() {
				return failf("type-disagreement:"+c.FS, "%s: entry %q is listed with type %#x, its QID has type %#x, its mode %#o means %#x", what, e.Name, uint8(e.Type), uint8(q.Type), uint32(attr.Mode), uint8(attr.Mode.QIDType()))
			}
		}
	}
	return nil
}

// runConcListCase: several handles list the same (never listed before)
// directory at the same moment; every listing must be complete and every
// listed QID must be the one Walk and GetAttr report.
func runConcListCase(c listCase, listers int) *fail {
	att, sub, names, cleanup, f := buildFS(c)
	defer cleanup()
	if f != nil {
		return f
	}
	var root p9.File
	if c.Via == "server" {
		cl, closeFn, err := dialPipe(p9.NewServer(att), p9.WithMessageSize(c.Msize))
		if err != nil {
			return failf("harness-dial", "HARNESS-ERROR %v", err)
		}
		defer closeFn()
		if root, err = cl.Attach(""); err != nil {
			return failf("harness-attach", "HARNESS-ERROR %v", err)
		}
	} else {
		var err error
		if root, err = att.Attach(); err != nil {
			return failf("harness-attach", "HARNESS-ERROR %v", err)
		}
	}
	defer runtime.KeepAlive(root)
	dirw := root
	if len(sub) > 0 {
		_, d, err := root.Walk(sub)
		if err != nil {
			return failf("harness-walk", "HARNESS-ERROR walk %v: %v", sub, err)
		}
		dirw = d
		defer runtime.KeepAlive(d)
	}
	what := fmt.Sprintf("%s with %d entries, %s, %d concurrent first listings", c.FS, len(names), c.Via, listers)
	handles := make([]p9.File, listers)
	for i := range handles {
		_, l, err := dirw.Walk(nil)
		if err != nil {
			return failf("harness-clone", "HARNESS-ERROR %v", err)
		}
		if _, _, err := l.Open(p9.ReadOnly); err != nil {
			return failf("harness-open", "HARNESS-ERROR %v", err)
		}
		handles[i] = l
		defer l.Close()
	}
	results := make([][]p9.Dirent, listers)
	errs := make([]error, listers)
	var arrived int64
	var wg sync.WaitGroup
	for i := range handles {
		wg.Add(1)
		go func(i int) {
			defer wg.Done()
			atomic.AddInt64(&arrived, 1)
			for spins := 0; atomic.LoadInt64(&arrived) < int64(listers); spins++ {
				if spins > 100 {
					runtime.Gosched()
				}
			}
			offset := uint64(0)
			for iter := 0; iter < len(names)+10; iter++ {
				ents, err := handles[i].Readdir(offset, c.Count)
				if err != nil {
					errs[i] = err
					return
				}
				if len(ents) == 0 {
					return
				}
				results[i] = append(results[i], ents...)
				offset = ents[len(ents)-1].Offset
			}
		}(i)
	}
	wg.Wait()
	truth := map[string]p9.QID{}
	for i := range results {
		if errs[i] != nil {
			return failf("readdir-error:"+c.FS, "%s: listing %d failed: %v", what, i, errs[i])
		}
		if len(results[i]) != len(names) {
			return failf("listing-incomplete:"+c.FS+":concurrent", "%s: listing %d has %d entries", what, i, len(results[i]))
		}
		step := 1
		if len(results[i]) > 500 {
			step = len(results[i]) / 500
		}
		for k, e := range results[i] {
			q, ok := truth[e.Name]
			if !ok {
				if k%step != 0 && i > 0 {
					continue
				}
				qs, f2, err := dirw.Walk([]string{e.Name})
				if err != nil || len(qs) != 1 {
					return failf("walk-to-listed-entry-failed:"+c.FS, "%s: Walk(%q): %v", what, e.Name, err)
				}
				gq, _, _, err := f2.GetAttr(p9.AttrMaskAll)
				f2.Close()
				if err != nil || gq != qs[0] {
					return failf("qid-disagreement:"+c.FS+":concurrent", "%s: Walk(%q) returns %v, GetAttr %v (%v)", what, e.Name, qs[0], gq, err)
				}
				q = qs[0]
				truth[e.Name] = q
			}
			if e.QID != q {
				return failf("qid-disagreement:"+c.FS+":concurrent", "%s: listing %d shows entry %q with QID %v, Walk and GetAttr report %v", what, i, e.Name, e.QID, q)
			}
		}
	}
	return nil
}

func genListCase(rt *rapid.T, maxN int) listCase {
	c := listCase{FS: rapid.SampledFrom([]string{"localfs", "localfs", "staticfs", "composefs", "composefs-nested", "composefs-mount", "composefs-static-mount"}).Draw(rt, "fs"),
		Via: rapid.SampledFrom([]string{"direct", "server", "server"}).Draw(rt, "via"), Seed: rapid.Uint64Range(1, 1<<40).Draw(rt, "seed")}
	c.N = rapid.SampledFrom([]int{0, 1, 2, 3, 10, 100, 1000, maxN}).Draw(rt, "n")
	if c.N > maxN {
		c.N = maxN
	}
	c.NameLen = rapid.SampledFrom([]int{0, 0, 1, 2, 8, 60, 255}).Draw(rt, "namelen")
	if strings.HasPrefix(c.FS, "composefs") && c.N > 300 {
		c.N = 300
		// a mounted local directory may be large: more files than any table a
		// QID mapper might bound itself to
		if c.FS == "composefs-mount" && rapid.Bool().Draw(rt, "bigmount") {
			c.N = rapid.SampledFrom([]int{1030, 1500, 2100}).Draw(rt, "nbig")
		}
	}
	maxName := c.NameLen
	if maxName == 0 {
		maxName = 40
	}
	c.Msize = rapid.SampledFrom([]uint32{330, 400, 512, 4096, 65536, 1 << 20}).Draw(rt, "msize")
	if c.Via == "direct" {
		c.Count = rapid.SampledFrom([]uint32{1, 2, 3, 10, 1000, 1 << 31}).Draw(rt, "count")
	} else {
		one := uint32(24 + maxName)
		if c.Msize < one+11+30 {
			c.Msize = 4096
		}
		c.Count = rapid.SampledFrom([]uint32{one, one + 1, 2 * one, 3*one + 5, 1000, c.Msize - 11, c.Msize, c.Msize + 1, 10 * c.Msize, 1<<32 - 1}).Draw(rt, "count")
		if c.Count < one {
			c.Count = one
		}
	}
	return c
}

func init() {
	replayRegistrars = append(replayRegistrars, func() {
		registerReplay("C19/replaced-mounts", runReplaceCase)
		registerReplay("C19/listings", func(c listCase) *fail { return runListCase(c, nil) })
		registerReplay("C19/concurrent-listings", func(c listCase) *fail { return runConcListCase(c, 4) })
	})
}

func TestC19(t *testing.T) {
	h := begin(t, "C19")
	defer h.Finish()
	env := h.Env
	// what a mount of a composed root is backed by is replaced between listings
	rapidCases(h, "replaced-mounts", env.PerShard(env.Pick(320, 16000)), func(rt *rapid.T) replaceCase {
		c := replaceCase{Server: rapid.Bool().Draw(rt, "server"), Count: rapid.SampledFrom([]uint32{40, 64, 4096}).Draw(rt, "count")}
		for i := rapid.IntRange(1, 4).Draw(rt, "n"); i > 0; i-- {
			c.Steps = append(c.Steps, rapid.SampledFrom([]string{"replace-dir", "replace-file", "file-to-dir", "dir-to-file", "touch", "list"}).Draw(rt, "step"))
		}
		return c
	}, func(c replaceCase) *fail {
		h.Case(evid.HashJSON(c), true, "replaced-mounts")
		if h.WantSample("replaced-mounts") {
			h.Sample("replaced-mounts", c)
		}
		return runReplaceCase(c)
	})
	if env.Shard == 0 {
		for _, fs := range []string{"localfs", "staticfs", "composefs", "composefs-nested", "composefs-mount", "composefs-static-mount"} {
			for _, n := range []int{0, 1, 2, 3, 10, 100} {
				for _, via := range []string{"direct", "server"} {
					for _, cnt := range []uint32{1, 3, 10, 100} {
						c := listCase{FS: fs, N: n, NameLen: 12, Via: via, Count: cnt, Msize: 8192, Seed: 7}
						if via == "server" {
							c.Count = cnt * 36 // bytes: 24 + 12 per entry
						}
						st := &listStats{}
						f := runListCase(c, st)
						h.Case(evid.HashJSON(c), st.calls > 2, "enumerated:"+fs+":"+via)
						if f != nil && strings.HasPrefix(f.Sig, "harness-") {
							t.Errorf("HARNESS-ERROR %s", f.Msg)
							continue
						}
						if h.report("listings", f, c) {
							return
						}
					}
				}
			}
		}
		h.Exhaustive("6 file systems x sizes {0,1,2,3,10,100} x {direct, server} x 4 page sizes")
	}
	// concurrent first listings of one directory (the QID tables behind a mount are cold)
	for rep := 0; rep < env.Pick(16, 160)/env.NShards+1; rep++ {
		for _, fsk := range []string{"composefs-mount", "composefs-static-mount", "composefs", "localfs"} {
			for _, via := range []string{"direct", "server"} {
				c := listCase{FS: fsk, N: 1500, NameLen: 6, Via: via, Count: 1 << 20, Msize: 1 << 20, Seed: uint64(100 + rep*16 + env.Shard)}
				if fsk != "composefs-mount" && fsk != "localfs" {
					c.N = 300
				}
				f := runConcListCase(c, 4)
				h.Case(evid.HashJSON(c), true, "concurrent-first-listings:"+fsk)
				if f != nil && strings.HasPrefix(f.Sig, "harness-") {
					t.Errorf("HARNESS-ERROR %s", f.Msg)
					continue
				}
				if h.report("concurrent-listings", f, c) {
					return
				}
			}
		}
	}
	rapidCases(h, "listings", env.PerShard(env.Pick(1600, 16000)), func(rt *rapid.T) listCase {
		return genListCase(rt, env.Pick(1000, 5000))
	}, func(c listCase) *fail {
		st := &listStats{}
		f := runListCase(c, st)
		h.Case(evid.HashJSON(c), st.calls > 2, "listings:"+c.FS+":"+c.Via)
		if st.calls > 2 {
			h.Count("listings:needed>=2-pages", 1)
		}
		if st.calls > 3 && h.WantSample("listings") {
			h.Sample("listings", c)
		}
		return f
	})
}
