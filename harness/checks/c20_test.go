package checks

import (
	"encoding/binary"
	"fmt"
	"os"
	"os/exec"
	"path/filepath"
	"runtime"
	"strings"
	"sync"
	"sync/atomic"
	"syscall"
	"testing"
	"time"

	"p9verif/evid"
	"p9verif/memfs"

	"github.com/hugelgupf/p9/fsimpl/composefs"
	"github.com/hugelgupf/p9/fsimpl/localfs"
	"github.com/hugelgupf/p9/fsimpl/qids"
	"github.com/hugelgupf/p9/fsimpl/staticfs"
	"github.com/hugelgupf/p9/p9"
	"pgregory.net/rapid"
)

// ---------------------------------------------------------------------------
// C20 — QID identity and mode mapping

var p9Types = []p9.FileMode{p9.ModeRegular, p9.ModeDirectory, p9.ModeSymlink, p9.ModeSocket,
	p9.ModeNamedPipe, p9.ModeCharacterDevice, p9.ModeBlockDevice}

var osTypes = []os.FileMode{0, os.ModeDir, os.ModeSymlink, os.ModeSocket, os.ModeNamedPipe,
	os.ModeDevice | os.ModeCharDevice, os.ModeDevice}

type modeCase struct {
	Type uint32 `json:"type"`
	Perm uint32 `json:"perm"`
	Dir  string `json:"dir"` // "p9->os->p9" or "os->p9->os"
}

func u32b(vs ...uint32) []byte {
	b := make([]byte, 0, 4*len(vs))
	for _, v := range vs {
		b = binary.LittleEndian.AppendUint32(b, v)
	}
	return b
}

func u64b(vs ...uint64) []byte {
	b := make([]byte, 0, 8*len(vs))
	for _, v := range vs {
		b = binary.LittleEndian.AppendUint64(b, v)
	}
	return b
}

func runModeCase(c modeCase) *fail {
	if c.Dir == "p9->os->p9" {
		m := p9.FileMode(c.Type | c.Perm)
		om := m.OSMode()
		back := p9.ModeFromOS(om)
		if back != m {
			return failf("mode-roundtrip-p9", "ModeFromOS(OSMode(%#o)) = %#o (os mode %v)", uint32(m), uint32(back), om)
		}
		qt := m.QIDType()
		if (qt&p9.TypeDir != 0) != m.IsDir() {
			return failf("qidtype-dir", "mode %#o: QID type %#x, directory bit must be set iff directory", uint32(m), uint8(qt))
		}
		if (qt&p9.TypeSymlink != 0) != m.IsSymlink() {
			return failf("qidtype-symlink", "mode %#o: QID type %#x, symlink bit must be set iff symlink", uint32(m), uint8(qt))
		}
		return nil
	}
	// os -> p9 -> os: perm bits carry rwx in the low 9 bits and the three
	// special bits as 04000/02000/01000.
	om := os.FileMode(c.Type) | os.FileMode(c.Perm&0o777)
	if c.Perm&0o4000 != 0 {
		om |= os.ModeSetuid
	}
	if c.Perm&0o2000 != 0 {
		om |= os.ModeSetgid
	}
	if c.Perm&0o1000 != 0 {
		om |= os.ModeSticky
	}
	m := p9.ModeFromOS(om)
	back := m.OSMode()
	if back != om {
		return failf("mode-roundtrip-os", "OSMode(ModeFromOS(%v)) = %v (p9 mode %#o)", om, back, uint32(m))
	}
	return nil
}

type devinoCase struct {
	Pairs [][2]uint64 `json:"pairs"` // (dev, ino) looked up in this order; repeats allowed
}

func compactPair(dev, ino uint64) bool {
	// independent statement of the compact domain: inode below 2^39, no
	// device bits above bit 31, Linux major (bits 8..19 | 32..) < 2^12 and
	// minor (bits 0..7 | 20..31) < 2^12.
	if ino >= 1<<39 || dev>>32 != 0 {
		return false
	}
	major := (dev >> 8) & 0xfff
	minor := (dev & 0xff) | ((dev >> 12) & 0xfff00)
	return major < 1<<12 && minor < 1<<12
}

var (
	c20mu     sync.Mutex
	c20byPair = map[[2]uint64]map[uint64]bool{}
)

// runDevinoCase checks stability and injectivity within one case (the
// mapping's own state persists across cases, so a case is a pure function of
// the code), and records every observation for the cross-case analysis.
func runDevinoCase(c devinoCase) *fail {
	byPair := map[[2]uint64]uint64{}
	byPath := map[uint64][2]uint64{}
	for _, p := range c.Pairs {
		q := localfs.VerifQIDPath(p[0], p[1])
		c20mu.Lock()
		if c20byPair[p] == nil {
			c20byPair[p] = map[uint64]bool{}
		}
		c20byPair[p][q] = true
		c20mu.Unlock()
		if prev, ok := byPair[p]; ok && prev != q {
			return failf("localfs-qid-unstable", "(dev=%#x, ino=%#x) mapped to path %#x earlier and to %#x now", p[0], p[1], prev, q)
		}
		if other, ok := byPath[q]; ok && other != p {
			return failf("localfs-qid-collision", "(dev=%#x, ino=%#x) and (dev=%#x, ino=%#x) both map to path %#x", p[0], p[1], other[0], other[1], q)
		}
		byPair[p] = q
		byPath[q] = p
	}
	return nil
}

// devinoGlobal analyses all observations of the run: one path per pair, one
// pair per path.
func devinoGlobal() (*fail, devinoCase) {
	c20mu.Lock()
	defer c20mu.Unlock()
	byPath := map[uint64][2]uint64{}
	for p, qs := range c20byPair {
		if len(qs) > 1 {
			return failf("localfs-qid-unstable", "(dev=%#x, ino=%#x) mapped to %d different paths over the run", p[0], p[1], len(qs)), devinoCase{Pairs: [][2]uint64{p, p}}
		}
		for q := range qs {
			if other, ok := byPath[q]; ok && other != p {
				return failf("localfs-qid-collision", "(dev=%#x, ino=%#x) and (dev=%#x, ino=%#x) both map to path %#x", p[0], p[1], other[0], other[1], q), devinoCase{Pairs: [][2]uint64{other, p}}
			}
			byPath[q] = p
		}
	}
	return nil, devinoCase{}
}

func genU64Boundary(rt *rapid.T, label string) uint64 {
	switch rapid.IntRange(0, 9).Draw(rt, label+"k") {
	case 0:
		return rapid.Uint64Range(0, 16).Draw(rt, label)
	case 1:
		return uint64(1)<<rapid.IntRange(0, 63).Draw(rt, label+"s") - uint64(rapid.IntRange(0, 1).Draw(rt, label+"m"))
	case 2:
		return uint64(1)<<rapid.IntRange(0, 63).Draw(rt, label+"s") + rapid.Uint64Range(0, 3).Draw(rt, label)
	case 3:
		return ^uint64(0) - rapid.Uint64Range(0, 3).Draw(rt, label)
	case 4:
		return rapid.Uint64Range(1<<39-4, 1<<39+4).Draw(rt, label)
	default:
		return rapid.Uint64().Draw(rt, label)
	}
}

func genDev(rt *rapid.T, label string) uint64 {
	switch rapid.IntRange(0, 5).Draw(rt, label+"k") {
	case 0: // ordinary small device
		return rapid.Uint64Range(0, 0xfffff).Draw(rt, label)
	case 1: // large minor (bits 20..31)
		return rapid.Uint64Range(0, 0xffffffff).Draw(rt, label)
	case 2: // high bits set
		return rapid.Uint64Range(0, 0xfff).Draw(rt, label)<<32 | rapid.Uint64Range(0, 0xffffffff).Draw(rt, label+"l")
	default:
		return genU64Boundary(rt, label)
	}
}

func genDevinoCase(rt *rapid.T) devinoCase {
	n := rapid.IntRange(1, 6).Draw(rt, "n")
	var c devinoCase
	for i := 0; i < n; i++ {
		var p [2]uint64
		if i > 0 && rapid.IntRange(0, 3).Draw(rt, "rel") == 0 {
			// near collision with / repetition of an earlier pair
			p = c.Pairs[rapid.IntRange(0, i-1).Draw(rt, "prev")]
			switch rapid.IntRange(0, 2).Draw(rt, "mut") {
			case 0:
			case 1:
				p[0] ^= 1 << rapid.IntRange(0, 63).Draw(rt, "bit")
			case 2:
				p[1] ^= 1 << rapid.IntRange(0, 63).Draw(rt, "bit")
			}
		} else {
			p = [2]uint64{genDev(rt, "dev"), genU64Boundary(rt, "ino")}
		}
		c.Pairs = append(c.Pairs, p)
	}
	return c
}

// mapperCase drives qids.Mapper sequentially.
type mapperCase struct {
	Paths []uint64 `json:"paths"`
	// Long > 0: the history is generated instead - five early paths, Long other
	// paths (each seen by both mappers), the early ones again now and then and at the end
	Long int `json:"long_history,omitempty"`
}

func longMapperHistory(n int) []uint64 {
	var ps []uint64
	early := []uint64{7, 1 << 40, 3, 0xffffffffffffffff, 0}
	ps = append(ps, early...)
	ps = append(ps, early...)
	for i := 0; i < n; i++ {
		ps = append(ps, uint64(1000+i), uint64(1000+i))
		if i%9973 == 0 {
			ps = append(ps, early[i%len(early)], early[i%len(early)])
		}
	}
	ps = append(ps, early...)
	return append(ps, early...)
}

func runMapperCase(c mapperCase) *fail {
	if c.Long > 0 {
		c.Paths = longMapperHistory(c.Long)
	}
	g := &qids.PathGenerator{}
	m1, m2 := qids.NewMapper(g), qids.NewMapper(g)
	type key struct {
		m int
		p uint64
	}
	seen := map[key]uint64{}
	owner := map[uint64]key{}
	for i, p := range c.Paths {
		mi := i % 2
		mp := m1
		if mi == 1 {
			mp = m2
		}
		in := p9.QID{Type: p9.QIDType(p), Version: uint32(p >> 8), Path: p}
		out := mp.QIDFor(in)
		if out.Type != in.Type || out.Version != in.Version {
			return failf("mapper-type", "QIDFor(%v) changed type/version: %v", in, out)
		}
		k := key{mi, p}
		if prev, ok := seen[k]; ok && prev != out.Path {
			return failf("mapper-unstable", "source path %#x mapped to %#x earlier and %#x now", p, prev, out.Path)
		}
		if o, ok := owner[out.Path]; ok && o != k {
			return failf("mapper-collision", "source paths %#x (mapper %d) and %#x (mapper %d) share path %#x", p, mi, o.p, o.m, out.Path)
		}
		seen[k] = out.Path
		owner[out.Path] = k
	}
	return nil
}

// ---------------------------------------------------------------------------
// concurrent lookups run in a child process so that a fatal runtime abort
// ("concurrent map read and map write") is an observed exit status.

func runChild(testName string, env map[string]string, timeout time.Duration) (int, string, bool) {
	cmd := exec.Command(os.Args[0], "-test.run", "^"+testName+"$", "-test.timeout", fmt.Sprintf("%ds", int(timeout.Seconds())+30))
	cmd.Env = os.Environ()
	for k, v := range env {
		cmd.Env = append(cmd.Env, k+"="+v)
	}
	cmd.Env = append(cmd.Env, "VERIF_CHILD=1")
	var out strings.Builder
	cmd.Stdout = &out
	cmd.Stderr = &out
	if err := cmd.Start(); err != nil {
		return -1, err.Error(), false
	}
	done := make(chan error, 1)
	go func() { done <- cmd.Wait() }()
	select {
	case err := <-done:
		code := 0
		if err != nil {
			code = -1
			if ee, ok := err.(*exec.ExitError); ok {
				code = ee.ExitCode()
			}
		}
		return code, out.String(), true
	case <-time.After(timeout):
		cmd.Process.Signal(syscall.SIGQUIT)
		select {
		case <-done:
		case <-time.After(5 * time.Second):
			cmd.Process.Kill()
			<-done
		}
		return -2, out.String(), false
	}
}

type mapperConcCase struct {
	Seed       uint64 `json:"seed"`
	Goroutines int    `json:"goroutines"`
	Paths      int    `json:"paths"`
	Rounds     int    `json:"rounds"`
	Via        string `json:"via"` // "direct" | "composefs" | "staticfs"
}

// TestC20MapperChild is the child-process body; it reads its case from env.
func TestC20MapperChild(t *testing.T) {
	if os.Getenv("VERIF_CHILD") == "" {
		t.Skip("child only")
	}
	var c mapperConcCase
	fmt.Sscanf(os.Getenv("VERIF_CASE"), "%d,%d,%d,%d,%s", &c.Seed, &c.Goroutines, &c.Paths, &c.Rounds, &c.Via)
	if f := mapperConcBody(c); f != nil {
		fmt.Printf("CHILD-VIOLATION [%s] %s\n", f.Sig, f.Msg)
		t.Fail()
	}
}

func mapperConcBody(c mapperConcCase) *fail {
	switch c.Via {
	case "barrier":
		// every fresh source path is looked up by all goroutines at the same
		// moment (spin barrier per path): the window between "not found" and
		// "inserted" is hit thousands of times
		g := &qids.PathGenerator{}
		m := qids.NewMapper(g)
		G, N := c.Goroutines, c.Paths
		results := make([][]uint64, G)
		var arrived int64
		var wg sync.WaitGroup
		for gi := 0; gi < G; gi++ {
			results[gi] = make([]uint64, N)
			wg.Add(1)
			go func(gi int) {
				defer wg.Done()
				for p := 0; p < N; p++ {
					atomic.AddInt64(&arrived, 1)
					for spins := 0; atomic.LoadInt64(&arrived) < int64((p+1)*G); spins++ {
						// spin briefly, then yield so that a loaded machine still makes progress
						if spins > 100 {
							runtime.Gosched()
						}
					}
					results[gi][p] = m.QIDFor(p9.QID{Path: uint64(p) + 5000}).Path
				}
			}(gi)
		}
		wg.Wait()
		owner := map[uint64]int{}
		for p := 0; p < N; p++ {
			final := m.QIDFor(p9.QID{Path: uint64(p) + 5000}).Path
			for gi := 0; gi < G; gi++ {
				if results[gi][p] != final {
					return failf("mapper-concurrent-unstable", "source path %d: goroutine %d was given path %#x by a first lookup racing %d others, later lookups return %#x", p+5000, gi, results[gi][p], G-1, final)
				}
			}
			if o, ok := owner[final]; ok {
				return failf("mapper-concurrent-collision", "source paths %d and %d share mapped path %#x", o+5000, p+5000, final)
			}
			owner[final] = p
		}
		return nil
	case "direct":
		g := &qids.PathGenerator{}
		m := qids.NewMapper(g)
		results := make([][]uint64, c.Goroutines)
		var wg sync.WaitGroup
		start := make(chan struct{})
		for gi := 0; gi < c.Goroutines; gi++ {
			wg.Add(1)
			go func(gi int) {
				defer wg.Done()
				<-start
				res := make([]uint64, c.Paths)
				for r := 0; r < c.Rounds; r++ {
					for p := 0; p < c.Paths; p++ {
						// each goroutine visits the paths in a different rotation so
						// that fresh and known paths are looked up simultaneously
						src := uint64((p+gi*7)%c.Paths) + 1000
						out := m.QIDFor(p9.QID{Path: src}).Path
						idx := int(src - 1000)
						if res[idx] != 0 && res[idx] != out {
							res[idx] = ^uint64(0)
						} else if res[idx] == 0 {
							res[idx] = out
						}
					}
				}
				results[gi] = res
			}(gi)
		}
		close(start)
		wg.Wait()
		owner := map[uint64]int{}
		for p := 0; p < c.Paths; p++ {
			first := results[0][p]
			for gi := 0; gi < c.Goroutines; gi++ {
				if results[gi][p] == ^uint64(0) {
					return failf("mapper-concurrent-unstable", "goroutine %d saw source path %d mapped to two different paths", gi, p+1000)
				}
				if results[gi][p] != first {
					return failf("mapper-concurrent-unstable", "source path %d mapped to %#x for goroutine 0 and %#x for goroutine %d", p+1000, first, results[gi][p], gi)
				}
			}
			if o, ok := owner[first]; ok {
				return failf("mapper-concurrent-collision", "source paths %d and %d share mapped path %#x", o+1000, p+1000, first)
			}
			owner[first] = p
		}
		return nil
	default:
		return mapperConcViaServer(c)
	}
}

// mapperConcViaServer looks the same names up from several connections of one
// server whose attacher is a composefs (with a localfs mount) or a staticfs.
func mapperConcViaServer(c mapperConcCase) *fail {
	dir, err := os.MkdirTemp("", "p9verif-c20-")
	if err != nil {
		return failf("harness-tmp", "HARNESS-ERROR %v", err)
	}
	defer os.RemoveAll(dir)
	var names []string
	for i := 0; i < c.Paths; i++ {
		n := fmt.Sprintf("f%03d", i)
		names = append(names, n)
		if err := os.WriteFile(filepath.Join(dir, n), []byte(n), 0o644); err != nil {
			return failf("harness-tmp", "HARNESS-ERROR %v", err)
		}
	}
	var att p9.Attacher
	prefix := []string{}
	if c.Via == "composefs" {
		fs, err := composefs.New(composefs.WithMount("m", localfs.Attacher(dir)), composefs.WithFile("s", staticfs.ReadOnlyFile("x")))
		if err != nil {
			return failf("harness-compose", "HARNESS-ERROR %v", err)
		}
		att = fs
		prefix = []string{"m"}
	} else {
		var opts []staticfs.Option
		for _, n := range names {
			opts = append(opts, staticfs.WithFile(n, n))
		}
		a, err := staticfs.New(opts...)
		if err != nil {
			return failf("harness-static", "HARNESS-ERROR %v", err)
		}
		att = a
	}
	srv := p9.NewServer(att)
	results := make([][]uint64, c.Goroutines)
	errs := make([]error, c.Goroutines)
	var wg sync.WaitGroup
	start := make(chan struct{})
	for gi := 0; gi < c.Goroutines; gi++ {
		wg.Add(1)
		go func(gi int) {
			defer wg.Done()
			cl, closeFn, err := dialPipe(srv)
			if err != nil {
				errs[gi] = err
				return
			}
			defer closeFn()
			root, err := cl.Attach("")
			if err != nil {
				errs[gi] = err
				return
			}
			<-start
			res := make([]uint64, c.Paths)
			for r := 0; r < c.Rounds; r++ {
				for p := 0; p < c.Paths; p++ {
					idx := (p + gi*7) % c.Paths
					path := append(append([]string{}, prefix...), names[idx])
					qs, f, err := root.Walk(path)
					if err != nil {
						errs[gi] = fmt.Errorf("walk %v: %w", path, err)
						return
					}
					q, _, _, err := f.GetAttr(p9.AttrMask{Mode: true})
					f.Close()
					if err != nil {
						errs[gi] = fmt.Errorf("getattr %v: %w", path, err)
						return
					}
					out := qs[len(qs)-1].Path
					if q.Path != out {
						res[idx] = ^uint64(0)
						continue
					}
					if res[idx] != 0 && res[idx] != out {
						res[idx] = ^uint64(0)
					} else if res[idx] == 0 {
						res[idx] = out
					}
				}
			}
			results[gi] = res
		}(gi)
	}
	close(start)
	wg.Wait()
	for gi, e := range errs {
		if e != nil {
			return failf("mapper-server-error", "connection %d: %v", gi, e)
		}
	}
	owner := map[uint64]int{}
	for p := 0; p < c.Paths; p++ {
		first := results[0][p]
		for gi := 0; gi < c.Goroutines; gi++ {
			if results[gi][p] == ^uint64(0) || results[gi][p] != first {
				return failf("mapper-concurrent-unstable", "%s: name %s got different QID paths (%#x vs %#x, connection %d)", c.Via, names[p], first, results[gi][p], gi)
			}
		}
		if o, ok := owner[first]; ok {
			return failf("mapper-concurrent-collision", "%s: names %s and %s share QID path %#x", c.Via, names[o], names[p], first)
		}
		owner[first] = p
	}
	return nil
}

func runMapperConcCase(c mapperConcCase) *fail {
	env := map[string]string{"VERIF_CASE": fmt.Sprintf("%d,%d,%d,%d,%s", c.Seed, c.Goroutines, c.Paths, c.Rounds, c.Via)}
	code, out, finished := runChild("TestC20MapperChild", env, 600*time.Second)
	if !finished {
		// a time budget that ran out on a busy machine is inconclusive, never a verdict
		return failf("inconclusive-timeout", "child did not finish within its time budget: %s", tail(out, 300))
	}
	if code == 0 {
		return nil
	}
	if i := strings.Index(out, "CHILD-VIOLATION ["); i >= 0 {
		line := out[i:]
		if j := strings.IndexByte(line, '\n'); j >= 0 {
			line = line[:j]
		}
		sig := line[len("CHILD-VIOLATION ["):strings.IndexByte(line, ']')]
		return &fail{Sig: sig, Msg: line}
	}
	if strings.Contains(out, "fatal error: concurrent map") {
		return failf("mapper-concurrent-crash", "process died with a fatal map access error under concurrent lookups (%s): %s", c.Via, firstLines(out, "fatal error", 12))
	}
	if strings.Contains(out, "WARNING: DATA RACE") {
		return failf("mapper-data-race", "race detector report under concurrent lookups (%s): %s", c.Via, firstLines(out, "WARNING: DATA RACE", 30))
	}
	return failf("harness-child", "HARNESS-ERROR child exit %d: %s", code, tail(out, 3000))
}

func tail(s string, n int) string {
	if len(s) > n {
		return s[len(s)-n:]
	}
	return s
}

func firstLines(s, from string, n int) string {
	i := strings.Index(s, from)
	if i < 0 {
		i = 0
	}
	lines := strings.SplitN(s[i:], "\n", n+1)
	if len(lines) > n {
		lines = lines[:n]
	}
	return strings.Join(lines, "\n")
}

// realFilesCase: QID type / mode agreement on real files of several types.
// runWrappedNativeCase: the QID-translating wrapper around a mounted backend
// that implements WalkGetAttr itself (a p9 client file does, the in-tree file
// systems do not): every way of learning a file's QID through the mount -
// Walk, WalkGetAttr, GetAttr, Readdir - must give the same translated path, and
// distinct files distinct paths.
func runWrappedNativeCase(n int, twoMounts bool) *fail {
	mk := func() *memfs.FS {
		fs := memfs.New(memfs.Options{NativeWalkGetAttr: true})
		d, _ := fs.Tree.Mkdir(fs.Tree.Root, "sub", 0o755, 0, 0)
		for i := 0; i < n; i++ {
			fs.Tree.Create(fs.Tree.Root, fmt.Sprintf("f%d", i), 0o644, 0, 0)
			fs.Tree.Create(d, fmt.Sprintf("g%d", i), 0o644, 0, 0)
		}
		return fs
	}
	opts := []composefs.Opt{composefs.WithFile("top", staticfs.ReadOnlyFile("t")), composefs.WithMount("m1", mk())}
	mounts := []string{"m1"}
	if twoMounts {
		opts = append(opts, composefs.WithMount("m2", mk()))
		mounts = append(mounts, "m2")
	}
	cfs, err := composefs.New(opts...)
	if err != nil {
		return failf("harness-composefs", "HARNESS-ERROR %v", err)
	}
	root, err := cfs.Attach()
	if err != nil {
		return failf("harness-attach", "HARNESS-ERROR %v", err)
	}
	owner := map[uint64]string{}
	claim := func(q p9.QID, who string) *fail {
		if prev, ok := owner[q.Path]; ok && prev != who {
			return failf("mapper-collision:wrapped-native-backend", "%s and %s are distinct files with the same QID path %#x", prev, who, q.Path)
		}
		owner[q.Path] = who
		return nil
	}
	if qs, f, err := root.Walk([]string{"top"}); err == nil && len(qs) == 1 {
		f.Close()
		if f := claim(qs[0], "/top"); f != nil {
			return f
		}
	}
	for _, m := range mounts {
		_, md, err := root.Walk([]string{m})
		if err != nil {
			return failf("harness-walk", "HARNESS-ERROR walk %s: %v", m, err)
		}
		check := func(dir p9.File, prefix string, names []string) *fail {
			for _, nm := range names {
				who := prefix + "/" + nm
				qs, f1, err := dir.Walk([]string{nm})
				if err != nil || len(qs) != 1 {
					return failf("harness-walk", "HARNESS-ERROR Walk(%s): %v", who, err)
				}
				gq, _, _, err := f1.GetAttr(p9.AttrMaskAll)
				f1.Close()
				if err != nil {
					return failf("harness-getattr", "HARNESS-ERROR GetAttr(%s): %v", who, err)
				}
				wq, f2, _, _, err := dir.WalkGetAttr([]string{nm})
				if err != nil || len(wq) != 1 {
					return failf("harness-walkgetattr", "HARNESS-ERROR WalkGetAttr(%s): %v", who, err)
				}
				f2.Close()
				if qs[0] != gq || qs[0] != wq[0] {
					return failf("mapper-unstable:wrapped-native-backend", "%s: Walk reports QID path %#x, GetAttr %#x, WalkGetAttr %#x", who, qs[0].Path, gq.Path, wq[0].Path)
				}
				if f := claim(qs[0], who); f != nil {
					return f
				}
			}
			return nil
		}
		var top, below []string
		for i := 0; i < n; i++ {
			top = append(top, fmt.Sprintf("f%d", i))
			below = append(below, fmt.Sprintf("g%d", i))
		}
		top = append(top, "sub")
		if f := check(md, "/"+m, top); f != nil {
			return f
		}
		// two components in one WalkGetAttr, and the entries of the subdirectory
		wq, sd, _, _, err := md.WalkGetAttr([]string{"sub"})
		if err != nil || len(wq) != 1 {
			return failf("harness-walkgetattr", "HARNESS-ERROR WalkGetAttr(sub): %v", err)
		}
		if f := claim(wq[0], "/"+m+"/sub"); f != nil {
			return f
		}
		if f := check(sd, "/"+m+"/sub", below); f != nil {
			return f
		}
		// listing
		_, l, err := md.Walk(nil)
		if err == nil {
			if _, _, err := l.Open(p9.ReadOnly); err == nil {
				ents, _ := l.Readdir(0, 1<<20)
				for _, e := range ents {
					if f := claim(e.QID, "/"+m+"/"+e.Name); f != nil {
						f.Msg += " (Readdir)"
						return f
					}
				}
			}
			l.Close()
		}
	}
	// the composed root itself, listed in pages of 1 and 2 entries: every listed
	// QID is the one Walk reports for that name (one path per file, whichever way it is learnt)
	for _, page := range []uint32{1, 2, 1 << 20} {
		_, l, err := root.Walk(nil)
		if err != nil {
			return failf("harness-clone", "HARNESS-ERROR %v", err)
		}
		if _, _, err := l.Open(p9.ReadOnly); err != nil {
			l.Close()
			return failf("harness-open", "HARNESS-ERROR %v", err)
		}
		off := uint64(0)
		for iter := 0; iter < 100; iter++ {
			ents, err := l.Readdir(off, page)
			if err != nil || len(ents) == 0 {
				break
			}
			for _, e := range ents {
				qs, f1, err := root.Walk([]string{e.Name})
				if err != nil || len(qs) != 1 {
					l.Close()
					return failf("harness-walk", "HARNESS-ERROR Walk(%s): %v", e.Name, err)
				}
				f1.Close()
				if e.QID != qs[0] {
					l.Close()
					return failf("mapper-unstable:listing", "/%s is listed (pages of %d, offset %d) with QID path %#x type %#x, Walk reports path %#x type %#x", e.Name, page, off, e.QID.Path, uint8(e.QID.Type), qs[0].Path, uint8(qs[0].Type))
				}
				if f := claim(e.QID, "/"+e.Name); f != nil {
					l.Close()
					return f
				}
			}
			off = ents[len(ents)-1].Offset
		}
		l.Close()
	}
	return nil
}

func runRealFiles() *fail {
	dir, err := os.MkdirTemp("", "p9verif-c20r-")
	if err != nil {
		return failf("harness-tmp", "HARNESS-ERROR %v", err)
	}
	defer os.RemoveAll(dir)
	os.WriteFile(filepath.Join(dir, "reg"), []byte("x"), 0o644)
	os.Mkdir(filepath.Join(dir, "dir"), 0o755)
	os.Symlink("reg", filepath.Join(dir, "sym"))
	os.Symlink("dir", filepath.Join(dir, "symdir"))
	syscall.Mkfifo(filepath.Join(dir, "fifo"), 0o600)
	root, err := localfs.Attacher(dir).Attach()
	if err != nil {
		return failf("harness-attach", "HARNESS-ERROR %v", err)
	}
	for _, n := range []string{"reg", "dir", "sym", "symdir", "fifo"} {
		qs, f, err := root.Walk([]string{n})
		if err != nil {
			return failf("harness-walk", "HARNESS-ERROR walk %s: %v", n, err)
		}
		q, _, attr, err := f.GetAttr(p9.AttrMaskAll)
		if err != nil {
			return failf("harness-getattr", "HARNESS-ERROR getattr %s: %v", n, err)
		}
		if qs[0] != q {
			return failf("localfs-walk-getattr-qid", "%s: Walk QID %v, GetAttr QID %v", n, qs[0], q)
		}
		if (q.Type&p9.TypeDir != 0) != attr.Mode.IsDir() || (q.Type&p9.TypeSymlink != 0) != attr.Mode.IsSymlink() {
			return failf("localfs-qidtype-mode", "%s: QID type %#x disagrees with mode %#o", n, uint8(q.Type), uint32(attr.Mode))
		}
		f.Close()
	}
	return nil
}

func init() {
	replayRegistrars = append(replayRegistrars, func() {
		registerReplay("C20/modes", runModeCase)
		registerReplay("C20/nested", func(c nestCase) *fail { return runNestCase(c, nil) })
		registerReplay("C20/devino", runDevinoCase)
		registerReplay("C20/mapper-seq", runMapperCase)
		registerReplay("C20/mapper-conc", runMapperConcCase)
	})
}

func TestC20(t *testing.T) {
	h := begin(t, "C20")
	defer h.Finish()
	env := h.Env
	// generated compositions, nested up to three deep
	rapidCases(h, "nested", env.PerShard(env.Pick(1600, 60000)), func(rt *rapid.T) nestCase {
		return nestCase{Root: genNestNodes(rt, 1, "e"), Server: rapid.Bool().Draw(rt, "server")}
	}, func(c nestCase) *fail {
		st := &nestStats{}
		f := runNestCase(c, st)
		h.Case(evid.HashJSON(c), st.depth >= 2, "nested")
		h.Count("nested:files-identified", int64(st.files))
		if st.depth >= 2 && h.WantSample("nested") {
			h.Sample("nested", c)
		}
		return f
	})

	// (1) exhaustive mode round trips: only shard 0 enumerates (seed independent).
	if env.Shard == 0 {
		for ti := range p9Types {
			for perm := uint32(0); perm < 4096; perm++ {
				c := modeCase{Type: uint32(p9Types[ti]), Perm: perm, Dir: "p9->os->p9"}
				f := runModeCase(c)
				h.Case(evid.Hash64([]byte("m1"), u32b(c.Type, c.Perm)), true, "mode:p9->os->p9")
				if h.report("modes", f, c) {
					break
				}
				c2 := modeCase{Type: uint32(osTypes[ti]), Perm: perm, Dir: "os->p9->os"}
				f = runModeCase(c2)
				h.Case(evid.Hash64([]byte("m2"), u32b(c2.Type, c2.Perm)), true, "mode:os->p9->os")
				if h.report("modes", f, c2) {
					break
				}
			}
		}
		h.Exhaustive("all 7 file types x 4096 permission values, both directions")
		h.Sample("mode", modeCase{Type: uint32(p9.ModeDirectory), Perm: 0o1777, Dir: "p9->os->p9"})
		f := runRealFiles()
		h.Case(evid.Hash64([]byte("realfiles")), true, "localfs:real-files")
		h.report("realfiles", f, "real files: reg dir sym symdir fifo")
	}

	// (2) localfs (dev, ino) mapping.
	nPairs := env.PerShard(env.Pick(40000, 2000000))
	rapidCases(h, "devino", nPairs, genDevinoCase, func(c devinoCase) *fail {
		f := runDevinoCase(c)
		for _, p := range c.Pairs {
			cls := "devino:compact"
			nt := !compactPair(p[0], p[1])
			if nt {
				cls = "devino:outside-compact"
			}
			h.Case(evid.Hash64(u64b(p[0], p[1])), nt, cls)
		}
		if h.WantSample("devino") {
			h.Sample("devino", c)
		}
		return f
	})
	if gf, gc := devinoGlobal(); gf != nil {
		h.report("devino", gf, gc)
	}
	// concurrent stability of the localfs mapping
	{
		var wg sync.WaitGroup
		var cf *fail
		var cmu sync.Mutex
		pairs := [][2]uint64{{1 << 40, 5}, {7, 1 << 45}, {0xfff00000 | 3, 1 << 39}, {1<<32 | 1, 1}}
		got := make([][]uint64, 8)
		for g := 0; g < 8; g++ {
			wg.Add(1)
			go func(g int) {
				defer wg.Done()
				for r := 0; r < 200; r++ {
					for i, p := range pairs {
						q := localfs.VerifQIDPath(p[0], p[1]+uint64(env.Seed%7))
						if len(got[g]) <= i {
							got[g] = append(got[g], q)
						} else if got[g][i] != q {
							cmu.Lock()
							cf = failf("localfs-qid-unstable", "concurrent lookups: (dev=%#x, ino=%#x) mapped to %#x then %#x", p[0], p[1], got[g][i], q)
							cmu.Unlock()
						}
					}
				}
			}(g)
		}
		wg.Wait()
		if cf == nil {
			for g := 1; g < 8; g++ {
				for i := range pairs {
					if got[g][i] != got[0][i] {
						cf = failf("localfs-qid-unstable", "concurrent lookups: pair %d mapped to %#x and %#x by different goroutines", i, got[0][i], got[g][i])
					}
				}
			}
		}
		h.Case(evid.Hash64([]byte("devino-conc"), u64b(env.Seed)), true, "devino:concurrent")
		h.report("devino-conc", cf, pairs)
	}

	// concurrent FIRST lookups of pairs outside the compact encoding: all
	// goroutines look a fresh pair up at the same moment (spin barrier per
	// pair), so the window between "not found" and "stored" is hit many times
	{
		G, N := 8, env.Pick(3000, 40000)/env.NShards+1
		base := uint64(1)<<41 + uint64(env.Shard)<<32 + (env.Seed%1000)<<20
		results := make([][]uint64, G)
		var arrived int64
		var wg sync.WaitGroup
		for gi := 0; gi < G; gi++ {
			results[gi] = make([]uint64, N)
			wg.Add(1)
			go func(gi int) {
				defer wg.Done()
				for p := 0; p < N; p++ {
					atomic.AddInt64(&arrived, 1)
					for spins := 0; atomic.LoadInt64(&arrived) < int64((p+1)*G); spins++ {
						if spins > 100 {
							runtime.Gosched()
						}
					}
					results[gi][p] = localfs.VerifQIDPath(3, base+uint64(p))
				}
			}(gi)
		}
		wg.Wait()
		var cf *fail
		var bad [][2]uint64
		for p := 0; p < N && cf == nil; p++ {
			final := localfs.VerifQIDPath(3, base+uint64(p))
			for gi := 0; gi < G; gi++ {
				if results[gi][p] != final {
					cf = failf("localfs-qid-unstable:concurrent-first-lookups", "(dev=3, ino=%#x): a first lookup racing %d others was given path %#x, later lookups return %#x", base+uint64(p), G-1, results[gi][p], final)
					bad = [][2]uint64{{3, base + uint64(p)}}
					break
				}
			}
		}
		h.Case(evid.Hash64([]byte("devino-barrier"), u64b(env.Seed, uint64(env.Shard))), true, "devino:concurrent-first-lookups")
		h.Count("devino:pairs-first-looked-up-by-8-goroutines-at-once", int64(N))
		h.report("devino-conc", cf, bad)
	}

	// the translating wrapper over a backend with a WalkGetAttr of its own
	if env.Shard == 0 {
		for _, n := range []int{1, 3, 40} {
			for _, two := range []bool{false, true} {
				f := runWrappedNativeCase(n, two)
				h.Case(evid.Hash64([]byte("wrapped-native"), u32b(uint32(n)), []byte(fmt.Sprint(two))), true, "mapper:wrapped-native-backend")
				if f != nil && strings.HasPrefix(f.Sig, "harness-") {
					t.Errorf("HARNESS-ERROR %s", f.Msg)
					continue
				}
				if h.report("wrapped-native", f, map[string]any{"n": n, "two_mounts": two}) {
					return
				}
			}
		}
	}

	// (3a) "for good": long histories - tens of thousands to a million other
	// source paths pass through the mapper between two lookups of one path
	if env.Shard < 4 {
		for _, n := range []int{1100, 20000, 70000, env.Pick(150000, 1200000)}[env.Shard : env.Shard+1] {
			c := mapperCase{Long: n}
			f := runMapperCase(c)
			h.Case(evid.Hash64(u64b(uint64(n))), true, "mapper:long-history")
			if f != nil {
				f.Msg += fmt.Sprintf(" (after %d other source paths)", n)
				h.report("mapper-seq", f, c)
				return
			}
		}
	}
	// (3) mapper, sequential model
	rapidCases(h, "mapper-seq", env.PerShard(env.Pick(2000, 100000)), func(rt *rapid.T) mapperCase {
		n := rapid.IntRange(1, 30).Draw(rt, "n")
		var c mapperCase
		for i := 0; i < n; i++ {
			if i > 0 && rapid.Bool().Draw(rt, "rep") {
				c.Paths = append(c.Paths, c.Paths[rapid.IntRange(0, i-1).Draw(rt, "j")])
			} else {
				c.Paths = append(c.Paths, genU64Boundary(rt, "p"))
			}
		}
		return c
	}, func(c mapperCase) *fail {
		f := runMapperCase(c)
		distinct := map[uint64]bool{}
		for _, p := range c.Paths {
			distinct[p] = true
		}
		h.Case(evid.HashJSON(c), len(distinct) >= 2 && len(distinct) < len(c.Paths), "mapper:sequential")
		return f
	})

	// (4) mapper, concurrent, in child processes
	nConc := env.PerShard(env.Pick(12, 120))
	vias := []string{"direct", "composefs", "staticfs", "barrier"}
	for i := 0; i < nConc; i++ {
		c := mapperConcCase{Seed: env.Mix(fmt.Sprintf("conc%d", i)), Goroutines: 4 + int(env.Mix(fmt.Sprintf("g%d", i))%13),
			Paths: 16 + int(env.Mix(fmt.Sprintf("p%d", i))%200), Rounds: 3, Via: vias[(i+env.Shard)%4]}
		if c.Via == "barrier" {
			c.Goroutines = 4 + c.Goroutines%5
			c.Paths = env.Pick(6000, 24000)
		} else if c.Via != "direct" {
			c.Paths = 8 + c.Paths%40
			c.Goroutines = 2 + c.Goroutines%7
		}
		f := runMapperConcCase(c)
		if f != nil && f.Sig == "inconclusive-timeout" {
			h.Count("mapper:concurrent:inconclusive (time budget ran out, not counted)", 1)
			continue
		}
		h.Case(evid.HashJSON(c), c.Goroutines >= 2, "mapper:concurrent:"+c.Via)
		if h.WantSample("mapper-conc") {
			h.Sample("mapper-conc", c)
		}
		if f != nil && strings.HasPrefix(f.Sig, "harness-") {
			t.Errorf("HARNESS-ERROR %s", f.Msg)
			continue
		}
		if h.report("mapper-conc", f, c) {
			break
		}
	}
}
