package checks

import (
	"encoding/json"
	"errors"
	"fmt"
	"os"
	"path/filepath"
	"strings"
	"testing"
	"time"

	"p9verif/evid"
	"p9verif/memfs"
	"p9verif/memtree"
	"p9verif/refcodec"
	"p9verif/refmodel"

	"github.com/hugelgupf/p9/linux"
	"github.com/hugelgupf/p9/p9"
	"pgregory.net/rapid"
)

// ---------------------------------------------------------------------------
// C15 — fault containment

type faultCase struct {
	Conns   int       `json:"conns"`
	Native  bool      `json:"native_walkgetattr"`
	Tree    string    `json:"tree"`
	Steps   []connReq `json:"steps"`
	FaultAt int       `json:"fault_at"` // k-th backend call made while a request is outstanding; 0 = clean run
	Panic   bool      `json:"panic"`
	Err     *errSpec  `json:"err,omitempty"`
	// Errs is the pool of error values used when enumerating (index k mod len)
	Errs []errSpec `json:"errs,omitempty"`
}

type faultStats struct {
	armedCalls int
	struck     bool
	afterOK    int
	op         string
	panicked   bool
}

func runFaultCase(c faultCase, st *faultStats) *fail {
	pop := memtree.Populate
	switch c.Tree {
	case "deep":
		pop = populateDeep
	case "small":
		pop = populateSmall
	}
	if c.Conns < 1 {
		c.Conns = 1
	}
	o := worldOpts{conns: c.Conns, native: c.Native, populate: pop, life: true, faultAt: c.FaultAt, faultPanic: c.Panic, faultErr: c.Err}
	if c.FaultAt > 0 && !c.Panic && c.Err == nil {
		return failf("harness-case", "HARNESS-ERROR fault case without an error value")
	}
	w, f := newWorld(o)
	if f != nil {
		return f
	}
	defer w.closeAll()
	for _, s := range c.Steps {
		conn := s.Conn % c.Conns
		if _, f := w.do(conn, cloneMsg(s.Req)); f != nil {
			return f
		}
		if w.desync {
			break
		}
	}
	if st != nil {
		st.armedCalls = w.fs.ArmedCalls()
		st.struck = w.faultSeen
		st.afterOK = w.faultAfterOK
		st.panicked = w.panicked
		if w.faultCall != nil {
			st.op = w.faultCall.Op
		}
	}
	// follow-up on the same paths: locks must have been released, all
	// connections must still be served
	if w.faultSeen && !w.desync {
		path := strings.TrimPrefix(w.faultCall.Path, "/")
		for ci := range w.conns {
			probe := []*refcodec.Msg{tAttach(40, nofid, ""), tAttach(41, nofid, path), tGetattr(41), tMkdir(40, "zz-after-fault"),
				tMkdir(41, "zz-after-fault"), tRenameat(40, "zz-after-fault", 40, "zz-renamed"), tUnlinkat(40, "zz-renamed"), tClunk(41), tClunk(40)}
			if ci > 0 {
				probe = []*refcodec.Msg{tAttach(40, nofid, ""), tMkdir(40, "zz-other-conn"), tRenameat(40, "zz-other-conn", 40, "zz-oc2"), tUnlinkat(40, "zz-oc2"), tClunk(40)}
			}
			for _, p := range probe {
				if _, f := w.do(ci, p); f != nil {
					f.Msg += " (follow-up after the injected fault in " + w.faultCall.String() + ")"
					if strings.HasPrefix(f.Sig, "no-reply") {
						f.Sig = "hang-after-fault:" + w.faultCall.Op
					}
					return f
				}
			}
		}
	}
	if w.panicked {
		// only liveness and return of Handle; the lifecycle after a panic is not asserted
		w.life = false
	}
	return w.closeAll()
}

// clientErrnoCase: two calls of one client are refused by the backend at the
// same time with different errors; each caller must get the errno of its own
// request (the other one must not be affected).
type clientErrnoCase struct {
	Rounds int  `json:"rounds"`
	Native bool `json:"native_walkgetattr"`
}

func runClientErrnoCase(c clientErrnoCase) *fail {
	fs := memfs.New(memfs.Options{NativeWalkGetAttr: c.Native})
	fs.Tree.Create(fs.Tree.Root, "a", 0o644, 0, 0)
	fs.Tree.Create(fs.Tree.Root, "b", 0o644, 0, 0)
	cl, closeFn, err := dialPipe(p9.NewServer(fs))
	if err != nil {
		return failf("harness-dial", "HARNESS-ERROR %v", err)
	}
	defer closeFn()
	root, err := cl.Attach("")
	if err != nil {
		return failf("harness-attach", "HARNESS-ERROR %v", err)
	}
	defer root.Close()
	_, fa, err := root.Walk([]string{"a"})
	if err != nil {
		return failf("harness-walk", "HARNESS-ERROR %v", err)
	}
	defer fa.Close()
	_, fb, err := root.Walk([]string{"b"})
	if err != nil {
		return failf("harness-walk", "HARNESS-ERROR %v", err)
	}
	defer fb.Close()
	for r := 0; r < c.Rounds; r++ {
		ea, eb := 28+r%3, 122-r%2 // ENOSPC.., EDQUOT..
		g := memfs.NewGate(func(cl *memfs.Call) bool { return cl.Op == "SetAttr" })
		g.Repeat = true
		fs.AddGate(g)
		fs.FailNext("SetAttr", "/a", ea)
		fs.FailNext("SetAttr", "/b", eb)
		type res struct{ err error }
		ra, rb := make(chan res, 1), make(chan res, 1)
		go func() { ra <- res{fa.SetAttr(p9.SetAttrMask{Size: true}, p9.SetAttr{Size: 1})} }()
		go func() { rb <- res{fb.SetAttr(p9.SetAttrMask{Size: true}, p9.SetAttr{Size: 2})} }()
		for i := 0; i < 2; i++ {
			select {
			case <-g.Entered:
			case <-time.After(20 * time.Second):
				return failf("harness-gate", "HARNESS-ERROR the two calls did not reach the backend (round %d)", r)
			}
		}
		fs.ClearGates() // both fail at the same moment
		var a, b res
		select {
		case a = <-ra:
		case <-time.After(20 * time.Second):
			return failf("client-call-hangs:refused", "a refused call did not return (round %d)", r)
		}
		select {
		case b = <-rb:
		case <-time.After(20 * time.Second):
			return failf("client-call-hangs:refused", "a refused call did not return (round %d)", r)
		}
		if !errors.Is(a.err, linux.Errno(ea)) || !errors.Is(b.err, linux.Errno(eb)) {
			return failf("errno-of-another-request", "round %d: two calls were refused by the backend at the same time with errno %d and %d; the callers got %v and %v", r, ea, eb, a.err, b.err)
		}
	}
	return nil
}

func genFaultSession(rt *rapid.T) faultCase {
	c := faultCase{Native: rapid.Bool().Draw(rt, "native")}
	if rapid.Bool().Draw(rt, "deep") {
		c.Tree = "deep"
		c.Conns = rapid.IntRange(1, 2).Draw(rt, "conns")
		m := refmodel.New(c.Conns)
		populateDeep(m.Tree)
		names := []string{"a", "b", "c", "d", "e", "f", "g", "h", "k", "n"}
		n := rapid.IntRange(2, 14).Draw(rt, "len")
		for i := 0; i < n; i++ {
			conn := 0
			if c.Conns > 1 {
				conn = rapid.IntRange(0, c.Conns-1).Draw(rt, "conn")
			}
			r := genPathStep(rt, m, conn, names, 6)
			c.Steps = append(c.Steps, connReq{conn, r})
			m.Assume(m.Step(conn, r))
		}
	} else {
		c.Tree = "std"
		c.Conns = 1
		for _, r := range genSessionReqs(rt, 12) {
			c.Steps = append(c.Steps, connReq{0, r})
		}
	}
	n := rapid.IntRange(1, 6).Draw(rt, "nerrs")
	for i := 0; i < n; i++ {
		c.Errs = append(c.Errs, genErrSpec(rt))
	}
	return c
}

func faultHash(c faultCase) uint64 {
	parts := [][]byte{{byte(c.Conns), b2u(c.Native), b2u(c.Panic)}, []byte(c.Tree), u32b(uint32(c.FaultAt))}
	if c.Err != nil {
		parts = append(parts, []byte(c.Err.Style), u32b(uint32(c.Err.Errno)))
	}
	for _, s := range c.Steps {
		s.Req.Tag = 0
		parts = append(parts, []byte{byte(s.Conn)}, refcodec.Encode(s.Req))
	}
	return evid.Hash64(parts...)
}

func init() {
	replayRegistrars = append(replayRegistrars, func() {
		registerReplay("C15/client-errno", runClientErrnoCase)
		registerReplay("C15/faults", func(c faultCase) *fail { return runFaultCase(c, nil) })
		registerReplay("C15/targeted", func(c faultCase) *fail { return runFaultCase(c, nil) })
	})
}

// targeted sessions make sure the multi-call requests named by the property
// are enumerated: multi-step walks, rename notifications, xattr finalisation,
// Close during clunk / replacement, attach with a name.
func c15Targeted() []faultCase {
	mk := func(native bool, tree string, reqs ...*refcodec.Msg) faultCase {
		c := faultCase{Conns: 2, Native: native, Tree: tree}
		for _, r := range reqs {
			c.Steps = append(c.Steps, connReq{0, r})
		}
		c.Steps = append(c.Steps, connReq{1, tAttach(0, nofid, "")}, connReq{1, tWalk(0, 1, "a")}, connReq{1, tGetattr(1)})
		return c
	}
	var out []faultCase
	for _, native := range []bool{false, true} {
		out = append(out,
			mk(native, "deep", tAttach(0, nofid, ""), tWalk(0, 1, "a", "b", "c", "f"), tWalkGA(0, 2, "a", "b", "g"), tWalk(0, 3, "a", "b"), tWalk(0, 4, "d"),
				tRenameat(0, "a", 4, "moved"), tGetattr(1), tGetattr(2), tRename(3, 0, "top"), tGetattr(1), tWalk(1, 1), tClunk(1), tRemove(2)),
			mk(native, "deep", tAttach(0, nofid, "a/b/c"), tAttach(1, nofid, ""), tWalk(1, 2, "a", "h"), tOpen(2, 2), tWrite(2, 0, "x"), tRead(2, 0, 4),
				tWalk(1, 2, "d"), tXattrcreate(2, "user.k", 2, 0), tWrite(2, 0, "vv"), tClunk(2), tWalk(1, 2, "d"), tXattrwalk(2, 3, "user.k"), tRead(3, 0, 2), tClunk(3),
				tCreate(2, "newfile", 2, 0o644), tWrite(2, 0, "abc"), tFsync(2), tClunk(2)),
			mk(native, "deep", tAttach(0, nofid, ""), tWalk(0, 1, "a"), tWalk(0, 2, "a", "b"), tWalk(0, 3, "a", "b", "c"), tWalk(0, 4, "a", "b", "c", "f"),
				tRenameat(0, "a", 0, "z"), tUnlinkat(3, "f"), tMkdir(3, "nd"), tSymlink(3, "sl", "t"), tMknod(3, "nod", 0o600), tLink(3, 4, "hl"),
				tSetattr(2, 1, 0o700, 0), tOpen(3, 0), tReaddir(3, 0, 4000), tStatfs(1), tLock(1), tAttach(0, nofid, "")),
		)
	}
	return out
}

func TestC15(t *testing.T) {
	h := begin(t, "C15")
	defer h.Finish()
	env := h.Env

	var enumerateFaultsInto func(sub string, c faultCase, struck *faultCase) *fail
	enumerateFaults := func(sub string, c faultCase) *fail { return enumerateFaultsInto(sub, c, nil) }
	enumerateFaultsInto = func(sub string, c faultCase, struck *faultCase) *fail {
		clean := c
		clean.FaultAt = 0
		st := &faultStats{}
		if f := runFaultCase(clean, st); f != nil {
			return f
		}
		n := st.armedCalls
		h.Count("backend-calls-in-clean-runs", int64(n))
		for k := 1; k <= n; k++ {
			for _, panicKind := range []bool{false, true} {
				fc := c
				fc.Errs = nil
				fc.FaultAt, fc.Panic = k, panicKind
				if !panicKind {
					e := c.Errs[k%len(c.Errs)]
					fc.Err = &e
				}
				fst := &faultStats{}
				if panicKind {
					h.Danger(sub, "process-died-on-backend-panic", "a backend panic during a request took the server process down", fc)
				}
				f := runFaultCase(fc, fst)
				if panicKind {
					h.Safe()
				}
				cls := "fault:error"
				if panicKind {
					cls = "fault:panic"
				}
				h.Case(faultHash(fc), fst.struck && fst.afterOK > 0, cls)
				if fst.struck {
					h.Count("struck-in:"+fst.op, 1)
				} else {
					h.Count("fault-not-reached(session diverged earlier)", 1)
				}
				if fst.struck && fst.afterOK > 0 && h.WantSample(sub) {
					h.Sample(sub, fc)
				}
				if f != nil {
					if strings.HasPrefix(f.Sig, "harness-") {
						return f
					}
					if h.Known(f.Sig) {
						continue
					}
					h.Violation(sub, f.Sig, f.Msg, fc)
					if struck != nil {
						*struck = fc
					}
					return f
				}
			}
		}
		return nil
	}

	// targeted sessions (seed independent), every call index x {error, panic}
	if env.Shard == 0 {
		pool := []errSpec{{"linux", 5}, {"syscall", 28}, {"patherror", 2}, {"wrapped-linux", 13}, {"opaque", 5}, {"oserr", 17}, {"joined", 39}}
		for i, c := range c15Targeted() {
			c.Errs = pool
			if f := enumerateFaults("targeted", c); f != nil {
				t.Errorf("VIOLATION C15/targeted[%d] [%s]: %s", i, f.Sig, f.Msg)
				return
			}
		}
		h.Exhaustive("every backend call index x {error, panic} of the targeted sessions")
	}

	// replay tier: saved cases (each once was a violation)
	if env.Shard == 0 {
		registerAllReplays()
		if ents, err := os.ReadDir(filepath.Join("..", "corpus", "c15")); err == nil {
			for _, e := range ents {
				rf, err := evid.LoadReplay(filepath.Join("..", "corpus", "c15", e.Name()))
				if err != nil {
					t.Errorf("HARNESS-ERROR corpus %s: %v", e.Name(), err)
					continue
				}
				var fc faultCase
				if err := json.Unmarshal(rf.Case, &fc); err != nil {
					t.Errorf("HARNESS-ERROR corpus %s: %v", e.Name(), err)
					continue
				}
				h.Danger("faults", "process-died-on-backend-panic", "a backend panic during a request took the server process down (saved case "+e.Name()+")", fc)
				f := runFaultCase(fc, nil)
				h.Safe()
				h.Case(faultHash(fc), true, "saved-corpus")
				if h.report("faults", f, fc) {
					return
				}
			}
		}
	}
	// two calls of one client refused at the same time with different errors
	for rep := 0; rep < env.Pick(8, 80)/env.NShards+1; rep++ {
		c := clientErrnoCase{Rounds: 40, Native: rep%2 == 0}
		f := runClientErrnoCase(c)
		h.Case(evid.HashJSON(c)+uint64(rep*64+env.Shard), true, "client:two-calls-refused-at-once")
		if f != nil && strings.HasPrefix(f.Sig, "harness-") {
			t.Errorf("HARNESS-ERROR %s", f.Msg)
			continue
		}
		if h.report("client-errno", f, c) {
			return
		}
	}
	// (the replay file must carry the fault that struck, not just the session:
	// it is written again after rapid has recorded its own, shrunk, case)
	var preciseF *fail
	var preciseC faultCase
	rapidCases(h, "faults", env.PerShard(env.Pick(3000, 48000)), genFaultSession, func(c faultCase) *fail {
		if c.FaultAt != 0 {
			// replay of a single fault
			return runFaultCase(c, nil)
		}
		var struck faultCase
		f := enumerateFaultsInto("faults", c, &struck)
		if f != nil {
			preciseF, preciseC = f, struck
			return &fail{Sig: f.Sig, Msg: f.Msg}
		}
		return nil
	})
	if preciseF != nil && !strings.HasPrefix(preciseF.Sig, "harness-") {
		h.Violation("faults", preciseF.Sig, preciseF.Msg, preciseC)
	}
	_ = fmt.Sprint
}
