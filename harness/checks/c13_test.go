package checks

import (
	"bytes"
	"fmt"
	"runtime"
	"strings"
	"sync"
	"testing"
	"time"

	"p9verif/evid"
	"p9verif/memfs"
	"p9verif/memtree"
	"p9verif/peers"
	"p9verif/refcodec"

	"github.com/hugelgupf/p9/p9"
	"pgregory.net/rapid"
)

// ---------------------------------------------------------------------------
// C13 — the negotiated msize is never exceeded by either peer

type msizeCase struct {
	Msize    uint32    `json:"msize"`
	FileSize uint64    `json:"file_size"`
	NEntries int       `json:"n_entries"`
	NameLen  int       `json:"name_len"`
	Ops      []msizeOp `json:"ops"`
}

type msizeOp struct {
	Kind   string `json:"kind"` // read | readdir | xread (a read on an attribute fid) | version
	Offset uint64 `json:"offset"`
	Count  uint32 `json:"count"`
}

func populateMsize(fileSize uint64, nEntries, nameLen int) func(t *memtree.Tree) {
	return func(t *memtree.Tree) {
		f, _ := t.Create(t.Root, "big", 0o644, 0, 0)
		if fileSize > 0 {
			// recognisable content without materialising the whole file
			for off := uint64(0); off < fileSize; off += 1 << 16 {
				n := uint64(4096)
				if off+n > fileSize {
					n = fileSize - off
				}
				f.WriteAt(patternAt(off, int(n)), off)
			}
			f.Truncate(fileSize)
		}
		// an extended attribute larger than most limits (read through an attribute fid)
		f.SetXattr("user.big", patternAt(7, 70000), 0)
		d, _ := t.Mkdir(t.Root, "dir", 0o755, 0, 0)
		for i := 0; i < nEntries; i++ {
			name := fmt.Sprintf("e%05d-", i)
			for len(name) < nameLen {
				name += "x"
			}
			t.Create(d, name[:max(nameLen, 7)], 0o644, 0, 0)
		}
	}
}

func patternAt(off uint64, n int) []byte {
	b := make([]byte, n)
	for i := range b {
		v := off + uint64(i)
		b[i] = byte(v) ^ byte(v>>8) ^ byte(v>>16) | 1
	}
	return b
}

type msizeStats struct {
	nearLimit int
}

func runMsizeCase(c msizeCase, st *msizeStats) *fail {
	fs := memfs.New(memfs.Options{NativeWalkGetAttr: true})
	populateMsize(c.FileSize, c.NEntries, c.NameLen)(fs.Tree)
	s := peers.Start(p9.NewServer(fs))
	defer s.Close(10 * time.Second)
	rv, err := s.Version(c.Msize, "9P2000.L.Google.7")
	if err != nil || rv.Type != refcodec.Rversion {
		return failf("harness-version", "HARNESS-ERROR %v %v", rv, err)
	}
	msize := uint32(rv.U("msize"))
	if msize > c.Msize || msize > 4<<20 {
		return failf("rversion-msize", "Tversion(msize=%d) answered msize %d", c.Msize, msize)
	}
	tag := uint16(0)
	call := func(m *refcodec.Msg) ([]byte, *refcodec.Msg, *fail) {
		tag++
		m.Tag = tag
		raw, err := s.RPC(refcodec.Encode(m))
		if err != nil {
			return nil, nil, failf("no-reply:"+refcodec.Name(m.Type), "%s (msize %d): %v", m, msize, err)
		}
		if uint32(len(raw)) > msize {
			return raw, nil, failf("frame-exceeds-msize:"+refcodec.Name(raw[4]), "%s: the server announced msize %d and sent a %d-byte %s", m, msize, len(raw), refcodec.Name(raw[4]))
		}
		rep, derr := refcodec.DecodeStrict(raw)
		if derr != nil {
			return raw, nil, failf("reply-undecodable", "%s: reply of %d bytes rejected by the reference codec: %v", m, len(raw), derr)
		}
		return raw, rep, nil
	}
	for _, m := range []*refcodec.Msg{tAttach(0, nofid, ""), tWalk(0, 1, "big"), tOpen(1, 0), tWalk(0, 2, "dir"), tOpen(2, 0)} {
		_, r, f := call(m)
		if f != nil {
			return f
		}
		if r.Type == refcodec.Rlerror {
			return failf("harness-setup", "HARNESS-ERROR %s => %s (msize %d)", m, r, msize)
		}
	}
	file, _ := fs.Tree.Resolve([]string{"big"})
	dir, _ := fs.Tree.Resolve([]string{"dir"})
	names := memtree.Names(dir)
	for _, op := range c.Ops {
		near := op.Count+12 >= msize
		if near && st != nil {
			st.nearLimit++
		}
		switch op.Kind {
		case "version":
			// renegotiation in mid-session: from now on the newly announced msize is the limit
			rv, err := s.Version(op.Count, "9P2000.L.Google.7")
			if err != nil || rv.Type != refcodec.Rversion {
				return failf("tversion-no-rversion", "second Tversion(msize=%d): %v %v", op.Count, rv, err)
			}
			msize = uint32(rv.U("msize"))
			if msize > op.Count || msize > 4<<20 {
				return failf("rversion-msize", "Tversion(msize=%d) answered msize %d", op.Count, msize)
			}
			if st != nil {
				st.nearLimit++
			}
		case "version-refused":
			// a Tversion the server refuses (not a 9P2000.L version): answered (unknown, 0);
			// the limit of the last accepted negotiation stays in force
			rv, err := s.Version(op.Count, []string{"9P2000.u", "9P2000", "unknown", "9P2000.L.Google.x"}[int(op.Offset)%4])
			if err != nil || rv.Type != refcodec.Rversion || rv.S("version") != "unknown" || rv.U("msize") != 0 {
				return failf("tversion-refusal", "Tversion(msize=%d) with a version that is not 9P2000.L: answered %v (%v), want Rversion(unknown, 0)", op.Count, rv, err)
			}
		case "xread":
			// a read on an attribute fid: offset + count inside the 70000-byte value
			if uint64(op.Offset)+uint64(op.Count) > 70000 || op.Count == 0 {
				continue
			}
			if _, r, f := call(tXattrwalk(1, 7, "user.big")); f != nil {
				return f
			} else if r.Type == refcodec.Rlerror {
				return failf("harness-xattrwalk", "HARNESS-ERROR %s", r)
			}
			_, rep, f := call(tRead(7, op.Offset, uint64(op.Count)))
			if f != nil {
				return f
			}
			if rep.Type == refcodec.Rread {
				got := rep.Bytes("data")
				want := patternAt(7, 70000)[op.Offset:]
				if len(got) > int(op.Count) || !bytes.Equal(got, want[:len(got)]) {
					return failf("xattr-read-data-wrong", "Tread(offset=%d, count=%d) on an attribute fid with msize %d returned %d bytes that are not the value's", op.Offset, op.Count, msize, len(got))
				}
			}
			if _, _, f := call(tClunk(7)); f != nil {
				return f
			}
		case "read":
			_, rep, f := call(tRead(1, op.Offset, uint64(op.Count)))
			if f != nil {
				return f
			}
			if rep.Type == refcodec.Rlerror {
				if op.Count > 4<<20 {
					continue // may be refused outright
				}
				return failf("read-refused", "Tread(offset=%d, count=%d) with msize %d was answered %s; the data must be shortened, not refused", op.Offset, op.Count, msize, rep)
			}
			got := rep.Bytes("data")
			want := make([]byte, min(int(op.Count), len(got)+1))
			wn := file.ReadAt(want, op.Offset)
			if len(got) > int(op.Count) {
				return failf("read-more-than-count", "Tread(count=%d) returned %d bytes", op.Count, len(got))
			}
			if !bytes.Equal(got, want[:min(wn, len(got))]) || len(got) > wn {
				return failf("read-wrong-bytes", "Tread(offset=%d, count=%d) with msize %d returned %d bytes that are not a prefix of the file's bytes there", op.Offset, op.Count, msize, len(got))
			}
			room := int(msize) - 11
			if len(got) == 0 && op.Count > 0 && wn > 0 && room > 0 {
				return failf("read-empty-although-possible", "Tread(offset=%d, count=%d) with msize %d returned no data although the file has bytes there and the frame has room for %d", op.Offset, op.Count, msize, room)
			}
		case "readdir":
			_, rep, f := call(tReaddir(2, op.Offset, uint64(op.Count)))
			if f != nil {
				return f
			}
			if rep.Type == refcodec.Rlerror {
				if op.Count > 4<<20 {
					continue
				}
				return failf("readdir-refused", "Treaddir(offset=%d, count=%d) with msize %d was answered %s", op.Offset, op.Count, msize, rep)
			}
			ents := rep.Ents("entries")
			total := 0
			for k, e := range ents {
				idx := int(op.Offset) + k
				if idx >= len(names) || e.Name != names[idx] || e.Offset != uint64(idx+1) {
					return failf("readdir-wrong-entries", "Treaddir(offset=%d, count=%d): entry %d is %q (offset %d), expected %q", op.Offset, op.Count, k, e.Name, e.Offset, names[min(idx, len(names)-1)])
				}
				total += refcodec.DirentSize(e)
			}
			if total > int(op.Count) {
				return failf("readdir-more-than-count", "Treaddir(count=%d) returned %d bytes of entries", op.Count, total)
			}
			if len(ents) == 0 && int(op.Offset) < len(names) {
				need := 24 + len(names[op.Offset])
				if int(op.Count) >= need && int(msize)-11 >= need {
					return failf("readdir-empty-although-possible", "Treaddir(offset=%d, count=%d) with msize %d returned no entry although one of %d bytes fits", op.Offset, op.Count, msize, need)
				}
			}
		}
	}
	return nil
}

func genMsizeCase(rt *rapid.T) msizeCase {
	c := msizeCase{}
	switch rapid.IntRange(0, 4).Draw(rt, "mk") {
	case 0:
		c.Msize = uint32(rapid.IntRange(64, 300).Draw(rt, "msize"))
	case 1:
		c.Msize = rapid.SampledFrom([]uint32{512, 4096, 8192, 65536, 1 << 20}).Draw(rt, "msize")
	case 2:
		c.Msize = rapid.SampledFrom([]uint32{4<<20 - 1, 4 << 20, 4<<20 + 1, 1<<32 - 1}).Draw(rt, "msize")
	default:
		c.Msize = uint32(rapid.IntRange(64, 70000).Draw(rt, "msize"))
	}
	eff := c.Msize
	if eff > 4<<20 {
		eff = 4 << 20
	}
	c.FileSize = uint64(rapid.SampledFrom([]int{0, 1, int(eff) - 12, int(eff) - 11, int(eff), int(eff) + 100, 3 * int(eff)}).Draw(rt, "fsize"))
	c.NEntries = rapid.SampledFrom([]int{0, 1, 3, 50, 400}).Draw(rt, "nent")
	c.NameLen = rapid.SampledFrom([]int{7, 20, 60, 200}).Draw(rt, "nlen")
	if eff >= 1<<20 {
		c.NEntries = rapid.SampledFrom([]int{3, 400, 3000}).Draw(rt, "nent2")
	}
	nops := rapid.IntRange(1, 8).Draw(rt, "nops")
	for i := 0; i < nops; i++ {
		if rapid.IntRange(0, 7).Draw(rt, "refused") == 0 {
			// a refused Tversion proposing another msize: nothing changes
			c.Ops = append(c.Ops, msizeOp{Kind: "version-refused", Offset: uint64(rapid.IntRange(0, 3).Draw(rt, "rv")),
				Count: uint32(rapid.SampledFrom([]int{64, 4096, 1 << 20, 4 << 20, int(eff) * 2, int(eff) / 2}).Draw(rt, "rmsize"))})
		}
		if i > 0 && rapid.IntRange(0, 5).Draw(rt, "reneg") == 0 {
			// a second Tversion with a smaller (or larger) msize; later counts refer to it
			nm := uint32(rapid.SampledFrom([]int{64, 100, 512, 4096, 8192, 65536, int(eff) / 2, int(eff) * 2}).Draw(rt, "newmsize"))
			if nm < 64 {
				nm = 64
			}
			c.Ops = append(c.Ops, msizeOp{Kind: "version", Count: nm})
			eff = nm
			if eff > 4<<20 {
				eff = 4 << 20
			}
		}
		op := msizeOp{Kind: rapid.SampledFrom([]string{"read", "read", "readdir", "readdir", "xread"}).Draw(rt, "kind")}
		switch rapid.IntRange(0, 5).Draw(rt, "ck") {
		case 0:
			op.Count = uint32(rapid.IntRange(0, 2).Draw(rt, "cnt"))
		case 1, 2:
			op.Count = uint32(int(eff) - 12 + rapid.IntRange(0, 13).Draw(rt, "delta"))
		case 3:
			op.Count = rapid.SampledFrom([]uint32{4<<20 - 1, 4 << 20, 4<<20 + 1, 1<<32 - 1, 1 << 31}).Draw(rt, "cnt")
		default:
			op.Count = uint32(rapid.IntRange(0, int(eff)*2).Draw(rt, "cnt"))
		}
		if op.Kind == "xread" {
			op.Offset = uint64(rapid.SampledFrom([]int{0, 0, 1, 4000}).Draw(rt, "xoff"))
			if op.Count > 66000 {
				op.Count = uint32(int(eff) - 12 + rapid.IntRange(0, 40).Draw(rt, "xdelta"))
			}
		} else if op.Kind == "read" {
			op.Offset = uint64(rapid.SampledFrom([]int{0, 0, 1, 4000, 70000}).Draw(rt, "off"))
		} else if c.NEntries > 0 {
			op.Offset = uint64(rapid.IntRange(0, c.NEntries).Draw(rt, "off"))
		}
		c.Ops = append(c.Ops, op)
	}
	return c
}

// --- client side -------------------------------------------------------------------------

type cmsizeCase struct {
	ClientMsize uint32 `json:"client_msize"`
	OfferMsize  uint32 `json:"offer_msize"`
	Sizes       []int  `json:"sizes"`
}

func runCmsizeCase(c cmsizeCase) *fail {
	fk := peers.NewFake()
	defer fk.Close()
	stop := make(chan struct{})
	defer close(stop)
	var mu sync.Mutex
	var bad *fail
	nx := 0
	go fk.Serve(stop, func(req *refcodec.Msg, raw []byte) []*refcodec.Msg {
		if req == nil {
			return nil
		}
		if req.Type == refcodec.Tversion {
			return []*refcodec.Msg{refcodec.New(refcodec.Rversion, req.Tag, "msize", c.OfferMsize, "version", req.S("version"))}
		}
		mu.Lock()
		if bad == nil {
			if uint32(len(raw)) > c.OfferMsize {
				bad = failf("client-frame-exceeds-msize:"+refcodec.Name(req.Type), "the server announced msize %d (the client had asked for %d); the client sent a %d-byte %s", c.OfferMsize, c.ClientMsize, len(raw), refcodec.Name(req.Type))
			} else if req.Type == refcodec.Tread && req.U("count")+11 > uint64(c.OfferMsize) {
				bad = failf("client-read-reply-cannot-fit", "the server announced msize %d; the client asked for %d bytes in one Tread, whose reply cannot fit", c.OfferMsize, req.U("count"))
			}
		}
		mu.Unlock()
		if req.Type == refcodec.Txattrwalk {
			// attribute sizes on both sides of what one reply can carry (the temporary
			// fid is always the same number, so the size goes by the request's ordinal)
			o := uint64(c.OfferMsize)
			sizes := []uint64{2*o + 5, o - 11, o, o / 3, 5 * o, o - 10, 0}
			mu.Lock()
			sz := sizes[nx%len(sizes)]
			nx++
			mu.Unlock()
			return []*refcodec.Msg{refcodec.New(refcodec.Rxattrwalk, req.Tag, "size", sz)}
		}
		return []*refcodec.Msg{peers.GenericReply(req, int(c.OfferMsize)-11)}
	})
	cl, err := p9.NewClient(fk.Client, p9.WithMessageSize(c.ClientMsize))
	if err != nil {
		if c.OfferMsize <= 160 {
			return nil // an unusably small msize may be refused
		}
		return failf("newclient-valid-offer-refused", "NewClient failed for msize offer %d: %v", c.OfferMsize, err)
	}
	root, err := cl.Attach("")
	if err != nil {
		return failf("harness-attach", "HARNESS-ERROR %v", err)
	}
	defer runtime.KeepAlive(root)
	done := make(chan struct{})
	go func() {
		defer close(done)
		for _, n := range c.Sizes {
			buf := make([]byte, n)
			root.WriteAt(buf, 0)
			root.ReadAt(buf, 0)
			root.GetXattr("user.v")
			root.Readdir(0, uint32(n))
		}
	}()
	select {
	case <-done:
	case <-time.After(60 * time.Second):
		return failf("client-hang", "client I/O did not complete against a server announcing msize %d", c.OfferMsize)
	}
	mu.Lock()
	defer mu.Unlock()
	return bad
}

// raiseCase: a second Tversion raises msize while the reply of an earlier Tread
// is still being written (the handler has written the frame but not yet
// finished with its buffer). Reads under the new, larger limit must be served
// in full: "the data is shortened, not the limit broken" - and not refused.
type raiseCase struct {
	From  uint32 `json:"from"`
	To    uint32 `json:"to"`
	Reads int    `json:"reads"`
}

func runRaiseCase(c raiseCase) *fail {
	fs := memfs.New(memfs.Options{NativeWalkGetAttr: true})
	populateMsize(100000, 1, 8)(fs.Tree)
	file, _ := fs.Tree.Resolve([]string{"big"})
	s := peers.Start(p9.NewServer(fs))
	defer s.Close(10 * time.Second)
	if rv, err := s.Version(c.From, "9P2000.L.Google.7"); err != nil || rv.Type != refcodec.Rversion {
		return failf("harness-version", "HARNESS-ERROR %v %v", rv, err)
	}
	for i, m := range []*refcodec.Msg{tAttach(0, nofid, ""), tWalk(0, 1, "big"), tOpen(1, 0)} {
		if r, err := s.Call(withTag(m, uint16(1+i))); err != nil || r.Type == refcodec.Rlerror {
			return failf("harness-setup", "HARNESS-ERROR %s: %v %v", m, r, err)
		}
	}
	// an Rread with data goes out in three Writes (header, count, data): the
	// handler is paused after the last one, before it is done with its buffer
	entered, release := s.S2C.PauseAfterWriteAt(s.S2C.Writes() + 3)
	defer release()
	s.Send(refcodec.Encode(withTag(tRead(1, 0, 8), 10)))
	select {
	case <-entered:
	case <-time.After(20 * time.Second):
		return failf("harness-raise", "HARNESS-ERROR the read reply was not written in three Writes")
	}
	if _, err := s.Recv(20 * time.Second); err != nil {
		return failf("harness-raise", "HARNESS-ERROR read reply: %v", err)
	}
	s.Send(refcodec.Encode(refcodec.New(refcodec.Tversion, refcodec.NOTAG, "msize", c.To, "version", "9P2000.L.Google.7")))
	time.Sleep(3 * time.Millisecond) // the Tversion handler gets as far as its own reply, which waits for the paused Write
	release()
	raw, err := s.Recv(20 * time.Second)
	if err != nil {
		return failf("no-reply:Tversion", "second Tversion(msize %d): %v", c.To, err)
	}
	if rv, derr := refcodec.DecodeStrict(raw); derr != nil || rv.Type != refcodec.Rversion || rv.U("msize") != uint64(c.To) {
		return failf("rversion-msize", "second Tversion(msize %d) answered %x", c.To, raw[:min(len(raw), 40)])
	}
	for i := 0; i < c.Reads; i++ {
		count := uint64(c.To) - 11 - uint64(i)
		raw, err := s.RPC(refcodec.Encode(withTag(tRead(1, uint64(i), count), uint16(20+i))))
		if err != nil {
			return failf("no-reply:Tread", "read %d after raising msize %d -> %d: %v", i, c.From, c.To, err)
		}
		if uint32(len(raw)) > c.To {
			return failf("frame-exceeds-msize:Rread", "after raising msize %d -> %d: a %d-byte Rread", c.From, c.To, len(raw))
		}
		rep, derr := refcodec.DecodeStrict(raw)
		if derr != nil {
			return failf("reply-undecodable", "read %d after raising msize: %v", i, derr)
		}
		if rep.Type == refcodec.Rlerror {
			return failf("read-refused:after-raising-msize", "msize raised %d -> %d by a second Tversion while the reply of an earlier read was still being written: Tread(offset=%d, count=%d) was answered %s; the data must be delivered (shortened at most to the limit), not refused", c.From, c.To, i, count, rep)
		}
		want := make([]byte, count)
		wn := file.ReadAt(want, uint64(i))
		if !bytes.Equal(rep.Bytes("data"), want[:wn]) {
			return failf("read-data-wrong:after-raising-msize", "read %d after raising msize %d -> %d returned %d bytes, expected the %d bytes of the file", i, c.From, c.To, len(rep.Bytes("data")), wn)
		}
	}
	return nil
}

func init() {
	replayRegistrars = append(replayRegistrars, func() {
		registerReplay("C13/server", func(c msizeCase) *fail { return runMsizeCase(c, nil) })
		registerReplay("C13/client", runCmsizeCase)
		registerReplay("C13/raise", runRaiseCase)
	})
}

func TestC13(t *testing.T) {
	h := begin(t, "C13")
	defer h.Finish()
	env := h.Env
	rapidCases(h, "server", env.PerShard(env.Pick(12000, 200000)), genMsizeCase, func(c msizeCase) *fail {
		st := &msizeStats{}
		f := runMsizeCase(c, st)
		h.Case(evid.HashJSON(c), st.nearLimit > 0, "server")
		h.Count("server:requests-within-11-bytes-of-or-above-msize", int64(st.nearLimit))
		if st.nearLimit > 1 && h.WantSample("server") {
			h.Sample("server", c)
		}
		return f
	})
	// msize raised by a second Tversion while a read reply is still being written
	if env.Shard == 0 {
		for _, ft := range [][2]uint32{{64, 128}, {64, 4096}, {4096, 65536}, {128, 129}, {100, 1 << 20}} {
			for rep := 0; rep < env.Pick(4, 40); rep++ {
				c := raiseCase{From: ft[0], To: ft[1], Reads: 6}
				f := runRaiseCase(c)
				h.Case(evid.HashJSON(c)+uint64(rep), true, "raise-msize-during-read-reply")
				if f != nil && strings.HasPrefix(f.Sig, "harness-") {
					t.Errorf("HARNESS-ERROR %s", f.Msg)
					continue
				}
				if h.report("raise", f, c) {
					return
				}
			}
		}
	}
	rapidCases(h, "client", env.PerShard(env.Pick(2400, 40000)), func(rt *rapid.T) cmsizeCase {
		c := cmsizeCase{ClientMsize: rapid.SampledFrom([]uint32{4096, 65536, 1 << 20, 300}).Draw(rt, "cm")}
		c.OfferMsize = uint32(rapid.IntRange(161, int(c.ClientMsize)).Draw(rt, "om"))
		if rapid.IntRange(0, 3).Draw(rt, "same") == 0 {
			c.OfferMsize = c.ClientMsize
		}
		for i := rapid.IntRange(1, 4).Draw(rt, "ns"); i > 0; i-- {
			o := int(c.OfferMsize)
			c.Sizes = append(c.Sizes, rapid.SampledFrom([]int{0, 1, o - 200, o - 24, o - 23, o - 11, o, o + 1, 2 * o, 5*o + 3}).Draw(rt, "size"))
			if c.Sizes[len(c.Sizes)-1] < 0 {
				c.Sizes[len(c.Sizes)-1] = 0
			}
		}
		return c
	}, func(c cmsizeCase) *fail {
		f := runCmsizeCase(c)
		h.Case(evid.HashJSON(c), c.OfferMsize < c.ClientMsize, "client")
		if c.OfferMsize < c.ClientMsize && h.WantSample("client") {
			h.Sample("client", c)
		}
		return f
	})
}
