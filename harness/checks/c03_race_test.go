package checks

import (
	"fmt"
	"time"

	"p9verif/memfs"

	"github.com/hugelgupf/p9/p9"
)

// closeBindRaceCase (C03): a Close is still on its way through the server (its
// Tclunk waits behind a held SetAttr on the same path) while another goroutine
// of the same client binds a new handle. Operations through the new handle reach
// the File it was walked to and return what that File returns - the handle is
// not the one being closed.
type closeBindRaceCase struct {
	Native bool     `json:"native_walkgetattr"`
	Binds  []string `json:"binds"` // walk | walkgetattr | attach, one per round
}

func runCloseBindRaceCase(c closeBindRaceCase) *fail {
	fs := memfs.New(memfs.Options{NativeWalkGetAttr: c.Native})
	fs.Tree.Create(fs.Tree.Root, "a", 0o644, 0, 0)
	ib, _ := fs.Tree.Create(fs.Tree.Root, "b", 0o600, 0, 0)
	ib.WriteAt([]byte("content of b"), 0)
	cl, closeFn, err := dialPipe(p9.NewServer(fs))
	if err != nil {
		return failf("harness-dial", "HARNESS-ERROR %v", err)
	}
	defer closeFn()
	root, err := cl.Attach("")
	if err != nil {
		return failf("harness-attach", "HARNESS-ERROR %v", err)
	}
	defer root.Close()
	for r, bind := range c.Binds {
		desc := fmt.Sprintf("round %d (%s) of %+v", r, bind, c)
		_, fa1, err := root.Walk([]string{"a"})
		if err != nil {
			return failf("harness-walk", "HARNESS-ERROR %v", err)
		}
		_, fa2, err := root.Walk([]string{"a"})
		if err != nil {
			return failf("harness-walk", "HARNESS-ERROR %v", err)
		}
		g := memfs.NewGate(func(cl *memfs.Call) bool { return cl.Op == "SetAttr" })
		fs.AddGate(g)
		setDone, closeDone := make(chan error, 1), make(chan error, 1)
		go func() { setDone <- fa2.SetAttr(p9.SetAttrMask{Size: true}, p9.SetAttr{Size: 1}) }()
		select {
		case <-g.Entered:
		case <-time.After(20 * time.Second):
			fs.ClearGates()
			return failf("harness-gate", "HARNESS-ERROR SetAttr never reached the backend (%s)", desc)
		}
		go func() { closeDone <- fa1.Close() }()
		time.Sleep(15 * time.Millisecond) // the Tclunk is now waiting in the server
		var nb p9.File
		switch bind {
		case "walkgetattr":
			_, nb, _, _, err = root.WalkGetAttr([]string{"b"})
		case "attach":
			nb, err = cl.Attach("b")
		default:
			_, nb, err = root.Walk([]string{"b"})
		}
		fs.ClearGates()
		g.Release()
		for _, ch := range []chan error{setDone, closeDone} {
			select {
			case <-ch:
			case <-time.After(20 * time.Second):
				return failf("client-call-hangs:close-bind-race", "SetAttr or Close did not return (%s)", desc)
			}
		}
		if err != nil {
			return failf("bind-fails-during-close", "binding a handle to b while a Close of another handle was in flight failed: %v (%s)", err, desc)
		}
		q, _, attr, err := nb.GetAttr(p9.AttrMaskAll)
		if err != nil || q.Path != ib.ID || attr.Size != uint64(len("content of b")) {
			return failf("operation-does-not-reach-its-file", "GetAttr through the handle bound to b while a Close of another handle was in flight: QID path %d size %d err %v, the File of b has path %d size %d (%s)", q.Path, attr.Size, err, ib.ID, len("content of b"), desc)
		}
		buf := make([]byte, 7)
		if _, _, err := nb.Open(p9.ReadOnly); err != nil {
			return failf("operation-does-not-reach-its-file", "Open through that handle: %v (%s)", err, desc)
		}
		if n, err := nb.ReadAt(buf, 0); n != 7 || string(buf) != "content" {
			return failf("operation-does-not-reach-its-file", "ReadAt through that handle: %q %v (%s)", buf[:n], err, desc)
		}
		nb.Close()
		fa2.Close()
	}
	return nil
}
