package checks

import (
	"errors"
	"fmt"
	"os"
	"syscall"

	"github.com/hugelgupf/p9/linux"
	"pgregory.net/rapid"
)

// errSpec describes a backend error value and the Linux errno the properties
// say the peer must see for it: the first errno found in the (wrapped) chain,
// else the errno of one of the four os sentinel errors, else EIO.
type errSpec struct {
	Style string `json:"style"` // linux | syscall | patherror | wrapped-linux | wrapped-syscall | joined | oserr | wrapped-oserr | opaque
	Errno int    `json:"errno"`
}

var errnoChoices = []int{1, 2, 3, 4, 5, 6, 7, 9, 11, 12, 13, 16, 17, 18, 19, 20, 21, 22, 23, 24, 27, 28, 29, 30, 31, 32, 34, 36, 38, 39, 40, 61, 75, 95, 105, 110, 116, 122, 133}

type opaqueErr struct{ s string }

func (o opaqueErr) Error() string { return o.s }

func (e errSpec) build() error {
	switch e.Style {
	case "linux":
		return linux.Errno(e.Errno)
	case "syscall":
		return syscall.Errno(e.Errno)
	case "patherror":
		return &os.PathError{Op: "open", Path: "/x", Err: syscall.Errno(e.Errno)}
	case "wrapped-linux":
		return fmt.Errorf("backend: layer two: %w", fmt.Errorf("layer one: %w", linux.Errno(e.Errno)))
	case "wrapped-syscall":
		return fmt.Errorf("backend: %w", &os.SyscallError{Syscall: "read", Err: syscall.Errno(e.Errno)})
	case "joined":
		return errors.Join(opaqueErr{"first"}, fmt.Errorf("second: %w", linux.Errno(e.Errno)))
	case "oserr":
		return osSentinel(e.Errno)
	case "wrapped-oserr":
		return fmt.Errorf("backend: %w", osSentinel(e.Errno))
	default:
		return opaqueErr{"opaque backend failure"}
	}
}

func osSentinel(errno int) error {
	switch errno {
	case 2:
		return os.ErrNotExist
	case 17:
		return os.ErrExist
	case 13:
		return os.ErrPermission
	default:
		return os.ErrInvalid
	}
}

// want is the errno the peer must see.
func (e errSpec) want() uint32 {
	switch e.Style {
	case "oserr", "wrapped-oserr":
		switch e.Errno {
		case 2, 17, 13:
			return uint32(e.Errno)
		}
		return 22
	case "opaque":
		return 5
	}
	return uint32(e.Errno)
}

var errStyles = []string{"linux", "syscall", "patherror", "wrapped-linux", "wrapped-syscall", "joined", "oserr", "wrapped-oserr", "opaque"}

func genErrSpec(rt *rapid.T) errSpec {
	e := errSpec{Style: rapid.SampledFrom(errStyles).Draw(rt, "errstyle")}
	switch e.Style {
	case "oserr", "wrapped-oserr":
		e.Errno = rapid.SampledFrom([]int{2, 17, 13, 22}).Draw(rt, "errno")
	case "opaque":
		e.Errno = 5
	default:
		e.Errno = rapid.SampledFrom(errnoChoices).Draw(rt, "errno")
	}
	return e
}
