package checks

import (
	"fmt"
	"time"

	"p9verif/memfs"
	"p9verif/memtree"
	"p9verif/peers"
	"p9verif/refcodec"

	"github.com/hugelgupf/p9/p9"
)

// teardownFaultCase (C05): the backend's Close fails (or panics) for some of the
// Files that are still bound when the connection ends. The fault stays with that
// File: every other File of the connection is still closed exactly once, Handle
// returns, and other connections of the server go on being served.
type teardownFaultCase struct {
	Native bool     `json:"native_walkgetattr"`
	Walks  []string `json:"walks"` // paths bound to fids 1.. (slash separated, "" = a clone of the root)
	Fail   []int    `json:"fail"`  // indices into Walks (or -1: the root fid 0) whose Close fails at teardown
	Panic  bool     `json:"panic"` // the first of them panics instead
	Errno  int      `json:"errno"`
	Clunk  int      `json:"clunk"` // index whose fid is clunked first with a failing Close (-1: none)
}

func runTeardownFaultCase(c teardownFaultCase) *fail {
	fs := memfs.New(memfs.Options{NativeWalkGetAttr: c.Native})
	memtree.Populate(fs.Tree)
	srv := p9.NewServer(fs)
	s, other := peers.Start(srv), peers.Start(srv)
	defer other.Close(10 * time.Second)
	desc := fmt.Sprintf("%+v", c)
	for _, x := range []*peers.Session{s, other} {
		if _, err := x.Version(64<<10, "9P2000.L.Google.7"); err != nil {
			return failf("harness-version", "HARNESS-ERROR %v", err)
		}
		if r, err := x.Call(withTag(tAttach(0, nofid, ""), 1)); err != nil || r.Type == refcodec.Rlerror {
			return failf("harness-attach", "HARNESS-ERROR %v %v", r, err)
		}
	}
	split := func(p string) []string {
		var out []string
		cur := ""
		for _, ch := range p {
			if ch == '/' {
				out = append(out, cur)
				cur = ""
			} else {
				cur += string(ch)
			}
		}
		if cur != "" {
			out = append(out, cur)
		}
		return out
	}
	for i, w := range c.Walks {
		if r, err := s.Call(withTag(tWalk(0, uint64(1+i), split(w)...), uint16(10+i))); err != nil || r.Type == refcodec.Rlerror {
			return failf("harness-walk", "HARNESS-ERROR walk %q: %v %v (%s)", w, r, err, desc)
		}
	}
	pathOf := func(i int) string {
		if i < 0 || c.Walks[i] == "" {
			return ""
		}
		return "/" + c.Walks[i]
	}
	if c.Clunk >= 0 && c.Clunk < len(c.Walks) {
		fs.FailNext("Close", pathOf(c.Clunk), c.Errno)
		if _, err := s.Call(withTag(tClunk(uint64(1+c.Clunk)), 90)); err != nil {
			return failf("no-reply:Tclunk", "Tclunk with a failing Close was not answered: %v (%s)", err, desc)
		}
		if r, err := s.Call(withTag(tGetattr(0), 91)); err != nil || r.Type != refcodec.Rgetattr {
			return failf("not-served-after-fault", "after a Tclunk whose Close failed, Tgetattr got %v / %v (%s)", r, err, desc)
		}
	}
	for k, i := range c.Fail {
		if i >= len(c.Walks) || i == c.Clunk {
			continue
		}
		if k == 0 && c.Panic {
			fs.PanicNext("Close", pathOf(i))
		} else {
			fs.FailNext("Close", pathOf(i), c.Errno)
		}
	}
	if !s.Close(20 * time.Second) {
		return failf("handle-did-not-return:teardown-fault", "Handle did not return after the connection ended with failing Close calls (%s)", desc)
	}
	// the other connection still works
	if r, err := other.Call(withTag(tWalk(0, 5, "d", "f"), 20)); err != nil || r.Type != refcodec.Rwalk {
		return failf("other-connection-not-served:teardown-fault", "after the teardown, a walk on another connection got %v / %v (%s)", r, err, desc)
	}
	otherHandles := map[int]bool{}
	_ = otherHandles
	if !other.Close(20 * time.Second) {
		return failf("handle-did-not-return:teardown-fault", "Handle of the other connection did not return (%s)", desc)
	}
	for _, a := range fs.Anomalies() {
		if a.Kind == "use-after-close" || a.Kind == "double-close" || a.Kind == "close-during-call" {
			return failf(a.Sig, "%s: %s (%s)", a.Kind, a.A, desc)
		}
	}
	for _, h := range fs.Handles() {
		if h.Closes != 1 {
			return failf("not-closed-at-teardown:after-close-fault", "File h%d (%s) was closed %d times although both connections ended; the Close of another File had failed (%s)", h.ID, h.Path, h.Closes, desc)
		}
	}
	return nil
}
