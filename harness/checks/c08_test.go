package checks

import (
	"fmt"
	"testing"

	"p9verif/evid"
	"p9verif/memtree"
	"p9verif/refcodec"
	"p9verif/refmodel"

	"pgregory.net/rapid"
)

// ---------------------------------------------------------------------------
// C08 — path coherence under rename/unlink and fencing of deleted paths

type connReq struct {
	Conn int           `json:"conn"`
	Req  *refcodec.Msg `json:"req"`
}

type pathCase struct {
	Conns  int       `json:"conns"`
	Native bool      `json:"native_walkgetattr"`
	Tree   string    `json:"tree"` // "small" | "deep"
	Setup  int       `json:"setup"`
	Steps  []connReq `json:"steps"`
	Life   bool      `json:"check_lifecycle"`
}

// populateSmall: /a (dir) /a/x (file "ax") /a/y (dir) /b (dir) /b/x (file "bx")
func populateSmall(t *memtree.Tree) {
	a, _ := t.Mkdir(t.Root, "a", 0o755, 0, 0)
	ax, _ := t.Create(a, "x", 0o644, 0, 0)
	ax.WriteAt([]byte("ax"), 0)
	t.Mkdir(a, "y", 0o755, 0, 0)
	b, _ := t.Mkdir(t.Root, "b", 0o755, 0, 0)
	bx, _ := t.Create(b, "x", 0o644, 0, 0)
	bx.WriteAt([]byte("bx"), 0)
}

// populateDeep: /a/b/c/f , /a/b/g , /a/h , /d/e/f , /d/k and a few files
func populateDeep(t *memtree.Tree) {
	mk := func(dir *memtree.Inode, n string) *memtree.Inode { i, _ := t.Mkdir(dir, n, 0o755, 0, 0); return i }
	fl := func(dir *memtree.Inode, n string) {
		i, _ := t.Create(dir, n, 0o644, 0, 0)
		i.WriteAt([]byte("data-"+n), 0)
	}
	a := mk(t.Root, "a")
	b := mk(a, "b")
	c := mk(b, "c")
	fl(c, "f")
	fl(b, "g")
	fl(a, "h")
	d := mk(t.Root, "d")
	e := mk(d, "e")
	fl(e, "f")
	fl(d, "k")
	fl(t.Root, "f")
}

var c08Setups = [][]connReq{
	{}, // nothing bound
	{ // small tree: 0=/ 1=/a 2=/a/x 3=/b
		{0, tAttach(0, nofid, "")}, {0, tWalk(0, 1, "a")}, {0, tWalk(0, 2, "a", "x")}, {0, tWalk(0, 3, "b")},
	},
	{ // as above plus an open file and a second fid on the same path
		{0, tAttach(0, nofid, "")}, {0, tWalk(0, 1, "a")}, {0, tWalk(0, 2, "a", "x")}, {0, tWalk(0, 3, "b")},
		{0, tOpen(2, 2)}, {0, tWalk(0, 4, "a", "y")},
	},
}

func c08Alphabet() []*refcodec.Msg {
	return []*refcodec.Msg{
		tWalk(0, 4, "a", "x"), tWalk(1, 4, "x"), tWalk(1, 4, "y"), tWalk(0, 4, "b", "x"), tWalk(2, 4), tWalk(1, 4), tWalk(3, 2, "x"),
		tWalk(0, 4, "c"), tWalk(4, 2), tWalk(4, 5, "x"),
		tMkdir(1, "z"), tMkdir(0, "a"), tMkdir(3, "y"), tCreate(4, "x", 2, 0o644), tCreate(3, "n", 2, 0o644),
		tRenameat(1, "x", 3, "x"), tRenameat(1, "x", 1, "z"), tRenameat(0, "a", 0, "c"), tRenameat(0, "a", 0, "b"),
		tRenameat(0, "b", 1, "y"), tRenameat(0, "c", 0, "a"), tRenameat(3, "x", 1, "x"), tRenameat(1, "y", 0, "b"),
		tRename(2, 3, "z"), tRename(1, 0, "c"), tRename(2, 1, "x"), tRename(4, 0, "a"), tRename(3, 1, "y"),
		tUnlinkat(1, "x"), tUnlinkat(0, "b"), tUnlinkat(0, "a"), tUnlinkat(1, "y"), tUnlinkat(3, "x"), tUnlinkat(0, "c"),
		tRemove(2), tRemove(4), tRemove(3), tClunk(2), tClunk(1), tClunk(4),
		tLink(3, 2, "l"), tOpen(2, 0), tOpen(4, 0), tGetattr(2),
	}
}

type pathStats struct {
	renameOrUnlinkOverHeld int
	fencedProbes           int
	identityProbes         int
	steps                  int
	desync                 bool
}

// heldAtOrBelow counts other fids at or below loc (any connection).
func heldAtOrBelow(m *refmodel.Model, loc []string, exceptConn int, except map[uint32]bool) int {
	n := 0
	for ci, c := range m.Conns {
		for num, f := range c {
			if ci == exceptConn && except[num] {
				continue
			}
			if f.IsXR || f.Fenced {
				continue
			}
			if len(f.Loc) >= len(loc) {
				ok := true
				for i := range loc {
					if f.Loc[i] != loc[i] {
						ok = false
						break
					}
				}
				if ok {
					n++
				}
			}
		}
	}
	return n
}

func affectedLocs(m *refmodel.Model, conn int, req *refcodec.Msg) [][]string {
	get := func(name string) *refmodel.Fid { return m.Get(conn, uint32(req.U(name))) }
	app := func(l []string, n string) []string { return append(append([]string{}, l...), n) }
	switch req.Type {
	case refcodec.Tunlinkat:
		if f := get("dirfid"); f != nil {
			return [][]string{app(f.Loc, req.S("name"))}
		}
	case refcodec.Trenameat:
		od, nd := get("olddirfid"), get("newdirfid")
		if od != nil && nd != nil {
			return [][]string{app(od.Loc, req.S("oldname")), app(nd.Loc, req.S("newname"))}
		}
	case refcodec.Trename:
		f, d := get("fid"), get("dfid")
		if f != nil && d != nil && len(f.Loc) > 0 {
			return [][]string{f.Loc, app(d.Loc, req.S("name"))}
		}
	case refcodec.Tremove:
		if f := get("fid"); f != nil && len(f.Loc) > 0 {
			return [][]string{f.Loc}
		}
	}
	return nil
}

func runPathCase(c pathCase, st *pathStats) *fail {
	pop := populateSmall
	if c.Tree == "deep" {
		pop = populateDeep
	}
	if c.Conns < 1 {
		c.Conns = 1
	}
	w, f := newWorld(worldOpts{conns: c.Conns, native: c.Native, populate: pop, life: c.Life})
	if f != nil {
		return f
	}
	defer w.closeAll()
	all := append(append([]connReq{}, c08Setups[c.Setup]...), c.Steps...)
	for i, s := range all {
		req := cloneMsg(s.Req)
		conn := s.Conn % c.Conns
		// non-triviality: a rename/unlink while another fid sits at or below
		held := 0
		if i >= len(c08Setups[c.Setup]) {
			exc := map[uint32]bool{}
			if req.Type == refcodec.Trename || req.Type == refcodec.Tremove {
				exc[uint32(req.U("fid"))] = true
			}
			for _, l := range affectedLocs(w.model, conn, req) {
				held += heldAtOrBelow(w.model, l, conn, exc)
			}
		}
		// names as the model knows them before the step (for the current-name check)
		var curParent, curName string
		sameEntry := false
		if req.Type == refcodec.Trename || req.Type == refcodec.Tremove {
			if fd := w.model.Get(conn, uint32(req.U("fid"))); fd != nil && len(fd.Loc) > 0 && !fd.IsXR {
				curName = fd.Loc[len(fd.Loc)-1]
				curParent = (&refmodel.Fid{Loc: fd.Loc[:len(fd.Loc)-1]}).Path()
				if req.Type == refcodec.Trename {
					if d := w.model.Get(conn, uint32(req.U("dfid"))); d != nil && d.Path() == curParent && req.S("name") == curName {
						sameEntry = true
					}
				}
			}
		}
		res, f := w.do(conn, req)
		if f != nil {
			return f
		}
		if st != nil {
			st.steps++
			if held > 0 && res.rep.Type != refcodec.Rlerror {
				st.renameOrUnlinkOverHeld++
			}
		}
		if w.desync {
			if st != nil {
				st.desync = true
			}
			break
		}
		// Trename / Tremove reach the backend under the entry's current name
		if res.rep.Type != refcodec.Rlerror && curName != "" {
			want := "RenameAt"
			if req.Type == refcodec.Tremove {
				want = "UnlinkAt"
			}
			found := false
			for _, call := range res.calls {
				if call.Op == want {
					found = true
					if call.Name != curName || call.Path != curParent {
						return failf("stale-name:"+refcodec.Name(req.Type), "%s reached the backend as %s, the entry's current parent/name are %q/%q; history: %s", req, call.String(), curParent, curName, w.history())
					}
				}
			}
			// a rename onto itself is answered without a backend call
			if !found && !sameEntry {
				return failf("no-backend-op:"+refcodec.Name(req.Type), "%s succeeded without %s reaching the backend; history: %s", req, want, w.history())
			}
		}
		if err := w.srv.VerifPathTreeCheck(); err != nil {
			return failf("path-tree-inconsistent", "after %s: %v; history: %s", req, err, w.history())
		}
		if f := w.checkCoherence(st, i); f != nil {
			return f
		}
	}
	if f := w.closeAll(); f != nil {
		return f
	}
	return nil
}

// checkCoherence is the C08 oracle after a step: every unfenced fid's backend
// handle holds the model's current path and getattr through it returns the
// object it was bound to; fenced fids are refused without a backend call.
func (w *world) checkCoherence(st *pathStats, step int) *fail {
	for ci := range w.conns {
		for _, num := range w.model.Fids(ci) {
			fd := w.model.Get(ci, num)
			if fd.Opaque || fd.IsXR {
				continue
			}
			hid := w.fidHandle[ci][num]
			if !fd.Fenced {
				if hi, ok := w.fs.HandleByID(hid); ok {
					if hi.Path != fd.Path() {
						return failf("stale-backend-path", "fid %d (connection %d) denotes %q in the model but its backend File was told %q; history: %s", num, ci, fd.Path(), hi.Path, w.history())
					}
				}
				res, f := w.do(ci, tGetattr(uint64(num)))
				if f != nil {
					return f
				}
				if st != nil {
					st.identityProbes++
				}
				if res.rep.Type == refcodec.Rlerror {
					return failf("identity-lost", "getattr through unfenced fid %d (%q) fails with errno %d; history: %s", num, fd.Path(), res.rep.U("ecode"), w.history())
				}
				if res.rep.Q("qid").Path != fd.Obj {
					return failf("identity-changed", "fid %d was bound to object %d but getattr through it now returns object %d (%q); history: %s", num, fd.Obj, res.rep.Q("qid").Path, fd.Path(), w.history())
				}
				if fd.Opened && fd.Type == memtree.TReg && fd.Flags&3 != 1 {
					if _, f := w.do(ci, tRead(uint64(num), 0, 64)); f != nil {
						return f
					}
				}
			} else if (step+int(num))%3 == 0 {
				// fenced: path-dependent operations are refused by the server itself
				probes := []*refcodec.Msg{
					tWalk(uint64(num), 0xF0F0, "x"), tOpen(uint64(num), 0), tMkdir(uint64(num), "q"), tCreate(uint64(num), "q", 2, 0o600),
					tSymlink(uint64(num), "q", "t"), tMknod(uint64(num), "q", 0o600), tUnlinkat(uint64(num), "x"),
					tRenameat(uint64(num), "x", uint64(num), "q"), tSetattr(uint64(num), 1, 0o600, 0), tReadlink(uint64(num)),
					tXattrwalk(uint64(num), 0xF0F1, "user.a"), tXattrcreate(uint64(num), "user.q", 1, 0), tLink(uint64(num), uint64(num), "q"),
				}
				for _, p := range probes {
					res, f := w.do(ci, p)
					if f != nil {
						return f
					}
					if st != nil {
						st.fencedProbes++
					}
					if res.rep.Type != refcodec.Rlerror {
						return failf("fenced-not-refused:"+refcodec.Name(p.Type), "%s through fenced fid %d was not refused; history: %s", p, num, w.history())
					}
				}
			}
		}
	}
	return nil
}

// genPathStep draws a request for the path-coherence generator.
func genPathStep(rt *rapid.T, m *refmodel.Model, conn int, names []string, nfids int) *refcodec.Msg {
	fids := make([]uint64, nfids)
	for i := range fids {
		fids[i] = uint64(i)
	}
	anyFid := func(l string) uint64 {
		b := m.Fids(conn)
		if len(b) > 0 && rapid.IntRange(0, 9).Draw(rt, l+"b") < 9 {
			return uint64(rapid.SampledFrom(b).Draw(rt, l))
		}
		return rapid.SampledFrom(fids).Draw(rt, l)
	}
	dirFid := func(l string) uint64 {
		var c []uint32
		for _, n := range m.Fids(conn) {
			f := m.Get(conn, n)
			if f.Type == memtree.TDir && !f.Opened && !f.Opaque {
				c = append(c, n)
			}
		}
		if len(c) > 0 && rapid.IntRange(0, 9).Draw(rt, l+"d") < 9 {
			return uint64(rapid.SampledFrom(c).Draw(rt, l))
		}
		return anyFid(l)
	}
	name := func(l string) string { return rapid.SampledFrom(names).Draw(rt, l) }
	newfid := func() uint64 { return rapid.SampledFrom(fids).Draw(rt, "newfid") }
	if len(m.Fids(conn)) == 0 {
		return tAttach(0, nofid, "")
	}
	switch rapid.IntRange(0, 23).Draw(rt, "k") {
	case 0:
		return tAttach(newfid(), nofid, rapid.SampledFrom([]string{"", "a", "a/b", "d/e"}).Draw(rt, "an"))
	case 1, 2, 3, 4:
		n := rapid.IntRange(1, 3).Draw(rt, "nw")
		var ns []string
		for i := 0; i < n; i++ {
			ns = append(ns, name("wn"))
		}
		if rapid.Bool().Draw(rt, "ga") {
			return tWalkGA(dirFid("fid"), newfid(), ns...)
		}
		return tWalk(dirFid("fid"), newfid(), ns...)
	case 5, 6:
		return tWalk(anyFid("fid"), newfid())
	case 7:
		return tMkdir(dirFid("fid"), name("n"))
	case 8:
		return tCreate(dirFid("fid"), name("n"), 2, 0o644)
	case 9, 10, 11, 12:
		return tRenameat(dirFid("od"), name("on"), dirFid("nd"), name("nn"))
	case 13, 14, 15:
		return tRename(anyFid("fid"), dirFid("dfid"), name("n"))
	case 16, 17, 18:
		return tUnlinkat(dirFid("fid"), name("n"))
	case 19:
		return tRemove(anyFid("fid"))
	case 20:
		return tClunk(anyFid("fid"))
	case 21:
		return tOpen(anyFid("fid"), uint64(rapid.SampledFrom([]int{0, 2}).Draw(rt, "fl")))
	case 22:
		return tLink(dirFid("dfid"), anyFid("fid"), name("n"))
	default:
		return tWrite(anyFid("fid"), 0, "w")
	}
}

func pathHash(c pathCase) uint64 {
	parts := [][]byte{{byte(c.Conns), byte(c.Setup)}, []byte(c.Tree)}
	if c.Native {
		parts = append(parts, []byte{1})
	}
	for _, s := range c.Steps {
		s.Req.Tag = 0
		parts = append(parts, []byte{byte(s.Conn)}, refcodec.Encode(s.Req))
	}
	return evid.Hash64(parts...)
}

func init() {
	replayRegistrars = append(replayRegistrars, func() {
		registerReplay("C08/localfs", runLfsCase)
		registerReplay("C08/exhaustive", func(c pathCase) *fail { return runPathCase(c, nil) })
		registerReplay("C08/random", func(c pathCase) *fail { return runPathCase(c, nil) })
	})
}

func TestC08(t *testing.T) {
	h := begin(t, "C08")
	defer h.Finish()
	env := h.Env

	// the path-based sample backend: renames with open and unopened fids on the
	// renamed entries, their ancestors and their descendants
	rapidCases(h, "localfs", env.PerShard(env.Pick(1600, 60000)), func(rt *rapid.T) lfsCase {
		var c lfsCase
		names := []string{"a", "b", "d", "f", "g", "h", "k", "n", "m"}
		paths := []string{"a", "a/f", "a/g", "a/b", "a/b/h", "d", "d/k", "d/a", "d/a/f", "d/a/b/h", "a/d", "a/d/k", "b", "b/h", "n", "a/n"}
		if rapid.Bool().Draw(rt, "preamble") {
			// fids on a directory, on entries in it and below it (1..6)
			for _, p := range []string{"a", "a/f", "a/b", "a/b/h", "d", "d/k"} {
				c.Ops = append(c.Ops, lfsOp{Kind: "walk", Path: p})
			}
		}
		for i := rapid.IntRange(3, 25).Draw(rt, "n"); i > 0; i-- {
			op := lfsOp{Kind: rapid.SampledFrom([]string{"walk", "walk", "walk", "open", "open", "create", "mkdir", "renameat", "renameat", "renameat", "truncate", "truncate", "getattr", "getattr", "walkchild"}).Draw(rt, "kind"),
				Fid: rapid.IntRange(0, 12).Draw(rt, "fid"), Fid2: rapid.IntRange(0, 12).Draw(rt, "fid2"),
				Name: rapid.SampledFrom(names).Draw(rt, "name"), Nam2: rapid.SampledFrom(names).Draw(rt, "name2"), Path: rapid.SampledFrom(paths).Draw(rt, "path")}
			c.Ops = append(c.Ops, op)
		}
		return c
	}, func(c lfsCase) *fail {
		renames, opens := 0, 0
		for _, o := range c.Ops {
			if o.Kind == "renameat" {
				renames++
			}
			if o.Kind == "open" || o.Kind == "create" {
				opens++
			}
		}
		h.Case(evid.HashJSON(c), renames > 0 && opens > 0, "localfs")
		return runLfsCase(c)
	})

	// the fence under schedules the harness owns: requests on an entry while it is
	// being unlinked, removed, renamed over or re-created (engine of C07)
	schedSubCheck(h, env.PerShard(env.Pick(3200, 80000)), []string{"f", "k", "e", "e", "fnew", "knew", "create", "create"}, keepC08)

	alpha := c08Alphabet()
	enumerate := func(label string, setup, depth int, native bool, al []*refcodec.Msg) bool {
		total := 1
		for i := 0; i < depth; i++ {
			total *= len(al)
		}
		for n := 0; n < total; n++ {
			if n%env.NShards != env.Shard {
				continue
			}
			c := pathCase{Conns: 1, Native: native, Tree: "small", Setup: setup}
			k := n
			idx := make([]int, depth)
			for i := depth - 1; i >= 0; i-- {
				idx[i] = k % len(al)
				k /= len(al)
			}
			for _, i := range idx {
				c.Steps = append(c.Steps, connReq{0, al[i]})
			}
			st := &pathStats{}
			f := runPathCase(c, st)
			h.Case(pathHash(c), st.renameOrUnlinkOverHeld > 0, "exhaustive:"+label)
			h.Count("identity-probes", int64(st.identityProbes))
			h.Count("fenced-probes", int64(st.fencedProbes))
			if st.renameOrUnlinkOverHeld > 1 && h.WantSample("exhaustive") {
				h.Sample("exhaustive", c)
			}
			if h.report("exhaustive", f, c) {
				return false
			}
		}
		h.Exhaustive(fmt.Sprintf("%s: all %d sequences of depth %d over %d requests after setup %d", label, total, depth, len(al), setup))
		return true
	}
	if !enumerate("depth2", 1, 2, false, alpha) || !enumerate("depth2-open", 2, 2, true, alpha) {
		return
	}
	if env.Thorough() {
		if !enumerate("depth3", 1, 3, false, alpha) || !enumerate("depth3-open", 2, 3, true, alpha) || !enumerate("depth4-renames", 2, 4, false, alpha[15:37]) {
			return
		}
	} else if !enumerate("depth3-renames", 2, 3, false, alpha[15:37]) {
		return
	}

	rapidCases(h, "random", env.PerShard(env.Pick(16000, 300000)), func(rt *rapid.T) pathCase {
		c := pathCase{Conns: rapid.IntRange(1, 2).Draw(rt, "conns"), Native: rapid.Bool().Draw(rt, "native"), Tree: "deep"}
		m := refmodel.New(c.Conns)
		populateDeep(m.Tree)
		names := []string{"a", "b", "c", "d", "e", "f", "g", "h", "k", "n"}
		n := rapid.IntRange(1, 80).Draw(rt, "len")
		for i := 0; i < n; i++ {
			conn := 0
			if c.Conns > 1 {
				conn = rapid.IntRange(0, c.Conns-1).Draw(rt, "conn")
			}
			r := genPathStep(rt, m, conn, names, 6)
			c.Steps = append(c.Steps, connReq{conn, r})
			m.Assume(m.Step(conn, r))
		}
		return c
	}, func(c pathCase) *fail {
		st := &pathStats{}
		f := runPathCase(c, st)
		h.Case(pathHash(c), st.renameOrUnlinkOverHeld > 0, fmt.Sprintf("random:conns=%d", c.Conns))
		h.Count("random:rename/unlink-with-held-fid", int64(st.renameOrUnlinkOverHeld))
		h.Count("identity-probes", int64(st.identityProbes))
		h.Count("fenced-probes", int64(st.fencedProbes))
		if st.renameOrUnlinkOverHeld > 3 && h.WantSample("random") {
			h.Sample("random", c)
		}
		return f
	})
}
