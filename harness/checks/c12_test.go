package checks

import (
	"fmt"
	"strings"
	"sync"
	"testing"
	"time"

	"p9verif/evid"
	"p9verif/peers"
	"p9verif/refcodec"

	"github.com/hugelgupf/p9/p9"
	"pgregory.net/rapid"
)

// ---------------------------------------------------------------------------
// C12 — version and msize negotiation

const maxMsize = 4 << 20

// refParseVersion is the oracle's own reading of a version string.
// kind: "valid" (N settled), "unsettled" (leading zeros / N >= 2^32: the
// statement does not say), "invalid".
func refParseVersion(s string) (kind string, n uint64) {
	if s == "9P2000.L" {
		return "valid", 0
	}
	const pfx = "9P2000.L.Google."
	if !strings.HasPrefix(s, pfx) {
		return "invalid", 0
	}
	d := s[len(pfx):]
	if d == "" {
		return "invalid", 0
	}
	for i := 0; i < len(d); i++ {
		if d[i] < '0' || d[i] > '9' {
			return "invalid", 0
		}
	}
	var v uint64
	over := false
	for i := 0; i < len(d); i++ {
		if v > (1<<63)/10 {
			over = true
		}
		v = v*10 + uint64(d[i]-'0')
	}
	if over || v >= 1<<32 {
		return "unsettled", 1 << 32
	}
	if len(d) > 1 && d[0] == '0' {
		return "unsettled", v
	}
	return "valid", v
}

func refVersionString(n uint64) string {
	if n == 0 {
		return "9P2000.L"
	}
	return fmt.Sprintf("9P2000.L.Google.%d", n)
}

type verCase struct {
	Msize   uint32 `json:"msize"`
	Version []byte `json:"version"`
	Tag     uint16 `json:"tag"`
	// Prior: Tversion requests sent earlier on the same connection (each is
	// judged like the last one: the answer depends on the request alone)
	Prior []verCase `json:"prior,omitempty"`
}

func runVerCase(c verCase) *fail {
	s := peers.Start(p9.NewServer(nullAttacher{}))
	defer s.Close(10 * time.Second)
	limit := uint64(maxMsize) // the frame limit in force: a later Tversion frame above it legitimately ends the connection
	for i, pc := range c.Prior {
		if uint64(7+4+2+len(pc.Version)) > limit {
			return nil
		}
		if f := judgeVersion(s, pc); f != nil {
			f.Msg = fmt.Sprintf("Tversion %d of %d on one connection: %s", i+1, len(c.Prior)+1, f.Msg)
			return f
		}
		if kind, _ := refParseVersion(string(pc.Version)); kind != "invalid" && pc.Msize != 0 {
			limit = min(uint64(pc.Msize), maxMsize)
			if kind == "unsettled" {
				limit = 0 // either reading was allowed: stop judging what follows
			}
		}
	}
	if uint64(7+4+2+len(c.Version)) > limit {
		return nil
	}
	f := judgeVersion(s, c)
	if f != nil && len(c.Prior) > 0 {
		f.Sig += ":renegotiated"
		f.Msg = fmt.Sprintf("Tversion %d of %d on one connection: %s", len(c.Prior)+1, len(c.Prior)+1, f.Msg)
	}
	return f
}

func judgeVersion(s *peers.Session, c verCase) *fail {
	req := refcodec.New(refcodec.Tversion, c.Tag, "msize", c.Msize, "version", string(c.Version))
	raw, err := s.RPC(refcodec.Encode(req))
	if err != nil {
		return failf("tversion-no-reply", "Tversion(msize=%d, %q): no reply: %v", c.Msize, c.Version, err)
	}
	rep, err := refcodec.DecodeStrict(raw)
	if err != nil {
		return failf("rversion-undecodable", "Tversion(msize=%d, %q): reply %x does not decode: %v", c.Msize, c.Version, raw, err)
	}
	if rep.Type != refcodec.Rversion {
		return failf("tversion-not-rversion", "Tversion(msize=%d, %q) answered with %s", c.Msize, c.Version, rep)
	}
	if rep.Tag != c.Tag {
		return failf("rversion-tag", "Tversion tag %d answered with tag %d", c.Tag, rep.Tag)
	}
	kind, n := refParseVersion(string(c.Version))
	isUnknown := rep.S("version") == "unknown" && rep.U("msize") == 0
	wantMsize := uint64(c.Msize)
	if wantMsize > maxMsize {
		wantMsize = maxMsize
	}
	accepted := func(n uint64) *fail {
		if n > 7 {
			n = 7
		}
		if rep.U("msize") != wantMsize {
			return failf("rversion-msize", "Tversion(msize=%d, %q): Rversion msize %d, want %d", c.Msize, c.Version, rep.U("msize"), wantMsize)
		}
		if rep.S("version") != refVersionString(n) {
			return failf("rversion-string", "Tversion(msize=%d, %q): Rversion version %q, want %q", c.Msize, c.Version, rep.S("version"), refVersionString(n))
		}
		k2, n2 := refParseVersion(rep.S("version"))
		if k2 != "valid" || n2 != n {
			return failf("rversion-reparse", "Rversion version %q does not parse back to %d", rep.S("version"), n)
		}
		return nil
	}
	switch {
	case c.Msize == 0 || kind == "invalid":
		if !isUnknown {
			return failf("rversion-should-be-unknown", "Tversion(msize=%d, %q): want (unknown, 0), got (%q, %d)", c.Msize, c.Version, rep.S("version"), rep.U("msize"))
		}
	case kind == "valid":
		return accepted(n)
	case kind == "unsettled":
		// either reading, but consistently: unknown/0, or the numeric reading
		if isUnknown {
			return nil
		}
		return accepted(n)
	}
	return nil
}

func genVersionString(rt *rapid.T) []byte {
	switch rapid.IntRange(0, 13).Draw(rt, "vk") {
	case 0:
		return []byte("9P2000.L")
	case 1:
		return []byte(fmt.Sprintf("9P2000.L.Google.%d", rapid.IntRange(0, 20).Draw(rt, "n")))
	case 2: // around 2^32 and beyond
		base := []uint64{1<<32 - 2, 1<<32 - 1, 1 << 32, 1<<32 + 1, 1<<63 - 1, 1 << 63, ^uint64(0)}
		v := rapid.SampledFrom(base).Draw(rt, "big")
		s := fmt.Sprintf("9P2000.L.Google.%d", v)
		if rapid.Bool().Draw(rt, "more") {
			s += "0000"
		}
		return []byte(s)
	case 3: // leading zeros
		return []byte("9P2000.L.Google." + strings.Repeat("0", rapid.IntRange(1, 4).Draw(rt, "z")) + fmt.Sprint(rapid.IntRange(0, 12).Draw(rt, "n")))
	case 4: // signs and blanks
		pre := rapid.SampledFrom([]string{"+", "-", " ", "\t", "0x", "٣"}).Draw(rt, "pre")
		return []byte("9P2000.L.Google." + pre + fmt.Sprint(rapid.IntRange(0, 9).Draw(rt, "n")))
	case 5: // trailing stuff
		post := rapid.SampledFrom([]string{" ", ".", ".0", "a", "\x00", "\n", "e1", "_"}).Draw(rt, "post")
		return []byte(fmt.Sprintf("9P2000.L.Google.%d%s", rapid.IntRange(0, 9).Draw(rt, "n"), post))
	case 6: // dots
		return []byte(rapid.SampledFrom([]string{"9P2000.L.", "9P2000.L.Google", "9P2000.L.Google.", "9P2000..L", "9P2000.L..Google.1",
			"9P2000.L.Google..1", ".9P2000.L", "9P2000.L.Google.1.2", "9P2000.L.Google.1.", "9P2000L", "9P2000.L.google.1", "9p2000.L", "9P2000.l", "9P2000.L.GOOGLE.3"}).Draw(rt, "dots"))
	case 7: // other dialects
		return []byte(rapid.SampledFrom([]string{"9P2000", "9P2000.u", "9P2000.U", "9P", "unknown", "", "9P2000.u.Google.1", "9P2000.Google.1", "9P2000.L.Goog.1"}).Draw(rt, "dial"))
	case 8: // arbitrary bytes
		return rapid.SliceOfN(rapid.Byte(), 0, 40).Draw(rt, "raw")
	case 12: // any run of decimal digits, most of them beyond 32 bits
		n := rapid.IntRange(8, 24).Draw(rt, "nd")
		b := []byte("9P2000.L.Google.")
		for i := 0; i < n; i++ {
			b = append(b, byte('0'+rapid.IntRange(0, 9).Draw(rt, "d")))
		}
		return b
	case 13: // any 64-bit number
		return []byte(fmt.Sprintf("9P2000.L.Google.%d", rapid.Uint64Range(1<<31, ^uint64(0)).Draw(rt, "u64")))
	default: // mutation of a valid string
		b := []byte(fmt.Sprintf("9P2000.L.Google.%d", rapid.IntRange(0, 12).Draw(rt, "n")))
		if rapid.Bool().Draw(rt, "plain") {
			b = []byte("9P2000.L")
		}
		i := rapid.IntRange(0, len(b)-1).Draw(rt, "i")
		switch rapid.IntRange(0, 3).Draw(rt, "mk") {
		case 0:
			b[i] = rapid.Byte().Draw(rt, "b")
		case 1:
			b = append(b[:i], b[i+1:]...)
		case 2:
			b = append(b[:i], append([]byte{rapid.Byte().Draw(rt, "b")}, b[i:]...)...)
		case 3:
			b[i] ^= 0x20
		}
		return b
	}
}

func genMsize(rt *rapid.T) uint32 {
	switch rapid.IntRange(0, 5).Draw(rt, "mk") {
	case 0:
		return rapid.SampledFrom([]uint32{0, 1, 6, 7, 8, 11, 23, 24, maxMsize - 1, maxMsize, maxMsize + 1, 1<<31 - 1, 1 << 31, 1<<32 - 1}).Draw(rt, "msz")
	case 1:
		return rapid.Uint32Range(0, 4096).Draw(rt, "msz")
	default:
		return rapid.Uint32().Draw(rt, "msz")
	}
}

// ---------------------------------------------------------------------------
// client side

type cverCase struct {
	ClientMsize uint32 `json:"client_msize"`
	Reply       string `json:"reply"`         // "rversion" | "rlerror"
	OfferVer    []byte `json:"offer_version"` // for rversion
	OfferMsize  uint32 `json:"offer_msize"`
	Errno       uint32 `json:"errno"` // for rlerror
	IOSize      int    `json:"io_size"`
}

// typeAllowed says whether a request type belongs to version n.
func typeAllowed(t uint8, n uint64) bool { return uint64(refcodec.MinVersion(t)) <= n }

func runCverCase(c cverCase) (f *fail) {
	fk := peers.NewFake()
	stop := make(chan struct{})
	defer close(stop)
	defer fk.Close()
	type seen struct {
		typ  uint8
		size int
	}
	var frames []seen
	var fmu sync.Mutex
	record := func(s seen) {
		fmu.Lock()
		frames = append(frames, s)
		fmu.Unlock()
	}
	kind, offN := refParseVersion(string(c.OfferVer))
	go fk.Serve(stop, func(req *refcodec.Msg, raw []byte) []*refcodec.Msg {
		if req == nil {
			record(seen{raw[4], len(raw)})
			return []*refcodec.Msg{{Type: refcodec.Rlerror, Tag: uint16(raw[5]) | uint16(raw[6])<<8, F: map[string]any{"ecode": uint64(5)}}}
		}
		if req.Type == refcodec.Tversion {
			if c.Reply == "rlerror" {
				return []*refcodec.Msg{refcodec.New(refcodec.Rlerror, req.Tag, "ecode", c.Errno)}
			}
			return []*refcodec.Msg{refcodec.New(refcodec.Rversion, req.Tag, "msize", c.OfferMsize, "version", string(c.OfferVer))}
		}
		record(seen{req.Type, len(raw)})
		// replies are kept small so they fit any offered msize
		maxData := int(c.OfferMsize) - 11
		if maxData < 0 {
			maxData = 0
		}
		return []*refcodec.Msg{peers.GenericReply(req, maxData)}
	})
	type res struct {
		cl  *p9.Client
		err error
	}
	rc := make(chan res, 1)
	go func() {
		var opts []p9.ClientOpt
		if c.ClientMsize != 0 {
			opts = append(opts, p9.WithMessageSize(c.ClientMsize))
		}
		cl, err := p9.NewClient(fk.Client, opts...)
		rc <- res{cl, err}
	}()
	var r res
	select {
	case r = <-rc:
	case <-time.After(20 * time.Second):
		return failf("newclient-hang", "NewClient did not return for offer (%q, %d) reply=%s errno=%d", c.OfferVer, c.OfferMsize, c.Reply, c.Errno)
	}
	reqMsize := c.ClientMsize
	if reqMsize == 0 {
		reqMsize = p9.DefaultMessageSize
	}
	if c.Reply == "rlerror" {
		if c.Errno == 11 { // EAGAIN: documented "try a lower version" signal; every retry is refused too
			if r.err == nil {
				return failf("newclient-eagain", "NewClient succeeded although every Tversion was refused with EAGAIN")
			}
			return nil
		}
		if r.err == nil {
			return failf("newclient-rlerror-accepted", "NewClient succeeded although Tversion was answered Rlerror(%d)", c.Errno)
		}
		return nil
	}
	if kind != "valid" || offN > 7 {
		// not a 9P2000.L version the client could have been offered
		if kind == "invalid" && r.err == nil {
			return failf("newclient-bad-version-accepted", "NewClient succeeded although the server answered version %q", c.OfferVer)
		}
		return nil
	}
	usable := c.OfferMsize > 160 // room for the largest fixed-size message plus payload
	if r.err != nil {
		if usable {
			return failf("newclient-valid-offer-refused", "NewClient failed for a valid offer (%q, %d): %v", c.OfferVer, c.OfferMsize, r.err)
		}
		return nil // an unusably small msize may be refused
	}
	cl := r.cl
	if uint64(cl.Version()) != offN {
		return failf("client-version-not-adopted", "server offered %q, Client.Version() = %d", c.OfferVer, cl.Version())
	}
	// exercise the client and look at everything it sends afterwards
	done := make(chan struct{})
	go func() {
		defer close(done)
		root, err := cl.Attach("")
		if err != nil {
			return
		}
		_, f1, _, _, err := root.WalkGetAttr([]string{"a"})
		if err == nil {
			f1.GetAttr(p9.AttrMaskAll)
		}
		root.Mkdir("d", 0o755, 1, 2)
		root.Symlink("t", "s", 1, 2)
		root.Mknod("n", p9.ModeNamedPipe|0o600, 0, 0, 1, 2)
		_, wf, err := root.Walk(nil)
		if err == nil {
			wf.Create("c", p9.ReadWrite, 0o644, 1, 2)
			buf := make([]byte, c.IOSize)
			wf.WriteAt(buf, 0)
			wf.ReadAt(buf, 0)
			wf.Readdir(0, uint32(c.IOSize))
			wf.Close()
		}
		root.GetXattr("user.x")
	}()
	select {
	case <-done:
	case <-time.After(30 * time.Second):
		return failf("client-hang-after-negotiation", "client operations did not complete against the fake server (offer %q, %d)", c.OfferVer, c.OfferMsize)
	}
	if !usable {
		return nil
	}
	fmu.Lock()
	defer fmu.Unlock()
	for _, s := range frames {
		if !typeAllowed(s.typ, offN) {
			return failf("client-uses-type-above-version", "negotiated version %d, client sent %s", offN, refcodec.Name(s.typ))
		}
		if uint32(s.size) > c.OfferMsize && c.OfferMsize <= reqMsize {
			return failf("client-ignores-lowered-msize", "server announced msize %d (client asked %d), client sent a %d-byte %s", c.OfferMsize, reqMsize, s.size, refcodec.Name(s.typ))
		}
	}
	return nil
}

func genCverCase(rt *rapid.T) cverCase {
	c := cverCase{}
	if rapid.Bool().Draw(rt, "custom") {
		c.ClientMsize = rapid.SampledFrom([]uint32{4096, 8192, 65536, 1 << 20, 200, 1000}).Draw(rt, "cm")
	}
	req := c.ClientMsize
	if req == 0 {
		req = p9.DefaultMessageSize
	}
	switch rapid.IntRange(0, 9).Draw(rt, "rk") {
	case 0:
		c.Reply = "rlerror"
		c.Errno = rapid.SampledFrom([]uint32{1, 5, 11, 22, 38, 95}).Draw(rt, "errno")
		return c
	case 1, 2:
		c.Reply = "rversion"
		c.OfferVer = genVersionString(rt)
	default:
		c.Reply = "rversion"
		c.OfferVer = []byte(refVersionString(uint64(rapid.IntRange(0, 7).Draw(rt, "n"))))
	}
	switch rapid.IntRange(0, 3).Draw(rt, "mk") {
	case 0:
		c.OfferMsize = req
	case 1:
		c.OfferMsize = rapid.Uint32Range(161, req).Draw(rt, "om")
	case 2:
		c.OfferMsize = rapid.SampledFrom([]uint32{161, 200, 512, 1024, 4096}).Draw(rt, "om")
		if c.OfferMsize > req {
			c.OfferMsize = req
		}
	case 3:
		c.OfferMsize = rapid.Uint32Range(0, 160).Draw(rt, "om")
	}
	c.IOSize = rapid.SampledFrom([]int{0, 1, 100, 5000, 20000, 70000, 200000}).Draw(rt, "io")
	return c
}

var fuzz12Run *evid.Run
var fuzz12Once sync.Once

// FuzzC12Version: coverage-guided search over version strings (thorough tier).
func FuzzC12Version(f *testing.F) {
	for _, s := range []string{"9P2000.L", "9P2000.L.Google.7", "9P2000.L.Google.0", "9P2000.L.Google.4294967296", "9P2000.L.Google.007", "9P2000", "9P2000.u", "unknown", "9P2000.L.Google.", "9P2000.L.Google.+1"} {
		f.Add(uint32(8192), s)
		f.Add(uint32(0), s)
	}
	f.Fuzz(func(t *testing.T, msize uint32, version string) {
		if len(version) > 60000 {
			return
		}
		c := verCase{Msize: msize, Version: []byte(version), Tag: refcodec.NOTAG}
		if fl := runVerCase(c); fl != nil {
			fuzz12Once.Do(func() { fuzz12Run = evid.Begin(t, "C12") })
			if fuzz12Run.Known(fl.Sig) {
				return
			}
			fuzz12Run.Violation("server", fl.Sig, fl.Msg, c)
			t.Fatalf("FUZZ-VIOLATION replay=%s [%s] %s", fuzz12Run.ReplayPath("server", fl.Sig), fl.Sig, fl.Msg)
		}
	})
}

func init() {
	replayRegistrars = append(replayRegistrars, func() {
		registerReplay("C12/server", runVerCase)
		registerReplay("C12/client", runCverCase)
	})
}

func TestC12(t *testing.T) {
	h := begin(t, "C12")
	defer h.Finish()
	env := h.Env

	// every N in 0..20 and the canonical forms, all with a few msizes (seed independent)
	if env.Shard == 0 {
		for n := 0; n <= 20; n++ {
			for _, ms := range []uint32{0, 1, 7, 8192, maxMsize, maxMsize + 1, 1<<32 - 1} {
				c := verCase{Msize: ms, Version: []byte(fmt.Sprintf("9P2000.L.Google.%d", n)), Tag: refcodec.NOTAG}
				h.Case(evid.HashJSON(c), n > 0, "server:enumerated-N")
				if h.report("server", runVerCase(c), c) {
					return
				}
			}
		}
		h.Exhaustive("version numbers 0..20 x 7 boundary msize values")
	}
	rapidCases(h, "server", env.PerShard(env.Pick(48000, 1000000)), func(rt *rapid.T) verCase {
		c := verCase{Msize: genMsize(rt), Version: genVersionString(rt), Tag: refcodec.NOTAG}
		if rapid.IntRange(0, 9).Draw(rt, "tagk") == 0 {
			c.Tag = rapid.Uint16().Draw(rt, "tag")
		}
		// a third of the cases renegotiate: 1-2 earlier Tversion requests on the same connection
		if rapid.IntRange(0, 2).Draw(rt, "reneg") == 0 {
			for k := rapid.IntRange(1, 2).Draw(rt, "nprior"); k > 0; k-- {
				pc := verCase{Tag: refcodec.NOTAG}
				switch rapid.IntRange(0, 3).Draw(rt, "pmk") {
				case 0:
					pc.Msize = c.Msize // the same limit again, another version
				case 1:
					pc.Msize = rapid.SampledFrom([]uint32{64, 8192, 65536, maxMsize, maxMsize + 1}).Draw(rt, "pmsz")
				default:
					pc.Msize = genMsize(rt)
				}
				if rapid.IntRange(0, 3).Draw(rt, "pvk") == 0 {
					pc.Version = genVersionString(rt)
				} else {
					pc.Version = []byte(refVersionString(uint64(rapid.IntRange(0, 9).Draw(rt, "pn"))))
				}
				c.Prior = append(c.Prior, pc)
			}
		}
		return c
	}, func(c verCase) *fail {
		f := runVerCase(c)
		kind, n := refParseVersion(string(c.Version))
		canonical := kind == "valid" && string(c.Version) == refVersionString(n)
		cls := "server:" + kind
		if len(c.Prior) > 0 {
			cls = "server:renegotiation:" + kind
		}
		h.Case(evid.HashJSON(c), !canonical || len(c.Prior) > 0, cls)
		if c.Msize == 0 {
			h.Count("server:msize0", 1)
		}
		if c.Msize > maxMsize {
			h.Count("server:msize>4MiB", 1)
		}
		if !canonical && h.WantSample("server") {
			h.Sample("server", map[string]any{"msize": c.Msize, "version": string(c.Version), "oracle": kind})
		}
		return f
	})
	rapidCases(h, "client", env.PerShard(env.Pick(2400, 200000)), genCverCase, func(c cverCase) *fail {
		f := runCverCase(c)
		req := c.ClientMsize
		if req == 0 {
			req = p9.DefaultMessageSize
		}
		kind, n := refParseVersion(string(c.OfferVer))
		lowers := c.Reply == "rlerror" || kind != "valid" || n < 7 || c.OfferMsize < req
		cls := "client:offer-" + kind
		if c.Reply == "rlerror" {
			cls = "client:rlerror"
		}
		h.Case(evid.HashJSON(c), lowers, cls)
		if c.Reply == "rversion" && c.OfferMsize < req && c.OfferMsize > 160 {
			h.Count("client:msize-lowered", 1)
		}
		if h.WantSample("client") {
			h.Sample("client", map[string]any{"client_msize": c.ClientMsize, "reply": c.Reply, "offer_version": string(c.OfferVer), "offer_msize": c.OfferMsize, "errno": c.Errno, "io_size": c.IOSize})
		}
		return f
	})
}
