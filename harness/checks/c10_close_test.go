package checks

import (
	"fmt"
	"runtime"
	"sync"
	"time"

	"p9verif/peers"
	"p9verif/refcodec"

	"github.com/hugelgupf/p9/p9"
)

// concCloseCase (C10): several goroutines release ONE File at the same moment
// (Close/Close, Close/Remove, ...), then new Files are bound. The fake server
// holds a clunk/remove until the requests of the round's other callers have
// arrived too (or a few milliseconds have passed), confirms the first and
// confirms or refuses the others. Oracle: the wire as the server sees it - a fid
// number is bound by a new request only when the server no longer has it bound,
// no tag is outstanding twice.
type concCloseCase struct {
	Rounds []concCloseRound `json:"rounds"`
}

type concCloseRound struct {
	Callers  []string `json:"callers"`   // close | remove, 2-4 of them on the same File
	SecondOK bool     `json:"second_ok"` // later clunks of the same fid are confirmed too (else refused, as a real server would)
	Walks    int      `json:"walks"`     // Files bound afterwards
}

func runConcCloseCase(c concCloseCase) *fail {
	fk := peers.NewFake()
	defer fk.Close()
	tr := &fakeTracker{bound: map[uint64]bool{}, out: map[uint16]bool{}}
	stop := make(chan struct{})
	defer close(stop)
	var mu sync.Mutex
	var bad *fail
	expect, secondOK := 1, true
	dup := 0
	go func() {
		var held []*refcodec.Msg
		var since time.Time
		flush := func() {
			seen := map[uint64]bool{}
			for _, r := range held {
				fid := r.U("fid")
				ok := !seen[fid] || secondOK
				if seen[fid] {
					dup++
				}
				seen[fid] = true
				tr.onReply(r, ok)
				if ok {
					fk.Reply(peers.GenericReply(r, 0))
				} else {
					fk.Reply(refcodec.New(refcodec.Rlerror, r.Tag, "ecode", 9))
				}
			}
			held = nil
		}
		for {
			select {
			case <-stop:
				return
			default:
			}
			raw, err := fk.Next(2 * time.Millisecond)
			mu.Lock()
			if err == peers.ErrTimeout {
				if len(held) > 0 && time.Since(since) > 6*time.Millisecond {
					flush()
				}
				mu.Unlock()
				continue
			}
			if err != nil {
				mu.Unlock()
				return
			}
			req, derr := refcodec.DecodeStrict(raw)
			if derr != nil {
				if bad == nil {
					bad = failf("client-sent-undecodable", "the client sent %x (%v)", raw[:min(len(raw), 32)], derr)
				}
				mu.Unlock()
				continue
			}
			if f := tr.onRequest(req); f != nil && bad == nil {
				bad = f
			}
			if req.Type == refcodec.Tclunk || req.Type == refcodec.Tremove {
				if len(held) == 0 {
					since = time.Now()
				}
				held = append(held, req)
				if len(held) >= expect {
					flush()
				}
			} else {
				tr.onReply(req, true)
				fk.Reply(peers.GenericReply(req, 0))
			}
			mu.Unlock()
		}
	}()
	cl, err := p9.NewClient(fk.Client)
	if err != nil {
		return failf("harness-newclient", "HARNESS-ERROR %v", err)
	}
	root, err := cl.Attach("")
	if err != nil {
		return failf("harness-attach", "HARNESS-ERROR %v", err)
	}
	defer runtime.KeepAlive(root)
	var files []p9.File
	defer func() { runtime.KeepAlive(&files) }()
	for ri, r := range c.Rounds {
		_, victim, err := root.Walk([]string{"v"})
		if err != nil {
			return failf("harness-walk", "HARNESS-ERROR %v", err)
		}
		mu.Lock()
		expect, secondOK = len(r.Callers), r.SecondOK
		mu.Unlock()
		start := make(chan struct{})
		var wg sync.WaitGroup
		for _, k := range r.Callers {
			wg.Add(1)
			go func(k string) {
				defer wg.Done()
				<-start
				if k == "remove" {
					victim.(interface{ Remove() error }).Remove()
				} else {
					victim.Close()
				}
			}(k)
		}
		close(start)
		done := make(chan struct{})
		go func() { wg.Wait(); close(done) }()
		select {
		case <-done:
		case <-time.After(20 * time.Second):
			return failf("client-call-hangs:concurrent-close", "a Close/Remove did not return (round %d of %+v)", ri, c)
		}
		mu.Lock()
		expect = 1
		mu.Unlock()
		for i := 0; i < r.Walks; i++ {
			if _, f, err := root.Walk([]string{"x"}); err == nil {
				files = append(files, f)
			}
		}
		mu.Lock()
		b := bad
		mu.Unlock()
		if b != nil {
			b.Msg += fmt.Sprintf("; round %d of %+v", ri, c)
			return b
		}
	}
	return nil
}
