package checks

import (
	"bytes"
	"encoding/binary"
	"errors"
	"fmt"
	"time"

	"p9verif/memfs"
	"p9verif/vconn"

	"github.com/hugelgupf/p9/linux"
	"github.com/hugelgupf/p9/p9"
)

// clientPairCase (C18, receive side of the client): two calls of ONE client are
// held inside the backend and let go at the same moment, so that their replies
// arrive back to back and are decoded one right after the other while the first
// caller has not yet looked at its result. Every caller must get the content of
// its own reply frame: its errno, its attributes, its bytes.
type clientPairCase struct {
	Kinds  []string `json:"kinds"` // per round: fail-fail | attr-attr | read-read | fail-read | fail-attr | link-link
	Native bool     `json:"native_walkgetattr"`
}

var clientPairKinds = []string{"fail-fail", "attr-attr", "read-read", "fail-read", "fail-attr", "link-link"}

func runClientPairCase(c clientPairCase) *fail {
	fs := memfs.New(memfs.Options{NativeWalkGetAttr: c.Native})
	ia, _ := fs.Tree.Create(fs.Tree.Root, "a", 0o644, 0, 0)
	ib, _ := fs.Tree.Create(fs.Tree.Root, "b", 0o600, 7, 8)
	da, db := patternAt(3, 700), patternAt(90001, 3100)
	ia.WriteAt(da, 0)
	ib.WriteAt(db, 0)
	fs.Tree.Symlink(fs.Tree.Root, "la", "target-of-la", 0, 0)
	fs.Tree.Symlink(fs.Tree.Root, "lb", "the-other-target/which/is/longer", 0, 0)
	// (own pipe: the replies of a round are kept back until both have been written,
	// so that the client finds them back to back)
	ca, cb := vconn.Pipe()
	srvDone := make(chan struct{})
	go func() { p9.NewServer(fs).Handle(cb, cb); close(srvDone) }()
	cl, err := p9.NewClient(ca)
	defer func() {
		ca.In.SetCredit(-1)
		ca.Close()
		select {
		case <-srvDone:
		case <-time.After(10 * time.Second):
		}
	}()
	if err != nil {
		return failf("harness-dial", "HARNESS-ERROR %v", err)
	}
	root, err := cl.Attach("")
	if err != nil {
		return failf("harness-attach", "HARNESS-ERROR %v", err)
	}
	defer root.Close()
	walk := func(n string, open bool) (p9.File, *fail) {
		_, f, err := root.Walk([]string{n})
		if err != nil {
			return nil, failf("harness-walk", "HARNESS-ERROR %v", err)
		}
		if open {
			if _, _, err := f.Open(p9.ReadOnly); err != nil {
				return nil, failf("harness-open", "HARNESS-ERROR %v", err)
			}
		}
		return f, nil
	}
	fa, f := walk("a", false)
	if f != nil {
		return f
	}
	defer fa.Close()
	fb, f := walk("b", false)
	if f != nil {
		return f
	}
	defer fb.Close()
	oa, f := walk("a", true)
	if f != nil {
		return f
	}
	defer oa.Close()
	ob, f := walk("b", true)
	if f != nil {
		return f
	}
	defer ob.Close()
	la, f := walk("la", false)
	if f != nil {
		return f
	}
	defer la.Close()
	lb, f := walk("lb", false)
	if f != nil {
		return f
	}
	defer lb.Close()

	type res struct {
		err  error
		attr p9.Attr
		qid  p9.QID
		data []byte
		s    string
	}
	fail1 := func(file p9.File, size uint64) func() res {
		return func() res { return res{err: file.SetAttr(p9.SetAttrMask{Size: true}, p9.SetAttr{Size: size})} }
	}
	attr1 := func(file p9.File) func() res {
		return func() res {
			q, _, a, err := file.GetAttr(p9.AttrMaskAll)
			return res{err: err, attr: a, qid: q}
		}
	}
	read1 := func(file p9.File, n int) func() res {
		return func() res {
			b := make([]byte, n)
			m, err := file.ReadAt(b, 0)
			return res{err: err, data: b[:m]}
		}
	}
	link1 := func(file p9.File) func() res {
		return func() res { s, err := file.Readlink(); return res{err: err, s: s} }
	}
	for r, k := range c.Kinds {
		ea, eb := 28+r%3, 122-r%2
		var callA, callB func() res
		var judgeA, judgeB func(res) string
		wantErr := func(e int) func(res) string {
			return func(x res) string {
				if !errors.Is(x.err, linux.Errno(e)) {
					return fmt.Sprintf("refused by the backend with errno %d, the caller got %v", e, x.err)
				}
				return ""
			}
		}
		wantAttr := func(size uint64, uid uint32, id uint64) func(res) string {
			return func(x res) string {
				if x.err != nil || x.attr.Size != size || uint32(x.attr.UID) != uid || x.qid.Path != id {
					return fmt.Sprintf("GetAttr: want size %d uid %d QID path %d, the caller got size %d uid %d QID path %d (%v)", size, uid, id, x.attr.Size, x.attr.UID, x.qid.Path, x.err)
				}
				return ""
			}
		}
		wantData := func(d []byte) func(res) string {
			return func(x res) string {
				if x.err != nil || !bytes.Equal(x.data, d) {
					return fmt.Sprintf("ReadAt of %d bytes: the caller got %d bytes, equal=%v (%v)", len(d), len(x.data), bytes.Equal(x.data, d), x.err)
				}
				return ""
			}
		}
		wantStr := func(s string) func(res) string {
			return func(x res) string {
				if x.err != nil || x.s != s {
					return fmt.Sprintf("Readlink: want %q, the caller got %q (%v)", s, x.s, x.err)
				}
				return ""
			}
		}
		ops := map[string]bool{}
		switch k {
		case "fail-fail":
			fs.FailNext("SetAttr", "/a", ea)
			fs.FailNext("SetAttr", "/b", eb)
			callA, callB, judgeA, judgeB = fail1(fa, 1), fail1(fb, 2), wantErr(ea), wantErr(eb)
			ops["SetAttr"] = true
		case "attr-attr":
			callA, callB = attr1(fa), attr1(fb)
			judgeA, judgeB = wantAttr(uint64(len(da)), 0, ia.ID), wantAttr(uint64(len(db)), 7, ib.ID)
			ops["GetAttr"] = true
		case "read-read":
			callA, callB, judgeA, judgeB = read1(oa, len(da)), read1(ob, len(db)), wantData(da), wantData(db)
			ops["ReadAt"] = true
		case "fail-read":
			fs.FailNext("SetAttr", "/a", ea)
			callA, callB, judgeA, judgeB = fail1(fa, 1), read1(ob, len(db)), wantErr(ea), wantData(db)
			ops["SetAttr"], ops["ReadAt"] = true, true
		case "fail-attr":
			fs.FailNext("SetAttr", "/b", eb)
			callA, callB, judgeA, judgeB = attr1(fa), fail1(fb, 2), wantAttr(uint64(len(da)), 0, ia.ID), wantErr(eb)
			ops["SetAttr"], ops["GetAttr"] = true, true
		case "link-link":
			callA, callB, judgeA, judgeB = link1(la), link1(lb), wantStr("target-of-la"), wantStr("the-other-target/which/is/longer")
			ops["Readlink"] = true
		default:
			return failf("harness-kind", "HARNESS-ERROR kind %q", k)
		}
		g := memfs.NewGate(func(cl *memfs.Call) bool { return ops[cl.Op] })
		g.Repeat = true
		fs.AddGate(g)
		ra, rb := make(chan res, 1), make(chan res, 1)
		go func() { ra <- callA() }()
		go func() { rb <- callB() }()
		for i := 0; i < 2; i++ {
			select {
			case <-g.Entered:
			case <-time.After(20 * time.Second):
				fs.ClearGates()
				return failf("harness-gate", "HARNESS-ERROR the two calls did not reach the backend (round %d, %s)", r, k)
			}
		}
		// both replies are produced at the same moment and delivered together
		frozen := ca.In.Written()
		ca.In.SetCredit(frozen)
		fs.ClearGates()
		for dl := time.Now().Add(10 * time.Second); time.Now().Before(dl); time.Sleep(50 * time.Microsecond) {
			b := ca.In.Slice(frozen, ca.In.Written())
			frames := 0
			for len(b) >= 4 {
				n := int(binary.LittleEndian.Uint32(b))
				if n < 7 || n > len(b) {
					break
				}
				b = b[n:]
				frames++
			}
			if frames >= 2 {
				break
			}
		}
		ca.In.SetCredit(-1)
		var a, b res
		for i := 0; i < 2; i++ {
			select {
			case a = <-ra:
				ra = nil
			case b = <-rb:
				rb = nil
			case <-time.After(20 * time.Second):
				return failf("client-call-hangs:pair", "a call did not return (round %d, %s)", r, k)
			}
		}
		if m := judgeA(a); m != "" {
			return failf("carry-over:client-reply:"+k, "round %d (%s), first caller: %s", r, k, m)
		}
		if m := judgeB(b); m != "" {
			return failf("carry-over:client-reply:"+k, "round %d (%s), second caller: %s", r, k, m)
		}
	}
	return nil
}
