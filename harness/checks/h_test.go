package checks

import (
	"encoding/json"
	"flag"
	"fmt"
	"os"
	"runtime/debug"
	"strconv"
	"strings"
	"sync"
	"testing"

	"p9verif/evid"

	"pgregory.net/rapid"
)

// fail describes one violation found by a case.
type fail struct {
	Sig string // stable signature: what relation failed, where
	Msg string // human readable detail
}

func failf(sig, format string, a ...any) *fail {
	return &fail{Sig: sig, Msg: fmt.Sprintf(format, a...)}
}

// H wraps an evid.Run with the rapid integration.
type H struct {
	*evid.Run
	t  *testing.T
	mu sync.Mutex
}

func begin(t *testing.T, prop string) *H {
	h := &H{Run: evid.Begin(t, prop), t: t}
	return h
}

// report records a violation found outside rapid (enumerations, concurrency
// checks) and returns true if it counts (not a known finding).
func (h *H) report(sub string, f *fail, c any) bool {
	if f == nil {
		return false
	}
	if h.Violation(sub, f.Sig, f.Msg, c) {
		h.t.Errorf("VIOLATION %s/%s [%s]: %s", h.Property, sub, f.Sig, f.Msg)
		return true
	}
	return false
}

// shrinkTime bounds rapid's shrinking phase (a check with expensive failing cases lowers it).
var shrinkTime = "20s"

// replayers maps "<property>/<sub>" to a function that re-executes a
// serialised case without any library in between.
var replayers = map[string]func(raw json.RawMessage) *fail{}

func registerReplay[C any](key string, run func(c C) *fail) {
	replayers[key] = func(raw json.RawMessage) *fail {
		var c C
		if err := json.Unmarshal(raw, &c); err != nil {
			return &fail{Sig: "replay-decode", Msg: err.Error()}
		}
		return run(c)
	}
}

// rapidCases runs n generated cases of gen/run under rapid with a seed derived
// from VERIF_SEED, the shard and the label. run returns nil when the case
// passes. A failing case is shrunk by rapid and the minimal case recorded.
func rapidCases[C any](h *H, sub string, n int, gen func(rt *rapid.T) C, run func(c C) *fail) {
	key := h.Property + "/" + sub
	if _, ok := replayers[key]; !ok {
		registerReplay(key, run)
	}
	if n <= 0 {
		return
	}
	var lastC C
	var last *fail
	flag.Set("rapid.checks", strconv.Itoa(n))
	flag.Set("rapid.seed", strconv.FormatUint(h.Env.Mix(sub), 10))
	flag.Set("rapid.nofailfile", "true")
	flag.Set("rapid.shrinktime", shrinkTime)
	ok := h.t.Run(sub, func(t *testing.T) {
		rapid.Check(t, func(rt *rapid.T) {
			c := gen(rt)
			var f *fail
			func() {
				defer func() {
					if r := recover(); r != nil {
						f = &fail{Sig: "harness-panic", Msg: fmt.Sprintf("HARNESS-ERROR panic in case: %v\n%s", r, debug.Stack())}
					}
				}()
				// if the process dies inside the case (a panic on a goroutine the
				// library started or was called on), the driver reports this case
				h.Danger(sub, "process-died:"+sub, "the test process died while this case was running", c)
				defer h.Safe()
				f = run(c)
			}()
			if f != nil && f.Sig != "harness-panic" && h.Known(f.Sig) {
				f = nil
			}
			if f != nil {
				last, lastC = f, c
				rt.Fatalf("[%s] %s", f.Sig, f.Msg)
			}
		})
	})
	if !ok {
		if last == nil {
			h.t.Errorf("HARNESS-ERROR rapid failed in %s without a recorded case", key)
			return
		}
		if strings.HasPrefix(last.Sig, "harness-") {
			h.t.Errorf("HARNESS-ERROR %s: %s", key, last.Msg)
			return
		}
		h.Violation(sub, last.Sig, last.Msg, lastC)
	}
}

// TestReplay re-executes the case in $VERIF_REPLAY.
func TestReplay(t *testing.T) {
	path := os.Getenv("VERIF_REPLAY")
	if path == "" {
		t.Skip("no VERIF_REPLAY")
	}
	rf, err := evid.LoadReplay(path)
	if err != nil {
		t.Fatalf("HARNESS-ERROR cannot load replay: %v", err)
	}
	registerAllReplays()
	fn := replayers[rf.Property+"/"+rf.Sub]
	if fn == nil {
		t.Fatalf("HARNESS-ERROR no replayer for %s/%s", rf.Property, rf.Sub)
	}
	f := fn(rf.Case)
	if f != nil {
		fmt.Printf("REPLAY-VIOLATION property=%s sub=%s [%s] %s\n", rf.Property, rf.Sub, f.Sig, f.Msg)
		t.Fail()
		return
	}
	fmt.Printf("REPLAY-PASS property=%s sub=%s\n", rf.Property, rf.Sub)
}

// replayRegistrars are filled by each check file's init so TestReplay knows
// all sub-checks without running them.
var replayRegistrars []func()

func registerAllReplays() {
	for _, f := range replayRegistrars {
		f()
	}
}
