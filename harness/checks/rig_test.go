package checks

import (
	"fmt"
	"sync"
	"time"

	"p9verif/mockfs"
	"p9verif/peers"
	"p9verif/refcodec"
	"p9verif/vconn"

	"github.com/hugelgupf/p9/p9"
)

// tapFrame is one frame seen by the tap.
type tapFrame struct {
	T   bool // client -> server
	Raw []byte
}

// tap sits between a real client and a real server, records every frame in
// both directions and can rewrite the client's Tversion (version string,
// msize) so that old protocol versions are reachable with the real pair.
type tap struct {
	mu        sync.Mutex
	frames    []tapFrame
	version   string // non-empty: replace the version string of Tversion
	msize     uint32 // non-zero: replace the msize of Tversion
	clientEnd *vconn.End
	done      chan struct{}
}

func newTap(srv *p9.Server, version string, msize uint32) *tap {
	t := &tap{version: version, msize: msize, done: make(chan struct{})}
	ca, ta := vconn.Pipe() // client <-> tap
	tb, sb := vconn.Pipe() // tap <-> server
	t.clientEnd = ca
	go func() {
		srv.Handle(sb, sb)
		close(t.done)
	}()
	go func() { // T direction
		for {
			f, err := peers.ReadFrame(ta)
			if err != nil {
				tb.Close()
				return
			}
			if f[4] == refcodec.Tversion && (t.version != "" || t.msize != 0) {
				if m, err := refcodec.DecodeStrict(f); err == nil {
					if t.version != "" {
						m.F["version"] = t.version
					}
					if t.msize != 0 {
						m.F["msize"] = uint64(t.msize)
					}
					f = refcodec.Encode(m)
				}
			}
			t.mu.Lock()
			t.frames = append(t.frames, tapFrame{true, f})
			t.mu.Unlock()
			tb.Write(f)
		}
	}()
	go func() { // R direction
		for {
			f, err := peers.ReadFrame(tb)
			if err != nil {
				ta.Close()
				return
			}
			t.mu.Lock()
			t.frames = append(t.frames, tapFrame{false, f})
			t.mu.Unlock()
			ta.Write(f)
		}
	}()
	return t
}

func (t *tap) mark() int {
	t.mu.Lock()
	defer t.mu.Unlock()
	return len(t.frames)
}

func (t *tap) since(mark int) []tapFrame {
	t.mu.Lock()
	defer t.mu.Unlock()
	return append([]tapFrame(nil), t.frames[mark:]...)
}

// rig is a real client talking to a real server over a tap, with a mock backend.
type rig struct {
	mock    *mockfs.Mock
	srv     *p9.Server
	cl      *p9.Client
	tap     *tap
	version uint32
	fidOf   map[p9.File]uint64 // client file -> fid number seen on the wire
	fileOf  map[p9.File]int    // client file -> mock File id it denotes
	bound   map[uint64]bool    // fids the server has bound (per the wire)
}

func versionStr(v uint32) string {
	if v == 0 {
		return "9P2000.L"
	}
	return fmt.Sprintf("9P2000.L.Google.%d", v)
}

func newRig(version uint32, native bool, msize uint32) (*rig, *fail) {
	r := &rig{mock: mockfs.New(native), version: version, fidOf: map[p9.File]uint64{}, fileOf: map[p9.File]int{}, bound: map[uint64]bool{}}
	r.srv = p9.NewServer(r.mock)
	r.tap = newTap(r.srv, versionStr(version), 0)
	var opts []p9.ClientOpt
	if msize != 0 {
		opts = append(opts, p9.WithMessageSize(msize))
	}
	cl, err := p9.NewClient(r.tap.clientEnd, opts...)
	if err != nil {
		return nil, failf("harness-newclient", "HARNESS-ERROR NewClient: %v", err)
	}
	r.cl = cl
	if cl.Version() != version {
		return nil, failf("client-version-not-adopted", "tap offered version %d, Client.Version() = %d", version, cl.Version())
	}
	return r, nil
}

func (r *rig) close() {
	r.tap.clientEnd.Close()
	select {
	case <-r.tap.done:
	case <-time.After(10 * time.Second):
	}
}

// lastNew returns the id of the last mock File created by calls since index from.
func (r *rig) lastNew(from int) int {
	id := 0
	for _, c := range r.mock.Calls(from) {
		if c.New != 0 {
			id = c.New
		}
	}
	return id
}
