// Package refmodel is an executable reference model of a 9P2000.L session:
// fid table, open state, path identity and fencing over a memtree.Tree. It is
// written from the property statements (DESIGN appendix B), not from the
// server's data structures: renames rewrite path prefixes, unlinks set a
// fenced flag on every fid at or below the path.
package refmodel

import (
	"fmt"
	"sort"
	"strings"

	"p9verif/memtree"
	"p9verif/refcodec"
)

const (
	EPERM   = 1
	ENOENT  = 2
	EBADF   = 9
	EBUSY   = 16
	EINVAL  = 22
	EISDIR  = 21
	ENOSYS  = 38
	ENOBUFS = 105
)

// MaxCount is the largest Tread count that is not refused outright.
const MaxCount = 4 << 20

// XW is a pending xattr create.
type XW struct {
	Name  string
	Size  uint64
	Flags uint64
	Buf   []byte
}

// Fid is the model's view of one bound fid.
type Fid struct {
	Loc       []string
	Obj       uint64
	Type      uint32
	Opened    bool
	Flags     uint64
	Fenced    bool
	Root      bool
	IsXR      bool
	XR        []byte
	XW        *XW
	Opaque    bool // behaviour deliberately not modelled (left open by the properties)
	XRUnknown bool // xattr-read fid whose value the model does not know
	OpenIno   *memtree.Inode
	Serial    int // unique per binding (lets checks tell rebinding from persistence)
}

func (f *Fid) path() string { return "/" + strings.Join(f.Loc, "/") }

// Model is the session model. One Model may serve several connections of one
// server: the tree is shared, fid tables are per connection.
type Model struct {
	Tree   *memtree.Tree
	Conns  []map[uint32]*Fid
	serial int
	// AnyCount counts decisions the properties leave open.
	AnyCount map[string]int
}

// New returns a model over a fresh tree with n connections.
func New(n int) *Model {
	m := &Model{Tree: memtree.New(), AnyCount: map[string]int{}}
	for i := 0; i < n; i++ {
		m.Conns = append(m.Conns, map[uint32]*Fid{})
	}
	return m
}

// Bad reports whether a name is unsafe as a path component.
func Bad(n string) bool {
	return n == "" || n == "." || n == ".." || strings.Contains(n, "/")
}

// Expect is the set of acceptable outcomes of one request.
type Expect struct {
	Req    *refcodec.Msg
	Conn   int
	Errnos map[uint32]bool // rejections by the session model
	AnyErr bool            // any errno acceptable (left open)
	AnyOK  bool            // success acceptable without predicting the fields
	Why    string          // why the outcome is left open
	// Reject: the request must not reach the backend (server-side rejection).
	NoBackend bool
	// run applies the request to the model (when no rejection applies) and
	// returns the expected success reply or a tree errno.
	run func() (*refcodec.Msg, int)
	// onReject is run when the request was answered with an error.
	onReject func()
	// onOpenOK is run when an open-ended request succeeded.
	onAnyOK func(rep *refcodec.Msg)
}

func (e *Expect) reject(errno uint32) {
	if e.Errnos == nil {
		e.Errnos = map[uint32]bool{}
	}
	e.Errnos[errno] = true
}

// Rejected reports whether the model rejects the request.
func (e *Expect) Rejected() bool { return len(e.Errnos) > 0 }

func (e *Expect) errnoList() []uint32 {
	var l []uint32
	for k := range e.Errnos {
		l = append(l, k)
	}
	sort.Slice(l, func(i, j int) bool { return l[i] < l[j] })
	return l
}

// Verdict is the result of judging a reply.
type Verdict struct {
	OK   bool
	Sig  string
	Msg  string
	Open bool // the outcome was one the properties leave open
}

func bad(sig, format string, a ...any) Verdict {
	return Verdict{Sig: sig, Msg: fmt.Sprintf(format, a...)}
}

func qid(i *memtree.Inode) refcodec.QID {
	return refcodec.QID{Type: memtree.QIDType(i.Type), Version: 0, Path: i.ID}
}

func (m *Model) fid(conn int, n uint64) *Fid { return m.Conns[conn][uint32(n)] }

func (m *Model) bind(conn int, n uint64, f *Fid) {
	m.serial++
	f.Serial = m.serial
	m.Conns[conn][uint32(n)] = f
}

func (m *Model) unbind(conn int, n uint64) { delete(m.Conns[conn], uint32(n)) }

func hasPrefix(loc, prefix []string) bool {
	if len(loc) < len(prefix) {
		return false
	}
	for i := range prefix {
		if loc[i] != prefix[i] {
			return false
		}
	}
	return true
}

func join(loc []string, name string) []string {
	out := make([]string, 0, len(loc)+1)
	out = append(out, loc...)
	return append(out, name)
}

func eq(a, b []string) bool { return len(a) == len(b) && hasPrefix(a, b) }

// fence marks every unfenced fid at or below loc (all connections).
func (m *Model) fence(loc []string) {
	for _, c := range m.Conns {
		for _, f := range c {
			if !f.IsXR && hasPrefix(f.Loc, loc) {
				f.Fenced = true
			}
		}
	}
}

// move rewrites the prefix from -> to on every unfenced fid at or below from.
func (m *Model) move(from, to []string) {
	for _, c := range m.Conns {
		for _, f := range c {
			if !f.Fenced && !f.IsXR && hasPrefix(f.Loc, from) {
				nl := append(append([]string{}, to...), f.Loc[len(from):]...)
				f.Loc = nl
			}
		}
	}
}

func rep(req *refcodec.Msg, kv ...any) *refcodec.Msg {
	return refcodec.New(req.Type+1, req.Tag, kv...)
}

// dirChecks adds the rejections common to operations inside a directory fid.
func dirChecks(e *Expect, f *Fid) {
	if f.Fenced || f.Type != memtree.TDir {
		e.reject(EINVAL)
	}
	if f.Opened {
		e.reject(EINVAL)
	}
}

// Step computes the acceptable outcomes of a request without changing the
// model. Judge then compares the actual reply and commits the effect.
func (m *Model) Step(conn int, req *refcodec.Msg) *Expect {
	e := &Expect{Req: req, Conn: conn}
	open := func(why string) {
		e.AnyErr, e.AnyOK, e.Why = true, true, why
		m.AnyCount[why]++
	}
	switch req.Type {
	case refcodec.Tauth:
		e.reject(ENOSYS)
		e.NoBackend = true

	case refcodec.Tflush:
		e.run = func() (*refcodec.Msg, int) { return rep(req), 0 }

	case refcodec.Tattach:
		m.stepAttach(e, conn, req, open)

	case refcodec.Twalk, refcodec.Twalkgetattr:
		m.stepWalk(e, conn, req, open)

	case refcodec.Tlopen:
		f := m.fid(conn, req.U("fid"))
		if f == nil {
			e.reject(EBADF)
			e.NoBackend = true
			break
		}
		if f.Opaque {
			// an attribute fid has no file type: it cannot be opened
			e.reject(EINVAL)
			e.NoBackend = true
			break
		}
		if f.Fenced {
			e.reject(EINVAL)
		}
		if f.Opened {
			e.reject(EINVAL)
		}
		switch f.Type {
		case memtree.TSymlink, memtree.TSock:
			e.reject(EINVAL)
		case memtree.TDir:
			if req.U("flags")&3 != 0 {
				e.reject(EISDIR)
			}
		}
		e.NoBackend = e.Rejected()
		e.run = func() (*refcodec.Msg, int) {
			i, en := m.Tree.Resolve(f.Loc)
			if en != 0 {
				return nil, en
			}
			f.Opened, f.Flags, f.OpenIno = true, req.U("flags"), i
			return rep(req, "qid", qid(i), "iounit", 0), 0
		}

	case refcodec.Tlcreate, refcodec.Tucreate:
		name := req.S("name")
		if Bad(name) {
			e.reject(EINVAL)
		}
		f := m.fid(conn, req.U("fid"))
		if f == nil {
			e.reject(EBADF)
			e.NoBackend = true
			break
		}
		if f.Opaque {
			open("operation on an xattr-read fid")
			break
		}
		dirChecks(e, f)
		e.NoBackend = e.Rejected()
		e.run = func() (*refcodec.Msg, int) {
			dir, en := m.Tree.Resolve(f.Loc)
			if en != 0 {
				return nil, en
			}
			uid := uint64(refcodec.NOUID)
			if req.Type == refcodec.Tucreate {
				uid = req.U("uid")
			}
			i, en := m.Tree.Create(dir, name, uint32(req.U("mode")), uint32(uid), uint32(req.U("gid")))
			if en != 0 {
				return nil, en
			}
			m.bind(conn, req.U("fid"), &Fid{Loc: join(f.Loc, name), Obj: i.ID, Type: memtree.TReg, Opened: true,
				Flags: req.U("flags"), OpenIno: i})
			return rep(req, "qid", qid(i), "iounit", 0), 0
		}

	case refcodec.Tmkdir, refcodec.Tumkdir, refcodec.Tsymlink, refcodec.Tusymlink, refcodec.Tmknod, refcodec.Tumknod:
		name := req.S("name")
		if Bad(name) {
			e.reject(EINVAL)
		}
		f := m.fid(conn, req.U("dfid"))
		if f == nil {
			e.reject(EBADF)
			e.NoBackend = true
			break
		}
		if f.Opaque {
			open("operation on an xattr-read fid")
			break
		}
		dirChecks(e, f)
		e.NoBackend = e.Rejected()
		e.run = func() (*refcodec.Msg, int) {
			dir, en := m.Tree.Resolve(f.Loc)
			if en != 0 {
				return nil, en
			}
			uid := uint64(refcodec.NOUID)
			if _, ok := req.F["uid"]; ok {
				uid = req.U("uid")
			}
			var i *memtree.Inode
			switch req.Type {
			case refcodec.Tmkdir, refcodec.Tumkdir:
				i, en = m.Tree.Mkdir(dir, name, uint32(req.U("mode")), uint32(uid), uint32(req.U("gid")))
			case refcodec.Tsymlink, refcodec.Tusymlink:
				i, en = m.Tree.Symlink(dir, name, req.S("symtgt"), uint32(uid), uint32(req.U("gid")))
			default:
				i, en = m.Tree.Mknod(dir, name, uint32(req.U("mode")), uint32(req.U("major")), uint32(req.U("minor")), uint32(uid), uint32(req.U("gid")))
			}
			if en != 0 {
				return nil, en
			}
			return rep(req, "qid", qid(i)), 0
		}

	case refcodec.Tlink:
		if Bad(req.S("name")) {
			e.reject(EINVAL)
		}
		d, t := m.fid(conn, req.U("dfid")), m.fid(conn, req.U("fid"))
		if d == nil || t == nil {
			e.reject(EBADF)
			e.NoBackend = true
			break
		}
		if d.Opaque || t.Opaque {
			open("operation on an xattr-read fid")
			break
		}
		dirChecks(e, d)
		e.NoBackend = e.Rejected()
		if !e.Rejected() && t.Fenced {
			open("link target is a fenced fid")
			e.onAnyOK = func(*refcodec.Msg) {
				// follow the backend: the link happened if the path resolved
				if dir, en := m.Tree.Resolve(d.Loc); en == 0 {
					if ti, en := m.Tree.Resolve(t.Loc); en == 0 {
						m.Tree.Link(dir, ti, req.S("name"))
					}
				}
			}
			break
		}
		e.run = func() (*refcodec.Msg, int) {
			dir, en := m.Tree.Resolve(d.Loc)
			if en != 0 {
				return nil, en
			}
			ti, en := m.Tree.Resolve(t.Loc)
			if en != 0 {
				return nil, en
			}
			if en := m.Tree.Link(dir, ti, req.S("name")); en != 0 {
				return nil, en
			}
			return rep(req), 0
		}

	case refcodec.Tunlinkat:
		name := req.S("name")
		if Bad(name) {
			e.reject(EINVAL)
		}
		f := m.fid(conn, req.U("dirfid"))
		if f == nil {
			e.reject(EBADF)
			e.NoBackend = true
			break
		}
		if f.Opaque {
			open("operation on an xattr-read fid")
			break
		}
		dirChecks(e, f)
		e.NoBackend = e.Rejected()
		e.run = func() (*refcodec.Msg, int) {
			dir, en := m.Tree.Resolve(f.Loc)
			if en != 0 {
				return nil, en
			}
			if en := m.Tree.Unlink(dir, name); en != 0 {
				return nil, en
			}
			m.fence(join(f.Loc, name))
			return rep(req), 0
		}

	case refcodec.Trenameat:
		if Bad(req.S("oldname")) || Bad(req.S("newname")) {
			e.reject(EINVAL)
		}
		od, nd := m.fid(conn, req.U("olddirfid")), m.fid(conn, req.U("newdirfid"))
		if od == nil || nd == nil {
			e.reject(EBADF)
			e.NoBackend = true
			break
		}
		if od.Opaque || nd.Opaque {
			open("operation on an xattr-read fid")
			break
		}
		if od.Fenced || od.Type != memtree.TDir || nd.Fenced || nd.Type != memtree.TDir {
			e.reject(EINVAL)
		}
		if od.Opened {
			e.reject(EINVAL)
		}
		e.NoBackend = e.Rejected()
		m.renameRun(e, conn, req, od.Loc, req.S("oldname"), nd.Loc, req.S("newname"))
		if !e.Rejected() && nd.Opened {
			// renaming into an opened target directory: not settled by the text
			run := e.run
			open("renameat into an opened target directory")
			e.run = nil
			e.onAnyOK = func(*refcodec.Msg) { run() }
		}

	case refcodec.Trename:
		if Bad(req.S("name")) {
			e.reject(EINVAL)
		}
		f, d := m.fid(conn, req.U("fid")), m.fid(conn, req.U("dfid"))
		if f == nil || d == nil {
			e.reject(EBADF)
			e.NoBackend = true
			break
		}
		if f.Opaque && !f.IsXR || d.Opaque {
			open("operation on an xattr-read fid")
			break
		}
		if f.Root || f.IsXR {
			e.reject(EINVAL)
		}
		if f.Fenced || d.Fenced || d.Type != memtree.TDir {
			e.reject(EINVAL)
		}
		e.NoBackend = e.Rejected()
		if !e.Rejected() {
			m.renameRun(e, conn, req, f.Loc[:len(f.Loc)-1], f.Loc[len(f.Loc)-1], d.Loc, req.S("name"))
		}

	case refcodec.Tremove:
		f := m.fid(conn, req.U("fid"))
		if f == nil {
			e.reject(EBADF)
			e.NoBackend = true
			break
		}
		unbind := func() { m.unbind(conn, req.U("fid")) }
		e.onReject = unbind
		if f.Opaque && !f.IsXR {
			open("operation on an xattr-read fid")
			e.onAnyOK = func(*refcodec.Msg) { unbind() }
			break
		}
		if f.Root || f.IsXR {
			e.reject(EINVAL)
		}
		if f.Fenced {
			e.reject(EINVAL)
		}
		e.NoBackend = e.Rejected()
		e.run = func() (*refcodec.Msg, int) {
			unbind()
			dir, en := m.Tree.Resolve(f.Loc[:len(f.Loc)-1])
			if en != 0 {
				return nil, en
			}
			if en := m.Tree.Unlink(dir, f.Loc[len(f.Loc)-1]); en != 0 {
				return nil, en
			}
			m.fence(f.Loc)
			return rep(req), 0
		}

	case refcodec.Tclunk:
		f := m.fid(conn, req.U("fid"))
		if f == nil {
			e.reject(EBADF)
			e.NoBackend = true
			break
		}
		unbind := func() { m.unbind(conn, req.U("fid")) }
		e.onReject = unbind
		if f.Opaque && !f.IsXR {
			open("operation on an xattr-read fid")
			e.onAnyOK = func(*refcodec.Msg) { unbind() }
			break
		}
		if f.XW != nil {
			if uint64(len(f.XW.Buf)) != f.XW.Size {
				e.reject(EINVAL)
				e.NoBackend = true
				break
			}
			if f.Fenced {
				open("xattr finalisation through a fenced fid")
				e.onAnyOK = func(*refcodec.Msg) {
					unbind()
					if i, en := m.Tree.Resolve(f.Loc); en == 0 {
						m.applyXW(i, f.XW)
					}
				}
				break
			}
			e.run = func() (*refcodec.Msg, int) {
				unbind()
				i, en := m.Tree.Resolve(f.Loc)
				if en != 0 {
					return nil, en
				}
				if en := m.applyXW(i, f.XW); en != 0 {
					return nil, en
				}
				return rep(req), 0
			}
			break
		}
		e.run = func() (*refcodec.Msg, int) {
			unbind()
			return rep(req), 0
		}

	case refcodec.Treadlink:
		f := m.fid(conn, req.U("fid"))
		if f == nil {
			e.reject(EBADF)
			e.NoBackend = true
			break
		}
		if f.Opaque {
			open("operation on an xattr-read fid")
			break
		}
		if f.Fenced || f.Type != memtree.TSymlink {
			e.reject(EINVAL)
		}
		e.NoBackend = e.Rejected()
		e.run = func() (*refcodec.Msg, int) {
			i, en := m.Tree.Resolve(f.Loc)
			if en != 0 {
				return nil, en
			}
			return rep(req, "target", i.Target), 0
		}

	case refcodec.Tread:
		m.stepRead(e, conn, req, open)

	case refcodec.Twrite:
		m.stepWrite(e, conn, req, open)

	case refcodec.Treaddir:
		f := m.fid(conn, req.U("fid"))
		if f == nil {
			e.reject(EBADF)
			e.NoBackend = true
			break
		}
		if f.Opaque {
			open("operation on an xattr-read fid")
			break
		}
		if f.Type != memtree.TDir {
			e.reject(EINVAL)
		}
		if !f.Opened {
			e.reject(EINVAL)
		}
		e.NoBackend = e.Rejected()
		if !e.Rejected() && f.Fenced {
			open("readdir on an open but fenced directory")
			break
		}
		e.run = func() (*refcodec.Msg, int) {
			dir := f.OpenIno
			var ds []refcodec.Dirent
			for k, n := range memtree.Names(dir) {
				if uint64(k) < req.U("offset") {
					continue
				}
				c := dir.Children[n]
				ds = append(ds, refcodec.Dirent{QID: qid(c), Offset: uint64(k + 1), Type: memtree.QIDType(c.Type), Name: n})
			}
			ds = refcodec.CutDirents(ds, req.U("count"))
			if ds == nil {
				ds = []refcodec.Dirent{}
			}
			return rep(req, "entries", ds), 0
		}

	case refcodec.Tfsync:
		f := m.fid(conn, req.U("fid"))
		if f == nil {
			e.reject(EBADF)
			e.NoBackend = true
			break
		}
		if f.Opaque {
			open("operation on an xattr-read fid")
			break
		}
		if !f.Opened {
			e.reject(EINVAL)
		}
		e.NoBackend = e.Rejected()
		e.run = func() (*refcodec.Msg, int) { return rep(req), 0 }

	case refcodec.Tgetattr:
		f := m.fid(conn, req.U("fid"))
		if f == nil {
			e.reject(EBADF)
			e.NoBackend = true
			break
		}
		if f.Opaque {
			open("operation on an xattr-read fid")
			break
		}
		if f.Fenced {
			open("getattr through a fenced fid")
			break
		}
		e.run = func() (*refcodec.Msg, int) {
			i, en := m.Tree.Resolve(f.Loc)
			if en != 0 {
				return nil, en
			}
			return rep(req, "valid", uint64(memtree.AttrValidAll), "qid", qid(i), "attr", refcodec.Attr(memtree.AttrOf(i))), 0
		}

	case refcodec.Tstatfs:
		if m.fid(conn, req.U("fid")) == nil {
			e.reject(EBADF)
			e.NoBackend = true
			break
		}
		e.run = func() (*refcodec.Msg, int) {
			s := memtree.StatFS
			return rep(req, "type", s[0], "bsize", s[1], "blocks", s[2], "bfree", s[3], "bavail", s[4], "files", s[5],
				"ffree", s[6], "fsid", s[7], "namelen", s[8]), 0
		}

	case refcodec.Tlock:
		if m.fid(conn, req.U("fid")) == nil {
			e.reject(EBADF)
			e.NoBackend = true
			break
		}
		e.run = func() (*refcodec.Msg, int) { return rep(req, "status", 0), 0 }

	case refcodec.Tsetattr:
		f := m.fid(conn, req.U("fid"))
		if f == nil {
			e.reject(EBADF)
			e.NoBackend = true
			break
		}
		if f.Opaque {
			open("operation on an xattr-read fid")
			break
		}
		if f.Fenced {
			e.reject(EINVAL)
		}
		e.NoBackend = e.Rejected()
		e.run = func() (*refcodec.Msg, int) {
			i, en := m.Tree.Resolve(f.Loc)
			if en != 0 {
				return nil, en
			}
			v := req.U("valid")
			if v&0x8 != 0 && i.Type != memtree.TReg {
				// the backend applies the other fields before noticing
				if v&0x1 != 0 {
					i.Perm = uint32(req.U("mode")) & 0o7777
				}
				if v&0x2 != 0 {
					i.UID = uint32(req.U("uid"))
				}
				if v&0x4 != 0 {
					i.GID = uint32(req.U("gid"))
				}
				return nil, EINVAL
			}
			if v&0x1 != 0 {
				i.Perm = uint32(req.U("mode")) & 0o7777
			}
			if v&0x2 != 0 {
				i.UID = uint32(req.U("uid"))
			}
			if v&0x4 != 0 {
				i.GID = uint32(req.U("gid"))
			}
			if v&0x8 != 0 {
				i.Truncate(req.U("size"))
			}
			return rep(req), 0
		}

	case refcodec.Txattrwalk:
		f := m.fid(conn, req.U("fid"))
		if f == nil {
			e.reject(EBADF)
			e.NoBackend = true
			break
		}
		if f.Opaque {
			open("operation on an xattr-read fid")
			e.onAnyOK = func(*refcodec.Msg) {
				m.bind(conn, req.U("newfid"), &Fid{Opaque: true, IsXR: true, XRUnknown: true, Root: true, Loc: f.Loc})
			}
			break
		}
		if f.Fenced {
			e.reject(EINVAL)
		}
		e.NoBackend = e.Rejected()
		e.run = func() (*refcodec.Msg, int) {
			i, en := m.Tree.Resolve(f.Loc)
			if en != 0 {
				return nil, en
			}
			var buf []byte
			if req.S("name") != "" {
				buf, en = i.GetXattr(req.S("name"))
				if en != 0 {
					return nil, en
				}
			} else {
				buf = []byte(strings.Join(i.ListXattrs(), "\x00") + "\x00")
			}
			m.bind(conn, req.U("newfid"), &Fid{Opaque: true, IsXR: true, Root: true, XR: buf, Loc: f.Loc, Type: 0})
			return rep(req, "size", uint64(len(buf))), 0
		}

	case refcodec.Txattrcreate:
		f := m.fid(conn, req.U("fid"))
		if f == nil {
			e.reject(EBADF)
			e.NoBackend = true
			break
		}
		if f.Opaque {
			open("operation on an xattr-read fid")
			// from here on nothing about this fid is predicted
			e.onAnyOK = func(*refcodec.Msg) { f.IsXR, f.XR = false, nil }
			break
		}
		if f.Fenced {
			e.reject(EINVAL)
		}
		e.NoBackend = true
		e.run = func() (*refcodec.Msg, int) {
			f.XW = &XW{Name: req.S("name"), Size: req.U("attr_size"), Flags: req.U("flags")}
			return rep(req), 0
		}

	default:
		open("request type not modelled")
	}
	return e
}

func (m *Model) applyXW(i *memtree.Inode, x *XW) int {
	if x.Flags == memtree.XattrReplace && x.Size == 0 {
		return i.RemoveXattr(x.Name)
	}
	return i.SetXattr(x.Name, x.Buf, int(x.Flags))
}

func (m *Model) renameRun(e *Expect, conn int, req *refcodec.Msg, odLoc []string, on string, ndLoc []string, nn string) {
	odLoc, ndLoc = append([]string{}, odLoc...), append([]string{}, ndLoc...)
	e.run = func() (*refcodec.Msg, int) {
		if eq(odLoc, ndLoc) && on == nn {
			return rep(req), 0 // same entry: success, nothing changes
		}
		od, en := m.Tree.Resolve(odLoc)
		if en != 0 {
			return nil, en
		}
		nd, en := m.Tree.Resolve(ndLoc)
		if en != 0 {
			return nil, en
		}
		if en := m.Tree.Rename(od, on, nd, nn); en != 0 {
			return nil, en
		}
		m.fence(join(ndLoc, nn))
		m.move(join(odLoc, on), join(ndLoc, nn))
		return rep(req), 0
	}
}

func (m *Model) stepAttach(e *Expect, conn int, req *refcodec.Msg, open func(string)) {
	if req.U("afid") != refcodec.NOFID {
		e.reject(EINVAL)
		e.NoBackend = true
		return
	}
	name := req.S("aname")
	if strings.HasPrefix(name, "/") {
		name = name[1:]
	}
	if name == "" {
		e.run = func() (*refcodec.Msg, int) {
			m.bind(conn, req.U("fid"), &Fid{Loc: nil, Obj: m.Tree.Root.ID, Type: memtree.TDir, Root: true})
			return rep(req, "qid", qid(m.Tree.Root)), 0
		}
		return
	}
	names := strings.Split(name, "/")
	for _, n := range names {
		if Bad(n) {
			e.reject(EINVAL)
			return
		}
	}
	// the QID in Rattach for a non-empty attach name is left open
	e.AnyOK = true
	e.Why = "QID of a named attach"
	m.AnyCount[e.Why]++
	e.run = func() (*refcodec.Msg, int) {
		cur := m.Tree.Root
		for k, n := range names {
			if !cur.IsDir() {
				return nil, EINVAL
			}
			next, en := memtree.Lookup(cur, n)
			if en != 0 {
				return nil, en
			}
			cur = next
			_ = k
		}
		m.bind(conn, req.U("fid"), &Fid{Loc: names, Obj: cur.ID, Type: cur.Type})
		return nil, 0
	}
}

func (m *Model) stepWalk(e *Expect, conn int, req *refcodec.Msg, open func(string)) {
	f := m.fid(conn, req.U("fid"))
	if f == nil {
		e.reject(EBADF)
		e.NoBackend = true
		return
	}
	names := req.Strs("wnames")
	getattr := req.Type == refcodec.Twalkgetattr
	if f.Opaque {
		open("operation on an xattr-read fid")
		e.onAnyOK = func(*refcodec.Msg) {
			m.bind(conn, req.U("newfid"), &Fid{Opaque: true, Root: true, Loc: f.Loc})
		}
		return
	}
	if f.Opened && req.U("fid") == req.U("newfid") {
		e.reject(EBUSY)
	}
	for _, n := range names {
		if Bad(n) {
			e.reject(EINVAL)
			break
		}
	}
	if len(names) > 0 {
		if f.Type != memtree.TDir {
			e.reject(EINVAL)
		}
		if f.Fenced {
			e.reject(ENOENT)
		}
	}
	e.NoBackend = e.Rejected()
	if e.Rejected() {
		return
	}
	if len(names) == 0 {
		// clone
		if getattr && f.Fenced {
			open("getattr through a fenced fid")
			e.onAnyOK = func(*refcodec.Msg) {
				c := *f
				c.Opened, c.Flags, c.OpenIno, c.XW = false, 0, nil, nil
				m.bind(conn, req.U("newfid"), &c)
			}
			return
		}
		e.run = func() (*refcodec.Msg, int) {
			var r *refcodec.Msg
			if getattr {
				i, en := m.Tree.Resolve(f.Loc)
				if en != 0 {
					return nil, en
				}
				r = rep(req, "valid", uint64(memtree.AttrValidAll), "attr", refcodec.Attr(memtree.AttrOf(i)), "wqids", []refcodec.QID{})
			} else {
				r = rep(req, "wqids", []refcodec.QID{})
			}
			c := *f
			c.Opened, c.Flags, c.OpenIno, c.XW = false, 0, nil, nil
			m.bind(conn, req.U("newfid"), &c)
			return r, 0
		}
		return
	}
	e.run = func() (*refcodec.Msg, int) {
		cur, en := m.Tree.Resolve(f.Loc)
		if en != 0 {
			return nil, en
		}
		var qs []refcodec.QID
		for k, n := range names {
			if k > 0 && !cur.IsDir() {
				return nil, EINVAL
			}
			next, en := memtree.Lookup(cur, n)
			if en != 0 {
				return nil, en
			}
			qs = append(qs, qid(next))
			cur = next
		}
		loc := append(append([]string{}, f.Loc...), names...)
		m.bind(conn, req.U("newfid"), &Fid{Loc: loc, Obj: cur.ID, Type: cur.Type})
		if getattr {
			return rep(req, "valid", uint64(memtree.AttrValidAll), "attr", refcodec.Attr(memtree.AttrOf(cur)), "wqids", qs), 0
		}
		return rep(req, "wqids", qs), 0
	}
}

func (m *Model) stepRead(e *Expect, conn int, req *refcodec.Msg, open func(string)) {
	f := m.fid(conn, req.U("fid"))
	if f == nil {
		e.reject(EBADF)
		e.NoBackend = true
		return
	}
	count, off := req.U("count"), req.U("offset")
	if count > MaxCount {
		e.reject(ENOBUFS)
		e.NoBackend = true
		return
	}
	switch {
	case f.IsXR && f.XRUnknown:
		open("operation on an xattr-read fid")
	case f.IsXR:
		e.NoBackend = true
		if count == 0 {
			if len(f.XR) != 0 {
				e.reject(EINVAL)
			}
		} else if off+count > uint64(len(f.XR)) || off+count < off {
			e.reject(EINVAL)
		}
		e.run = func() (*refcodec.Msg, int) {
			if count == 0 {
				return rep(req, "data", []byte{}), 0
			}
			return rep(req, "data", append([]byte{}, f.XR[off:off+count]...)), 0
		}
	case f.Opaque:
		open("operation on an xattr-read fid")
	case f.XW != nil:
		e.reject(EINVAL)
		e.NoBackend = true
	default:
		if !f.Opened {
			e.reject(EINVAL)
		} else if f.Flags&3 == 1 {
			e.reject(EPERM)
		}
		e.NoBackend = e.Rejected()
		if !e.Rejected() && f.Type == memtree.TDir {
			open("Tread on an opened directory")
			return
		}
		e.run = func() (*refcodec.Msg, int) {
			buf := make([]byte, count)
			n := f.OpenIno.ReadAt(buf, off)
			return rep(req, "data", buf[:n]), 0
		}
	}
}

func (m *Model) stepWrite(e *Expect, conn int, req *refcodec.Msg, open func(string)) {
	f := m.fid(conn, req.U("fid"))
	if f == nil {
		e.reject(EBADF)
		e.NoBackend = true
		return
	}
	data, off := req.Bytes("data"), req.U("offset")
	switch {
	case f.IsXR:
		e.reject(EINVAL)
		e.NoBackend = true
	case f.Opaque:
		open("operation on an xattr-read fid")
	case f.XW != nil:
		e.NoBackend = true
		if off != uint64(len(f.XW.Buf)) {
			e.reject(EINVAL)
		}
		if off+uint64(len(data)) > f.XW.Size || off+uint64(len(data)) < off {
			e.reject(EINVAL)
		}
		e.run = func() (*refcodec.Msg, int) {
			f.XW.Buf = append(f.XW.Buf, data...)
			return rep(req, "count", uint64(len(data))), 0
		}
	default:
		if !f.Opened {
			e.reject(EINVAL)
		} else if f.Flags&3 == 0 {
			e.reject(EPERM)
		}
		e.NoBackend = e.Rejected()
		e.run = func() (*refcodec.Msg, int) {
			if f.OpenIno.Type == memtree.TDir {
				return nil, EISDIR
			}
			f.OpenIno.WriteAt(data, off)
			return rep(req, "count", uint64(len(data))), 0
		}
	}
}

// Judge compares the actual reply with the expectation and commits the effect
// of the request to the model.
func (m *Model) Judge(e *Expect, got *refcodec.Msg) Verdict {
	req := e.Req
	name := refcodec.Name(req.Type)
	if got.Tag != req.Tag {
		return bad("reply-tag", "%s tag %d answered with tag %d", name, req.Tag, got.Tag)
	}
	if got.Type == refcodec.Rlerror {
		code := uint32(got.U("ecode"))
		if e.Errnos[code] || e.AnyErr {
			if e.onReject != nil {
				e.onReject()
			}
			return Verdict{OK: true, Open: e.AnyErr && !e.Errnos[code]}
		}
		if e.Rejected() {
			return bad("wrong-errno:"+name, "%s: answered errno %d, the session model allows %v", req, code, e.errnoList())
		}
		if e.run == nil {
			return bad("unexpected-error:"+name, "%s: answered errno %d, expected success", req, code)
		}
		want, en := e.run()
		if en == 0 {
			return bad("unexpected-error:"+name, "%s: answered errno %d, expected %s", req, code, want)
		}
		if e.onReject != nil {
			e.onReject()
		}
		if uint32(en) != code {
			return bad("wrong-errno:"+name, "%s: answered errno %d, the file tree says %d", req, code, en)
		}
		return Verdict{OK: true}
	}
	if got.Type != req.Type+1 {
		return bad("reply-type:"+name, "%s answered with %s", req, got)
	}
	// success
	if e.Rejected() {
		return bad("should-reject:"+name, "%s: answered %s, the session model requires errno %v", req, got, e.errnoList())
	}
	if e.run == nil {
		if e.AnyOK {
			if e.onAnyOK != nil {
				e.onAnyOK(got)
			}
			return Verdict{OK: true, Open: true}
		}
		return bad("model-gap:"+name, "HARNESS-ERROR no expectation for %s", req)
	}
	want, en := e.run()
	if en != 0 {
		return bad("should-fail:"+name, "%s: answered %s, the file tree says errno %d", req, got, en)
	}
	if e.AnyOK || want == nil {
		return Verdict{OK: true, Open: true}
	}
	wb, gb := refcodec.Encode(want), refcodec.Encode(got)
	if string(wb) != string(gb) {
		return bad("reply-fields:"+name, "%s: answered %s, expected %s", req, got, want)
	}
	return Verdict{OK: true}
}

// Bound reports whether a fid number is bound on a connection.
func (m *Model) Bound(conn int, n uint32) bool { return m.Conns[conn][n] != nil }

// Fids returns the bound fid numbers of a connection, sorted.
func (m *Model) Fids(conn int) []uint32 {
	var l []uint32
	for k := range m.Conns[conn] {
		l = append(l, k)
	}
	sort.Slice(l, func(i, j int) bool { return l[i] < l[j] })
	return l
}

// Get returns the model's state of a fid (nil if unbound).
func (m *Model) Get(conn int, n uint32) *Fid { return m.Conns[conn][n] }

// Path returns a fid's model path.
func (f *Fid) Path() string {
	if len(f.Loc) == 0 {
		return ""
	}
	return "/" + strings.Join(f.Loc, "/")
}

// Assume advances the model as if the server behaved exactly as expected
// (used while generating sequences, never for judging).
func (m *Model) Assume(e *Expect) {
	switch {
	case e.Rejected():
		if e.onReject != nil {
			e.onReject()
		}
	case e.run != nil:
		if _, en := e.run(); en != 0 && e.onReject != nil {
			e.onReject()
		}
	case e.onAnyOK != nil:
		e.onAnyOK(nil)
	}
}

// ApplyRejected commits the effect a request has when it fails (Tclunk and
// Tremove still unbind their fid); used for requests failed by an injected
// backend fault.
func (e *Expect) ApplyRejected() {
	if e.onReject != nil {
		e.onReject()
	}
}

// ApplyEffects commits the request's effects although it was answered with an
// error (an error returned by Close after the operation itself succeeded).
func (e *Expect) ApplyEffects() {
	if !e.Rejected() && e.run != nil {
		if _, en := e.run(); en != 0 && e.onReject != nil {
			e.onReject()
		}
		return
	}
	if e.onReject != nil {
		e.onReject()
	}
}
