package evid
import ("testing"; "pgregory.net/rapid"; _ "github.com/hugelgupf/p9/p9")
func TestProbe(t *testing.T){ rapid.Check(t, func(t *rapid.T){ _ = rapid.Int().Draw(t,"x") }) }
