package evid

import (
	_ "github.com/hugelgupf/p9/p9"
	"pgregory.net/rapid"
	"testing"
)

func TestProbe(t *testing.T) { rapid.Check(t, func(t *rapid.T) { _ = rapid.Int().Draw(t, "x") }) }
