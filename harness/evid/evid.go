// Package evid collects what a check actually covered (cases, distinct
// non-trivial cases, class counters, samples), records violations with a
// signature and a replay file, consults known_findings.json, and writes one
// statistics file per shard for the driver to merge.
package evid

import (
	"encoding/binary"
	"encoding/json"
	"fmt"
	"hash/fnv"
	"os"
	"path/filepath"
	"sort"
	"strconv"
	"sync"
	"testing"
	"time"
)

// Env describes how the driver invoked this process.
type Env struct {
	Tier    string // quick | thorough
	Seed    uint64 // VERIF_SEED
	Shard   int
	NShards int
	OutDir  string // where stats files go
	Root    string // /verif
}

// GetEnv reads the environment variables set by the driver.
func GetEnv() Env {
	e := Env{Tier: "quick", Seed: 1, NShards: 1, Root: "/verif"}
	if v := os.Getenv("VERIF_TIER"); v != "" {
		e.Tier = v
	}
	if v := os.Getenv("VERIF_SEED"); v != "" {
		if n, err := strconv.ParseUint(v, 10, 64); err == nil {
			e.Seed = n
		} else if n, err := strconv.ParseInt(v, 10, 64); err == nil {
			e.Seed = uint64(n)
		}
	}
	if v := os.Getenv("VERIF_SHARD"); v != "" {
		e.Shard, _ = strconv.Atoi(v)
	}
	if v := os.Getenv("VERIF_NSHARDS"); v != "" {
		e.NShards, _ = strconv.Atoi(v)
		if e.NShards < 1 {
			e.NShards = 1
		}
	}
	if v := os.Getenv("VERIF_ROOT"); v != "" {
		e.Root = v
	}
	e.OutDir = os.Getenv("VERIF_OUT")
	if e.OutDir == "" {
		e.OutDir = filepath.Join(e.Root, ".build", "out")
	}
	return e
}

// Thorough reports whether the thorough tier was requested.
func (e Env) Thorough() bool { return e.Tier == "thorough" }

// Pick returns q in the quick tier and th in the thorough tier.
func (e Env) Pick(q, th int) int {
	if e.Thorough() {
		return th
	}
	return q
}

// PerShard divides a total count over the shards (at least 1).
func (e Env) PerShard(total int) int {
	n := total / e.NShards
	if n < 1 {
		n = 1
	}
	return n
}

// Mix derives a sub-seed from the run seed, the shard and a stream label; it
// never returns 0 (rapid treats 0 as "random").
func (e Env) Mix(label string) uint64 {
	h := fnv.New64a()
	var b [16]byte
	binary.LittleEndian.PutUint64(b[:8], e.Seed)
	binary.LittleEndian.PutUint64(b[8:], uint64(e.Shard))
	h.Write(b[:])
	h.Write([]byte(label))
	v := h.Sum64()
	// splitmix finaliser
	v ^= v >> 30
	v *= 0xbf58476d1ce4e5b9
	v ^= v >> 27
	v *= 0x94d049bb133111eb
	v ^= v >> 31
	v &= 0x7fffffffffffffff
	if v == 0 {
		v = 1
	}
	return v
}

// Violation is one observed breach of a property.
type Violation struct {
	Property  string `json:"property"`
	Sub       string `json:"sub"`
	Signature string `json:"signature"`
	Message   string `json:"message"`
	Replay    string `json:"replay"`
}

type finding struct {
	Property  string `json:"property"`
	Signature string `json:"signature"`
	Status    string `json:"status"`
	Commit    string `json:"commit,omitempty"`
	What      string `json:"what"`
}

// Run accumulates the statistics of one check in one shard.
type Run struct {
	mu         sync.Mutex
	Env        Env
	Property   string
	start      time.Time
	evals      int64
	hashes     map[uint64]struct{}
	classes    map[string]int64
	samples    []any
	sampleCap  int
	violations []Violation
	vioSeen    map[string]bool
	known      map[string]string // signature -> what
	knownHits  map[string]int64
	excluded   int64
	exhaustive map[string]bool
	notes      []string
	t          testing.TB

	dangerMu    sync.Mutex
	dangerStack [][]byte
	pendingFile *os.File
}

// Begin starts a run for a property; call Finish (deferred) to write stats.
func Begin(t testing.TB, property string) *Run {
	r := &Run{
		Env: GetEnv(), Property: property, start: time.Now(),
		hashes: map[uint64]struct{}{}, classes: map[string]int64{},
		sampleCap: 6, vioSeen: map[string]bool{}, known: map[string]string{},
		knownHits: map[string]int64{}, exhaustive: map[string]bool{}, t: t,
	}
	data, err := os.ReadFile(filepath.Join(r.Env.Root, "known_findings.json"))
	if err == nil {
		var doc struct {
			Findings []finding `json:"findings"`
		}
		if json.Unmarshal(data, &doc) == nil {
			for _, f := range doc.Findings {
				if f.Property == property && f.Status == "known" {
					r.known[f.Signature] = f.What
				}
			}
		}
	}
	return r
}

// Hash64 hashes a canonical byte encoding of a case.
func Hash64(parts ...[]byte) uint64 {
	h := fnv.New64a()
	var l [4]byte
	for _, p := range parts {
		binary.LittleEndian.PutUint32(l[:], uint32(len(p)))
		h.Write(l[:])
		h.Write(p)
	}
	return h.Sum64()
}

// HashJSON hashes the JSON encoding of a value (struct field order is
// deterministic; maps are sorted by encoding/json).
func HashJSON(v any) uint64 {
	b, _ := json.Marshal(v)
	return Hash64(b)
}

// Case records one executed case. hash identifies the case; nontrivial says
// whether it satisfies the property's non-triviality rule.
func (r *Run) Case(hash uint64, nontrivial bool, classes ...string) {
	r.mu.Lock()
	r.evals++
	if nontrivial {
		r.hashes[hash] = struct{}{}
	}
	for _, c := range classes {
		r.classes[c]++
	}
	r.mu.Unlock()
}

// Count bumps a class counter without counting a case.
func (r *Run) Count(class string, n int64) {
	r.mu.Lock()
	r.classes[class] += n
	r.mu.Unlock()
}

// Sample keeps up to a few cases written out in full. The first ones seen of
// each label are kept.
func (r *Run) Sample(label string, v any) {
	r.mu.Lock()
	defer r.mu.Unlock()
	n := 0
	for _, s := range r.samples {
		if m, ok := s.(map[string]any); ok && m["kind"] == label {
			n++
		}
	}
	if n >= 2 || len(r.samples) >= 24 {
		return
	}
	r.samples = append(r.samples, map[string]any{"kind": label, "case": v})
}

// WantSample reports whether another sample with this label would be kept
// (lets checks avoid building expensive sample values).
func (r *Run) WantSample(label string) bool {
	r.mu.Lock()
	defer r.mu.Unlock()
	n := 0
	for _, s := range r.samples {
		if m, ok := s.(map[string]any); ok && m["kind"] == label {
			n++
		}
	}
	return n < 2 && len(r.samples) < 24
}

// Exhaustive marks a named finite sub-space as completely enumerated.
func (r *Run) Exhaustive(space string) {
	r.mu.Lock()
	r.exhaustive[space] = true
	r.mu.Unlock()
}

// Note adds a free-text remark to the statistics.
func (r *Run) Note(format string, a ...any) {
	r.mu.Lock()
	r.notes = append(r.notes, fmt.Sprintf(format, a...))
	r.mu.Unlock()
}

// Known reports whether a violation signature is listed as a known finding;
// if so the hit is counted (the caller then skips that assertion).
func (r *Run) Known(signature string) bool {
	r.mu.Lock()
	defer r.mu.Unlock()
	if _, ok := r.known[signature]; ok {
		r.knownHits[signature]++
		r.excluded++
		return true
	}
	return false
}

// ReplayFile is the on-disk form of a failing case.
type ReplayFile struct {
	Property  string          `json:"property"`
	Sub       string          `json:"sub"`
	Signature string          `json:"signature"`
	Message   string          `json:"message"`
	Case      json.RawMessage `json:"case"`
}

// Violation records a violation (unless its signature is a known finding, in
// which case it returns false). The case is serialised to a replay file. Only
// the last (most shrunk) case per signature is kept.
func (r *Run) Violation(sub, signature, message string, c any) bool {
	if r.Known(signature) {
		return false
	}
	raw, err := json.Marshal(c)
	if err != nil {
		raw, _ = json.Marshal(fmt.Sprintf("%+v", c))
	}
	path := r.ReplayPath(sub, signature)
	os.MkdirAll(filepath.Dir(path), 0o755)
	rf := ReplayFile{Property: r.Property, Sub: sub, Signature: signature, Message: message, Case: raw}
	data, _ := json.MarshalIndent(rf, "", " ")
	os.WriteFile(path, data, 0o644)
	r.mu.Lock()
	defer r.mu.Unlock()
	if r.vioSeen[signature] {
		for i := range r.violations {
			if r.violations[i].Signature == signature {
				r.violations[i].Message = message
			}
		}
		return true
	}
	r.vioSeen[signature] = true
	r.violations = append(r.violations, Violation{Property: r.Property, Sub: sub, Signature: signature, Message: message, Replay: path})
	return true
}

// ReplayPath is where the replay file of a violation signature is written.
func (r *Run) ReplayPath(sub, signature string) string {
	name := fmt.Sprintf("%s-%016x.json", r.Property, Hash64([]byte(sub), []byte(signature)))
	return filepath.Join(r.Env.Root, "replays", name)
}

// Violations returns the number of recorded violations.
func (r *Run) Violations() int {
	r.mu.Lock()
	defer r.mu.Unlock()
	return len(r.violations)
}

// Stats is the per-shard statistics file.
type Stats struct {
	Property   string            `json:"property"`
	Shard      int               `json:"shard"`
	Tier       string            `json:"tier"`
	Seed       uint64            `json:"seed"`
	Evals      int64             `json:"evaluations"`
	Distinct   int               `json:"distinct_nontrivial"`
	HashFile   string            `json:"hash_file"`
	Classes    map[string]int64  `json:"classes"`
	Samples    []any             `json:"samples"`
	Violations []Violation       `json:"violations"`
	KnownHits  map[string]int64  `json:"known_hits"`
	KnownWhat  map[string]string `json:"known_what"`
	Excluded   int64             `json:"excluded_by_known_findings"`
	Exhaustive []string          `json:"exhaustive"`
	Notes      []string          `json:"notes"`
	WallS      float64           `json:"wall_s"`
	Complete   bool              `json:"complete"`
}

// Finish writes the shard's statistics. It must run even when the test is
// failing (use defer).
func (r *Run) Finish() {
	r.mu.Lock()
	defer r.mu.Unlock()
	os.MkdirAll(r.Env.OutDir, 0o755)
	base := filepath.Join(r.Env.OutDir, fmt.Sprintf("%s.%s.%d", r.Property, stageName(), r.Env.Shard))
	// hashes, binary little endian
	hs := make([]uint64, 0, len(r.hashes))
	for h := range r.hashes {
		hs = append(hs, h)
	}
	sort.Slice(hs, func(i, j int) bool { return hs[i] < hs[j] })
	buf := make([]byte, 8*len(hs))
	for i, h := range hs {
		binary.LittleEndian.PutUint64(buf[8*i:], h)
	}
	os.WriteFile(base+".hashes", buf, 0o644)
	var ex []string
	for k := range r.exhaustive {
		ex = append(ex, k)
	}
	sort.Strings(ex)
	kw := map[string]string{}
	for s := range r.knownHits {
		kw[s] = r.known[s]
	}
	st := Stats{
		Property: r.Property, Shard: r.Env.Shard, Tier: r.Env.Tier, Seed: r.Env.Seed,
		Evals: r.evals, Distinct: len(hs), HashFile: base + ".hashes", Classes: r.classes,
		Samples: r.samples, Violations: r.violations, KnownHits: r.knownHits, KnownWhat: kw,
		Excluded: r.excluded, Exhaustive: ex, Notes: r.notes,
		WallS: time.Since(r.start).Seconds(), Complete: true,
	}
	data, err := json.MarshalIndent(st, "", " ")
	if err != nil {
		// a sample was not serialisable; drop samples rather than lose stats
		st.Samples = []any{fmt.Sprintf("unserialisable samples: %v", err)}
		data, _ = json.MarshalIndent(st, "", " ")
	}
	os.WriteFile(base+".json", data, 0o644)
}

// LoadReplay reads a replay file.
func LoadReplay(path string) (*ReplayFile, error) {
	data, err := os.ReadFile(path)
	if err != nil {
		return nil, err
	}
	var rf ReplayFile
	if err := json.Unmarshal(data, &rf); err != nil {
		return nil, err
	}
	return &rf, nil
}

// Danger records, before a step that may kill the whole process (a panic
// escaping the code under test, a fatal runtime error), the violation that
// such a death would mean. Safe removes the record. If the process dies in
// between, the driver finds the file and reports the violation.
//
// Brackets nest (Safe restores the record of the enclosing bracket). The record
// lives in one file per process that is kept open: an empty file means "no
// dangerous step in progress".
func (r *Run) Danger(sub, signature, message string, c any) {
	raw, err := json.Marshal(c)
	if err != nil {
		raw, _ = json.Marshal(fmt.Sprintf("%+v", c))
	}
	rf := ReplayFile{Property: r.Property, Sub: sub, Signature: signature, Message: message, Case: raw}
	data, _ := json.Marshal(rf)
	r.dangerMu.Lock()
	defer r.dangerMu.Unlock()
	r.dangerStack = append(r.dangerStack, data)
	r.writePending(data)
}

// Safe ends the innermost bracket opened by Danger.
func (r *Run) Safe() {
	r.dangerMu.Lock()
	defer r.dangerMu.Unlock()
	if n := len(r.dangerStack); n > 0 {
		r.dangerStack = r.dangerStack[:n-1]
	}
	if n := len(r.dangerStack); n > 0 {
		r.writePending(r.dangerStack[n-1])
		return
	}
	r.writePending(nil)
}

func (r *Run) writePending(data []byte) {
	if r.pendingFile == nil {
		os.MkdirAll(r.Env.OutDir, 0o755)
		f, err := os.OpenFile(filepath.Join(r.Env.OutDir, fmt.Sprintf("%s.%s.%d.pending", r.Property, stageName(), r.Env.Shard)), os.O_CREATE|os.O_RDWR|os.O_TRUNC, 0o644)
		if err != nil {
			return
		}
		r.pendingFile = f
	}
	if len(data) > 0 {
		r.pendingFile.WriteAt(data, 0)
	}
	r.pendingFile.Truncate(int64(len(data)))
}

func stageName() string {
	if s := os.Getenv("VERIF_STAGE"); s != "" {
		return s
	}
	return "main"
}
