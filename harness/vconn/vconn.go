// Package vconn provides transports the harness owns completely: in-memory
// byte streams with delivery credit, per-Read segmentation, cut points and
// write faults, and a real AF_UNIX socket pair with deterministic per-chunk
// delivery.
package vconn

import (
	"errors"
	"io"
	"runtime"
	"sync"
	"time"
)

// ErrInjected is returned by a Write that the fault plan makes fail.
var ErrInjected = errors.New("vconn: injected write fault")

// ErrClosed is returned for operations on a closed stream.
var ErrClosed = errors.New("vconn: stream closed")

// Stream is a one-directional in-memory byte queue.
type Stream struct {
	mu   sync.Mutex
	cond *sync.Cond

	buf  []byte // every byte ever written (history kept for taps)
	rpos int    // bytes handed to the reader so far
	// credit is the offset up to which the reader may be given bytes;
	// -1 means everything written.
	credit  int
	wclosed bool // writer side closed: EOF once rpos reaches the end (and credit allows)
	rclosed bool // reader side closed: writes fail, reads fail
	// cutAt >= 0: the stream ends (EOF) after this many bytes whatever was written.
	cutAt int

	maxRead int   // maximum bytes per Read (0 = unlimited)
	segs    []int // explicit sizes of successive Reads (then maxRead applies)
	splits  []int // absolute offsets no Read may cross (delivery boundaries)

	writes       int // number of Write calls so far
	failWriteAt  int // fail the k-th Write (1-based); 0 = never
	failFrom     int // fail every Write from the k-th on (1-based); 0 = never
	shortWriteAt int // the k-th Write writes only half and returns an error
	yieldOnWrite bool
	holdWriteAt  int           // the k-th Write blocks until holdRelease is closed, then fails without delivering
	holdEntered  chan struct{} // closed when that Write has arrived
	holdRelease  chan struct{}
	holdDeliver  bool // the held Write delivers its bytes first and succeeds when released

	blocked int // readers currently blocked waiting for bytes
	reads   int // number of completed Read calls

	eofWithData bool         // the Read that delivers the last bytes of an ended stream returns io.EOF with them
	emptyAt     map[int]bool // absolute offsets at which one Read returns (0, nil) before the data there
	emptyEach   bool         // every Read that would deliver bytes is preceded by one that returns (0, nil)
	emptyGiven  bool
}

// NewStream returns an empty stream with unlimited credit.
func NewStream() *Stream {
	s := &Stream{credit: -1, cutAt: -1}
	s.cond = sync.NewCond(&s.mu)
	return s
}

// SetCredit sets the delivery credit (absolute offset; -1 = unlimited).
func (s *Stream) SetCredit(n int) {
	s.mu.Lock()
	s.credit = n
	s.mu.Unlock()
	s.cond.Broadcast()
}

// SetMaxRead limits every Read to at most n bytes (0 = unlimited).
func (s *Stream) SetMaxRead(n int) {
	s.mu.Lock()
	s.maxRead = n
	s.mu.Unlock()
}

// SetSegments sets explicit sizes for the next Reads.
func (s *Stream) SetSegments(segs []int) {
	s.mu.Lock()
	s.segs = append([]int(nil), segs...)
	s.mu.Unlock()
}

// SetSplits sets absolute stream offsets that no single Read crosses: the
// transport "delivers" the stream in the chunks between these offsets.
func (s *Stream) SetSplits(offsets []int) {
	s.mu.Lock()
	s.splits = append([]int(nil), offsets...)
	s.mu.Unlock()
}

// EOFWithData makes the Read that delivers the last bytes of the stream return
// io.EOF together with them (as io.Reader allows), if the end is known by then.
func (s *Stream) EOFWithData(on bool) {
	s.mu.Lock()
	s.eofWithData = on
	s.mu.Unlock()
}

// EmptyReadsAt makes one Read at each of the absolute offsets return (0, nil)
// - "nothing happened" - before the bytes at that offset are delivered.
func (s *Stream) EmptyReadsAt(offsets []int) {
	s.mu.Lock()
	s.emptyAt = map[int]bool{}
	for _, o := range offsets {
		s.emptyAt[o] = true
	}
	s.mu.Unlock()
}

// EmptyBeforeEachRead makes every Read that would deliver bytes be preceded by
// one that returns (0, nil).
func (s *Stream) EmptyBeforeEachRead(on bool) {
	s.mu.Lock()
	s.emptyEach, s.emptyGiven = on, false
	s.mu.Unlock()
}

// WriteFinal appends p and closes the writing side in one step, so that the end
// of the stream is known when the last bytes are read.
func (s *Stream) WriteFinal(p []byte) {
	s.mu.Lock()
	s.buf = append(s.buf, p...)
	s.wclosed = true
	s.mu.Unlock()
	s.cond.Broadcast()
}

// CutAt makes the stream end after n bytes in total.
func (s *Stream) CutAt(n int) {
	s.mu.Lock()
	s.cutAt = n
	s.mu.Unlock()
	s.cond.Broadcast()
}

// FailWriteAt makes the k-th Write (1-based) fail without writing.
func (s *Stream) FailWriteAt(k int) {
	s.mu.Lock()
	s.failWriteAt = k
	s.mu.Unlock()
}

// FailWritesFrom makes the k-th and every later Write fail.
func (s *Stream) FailWritesFrom(k int) {
	s.mu.Lock()
	s.failFrom = k
	s.mu.Unlock()
}

// Writes returns the number of Write calls so far.
func (s *Stream) Writes() int {
	s.mu.Lock()
	defer s.mu.Unlock()
	return s.writes
}

// ShortWriteAt makes the k-th Write (1-based) write half its bytes and fail.
func (s *Stream) ShortWriteAt(k int) {
	s.mu.Lock()
	s.shortWriteAt = k
	s.mu.Unlock()
}

// YieldOnWrite makes every Write yield the processor afterwards, so that
// unsynchronised writers interleave visibly.
func (s *Stream) YieldOnWrite(on bool) {
	s.mu.Lock()
	s.yieldOnWrite = on
	s.mu.Unlock()
}

// HoldWriteAt makes the k-th Write (1-based) block until release is called and
// then fail without delivering anything. entered is closed when the Write has
// arrived.
func (s *Stream) HoldWriteAt(k int) (entered <-chan struct{}, release func()) {
	s.mu.Lock()
	defer s.mu.Unlock()
	s.holdWriteAt = k
	s.holdDeliver = false
	s.holdEntered = make(chan struct{})
	s.holdRelease = make(chan struct{})
	rel := s.holdRelease
	var once sync.Once
	return s.holdEntered, func() { once.Do(func() { close(rel) }) }
}

// PauseAfterWriteAt makes the k-th Write (1-based) deliver its bytes, then
// block until release is called, and only then return (successfully): the
// writer is "descheduled" between the write and its return.
func (s *Stream) PauseAfterWriteAt(k int) (entered <-chan struct{}, release func()) {
	entered, release = s.HoldWriteAt(k)
	s.mu.Lock()
	s.holdDeliver = true
	s.mu.Unlock()
	return entered, release
}

// Write appends p (copied).
func (s *Stream) Write(p []byte) (int, error) {
	s.mu.Lock()
	s.writes++
	if s.rclosed || s.wclosed {
		s.mu.Unlock()
		return 0, io.ErrClosedPipe
	}
	if s.holdWriteAt != 0 && s.writes == s.holdWriteAt {
		ent, rel, deliver := s.holdEntered, s.holdRelease, s.holdDeliver
		if deliver {
			s.buf = append(s.buf, p...)
		}
		s.mu.Unlock()
		if deliver {
			s.cond.Broadcast()
		}
		close(ent)
		<-rel
		if deliver {
			return len(p), nil
		}
		return 0, ErrInjected
	}
	if (s.failWriteAt != 0 && s.writes == s.failWriteAt) || (s.failFrom != 0 && s.writes >= s.failFrom) {
		s.mu.Unlock()
		return 0, ErrInjected
	}
	if s.shortWriteAt != 0 && s.writes == s.shortWriteAt {
		n := len(p) / 2
		s.buf = append(s.buf, p[:n]...)
		s.mu.Unlock()
		s.cond.Broadcast()
		return n, ErrInjected
	}
	s.buf = append(s.buf, p...)
	y := s.yieldOnWrite
	s.mu.Unlock()
	s.cond.Broadcast()
	if y {
		runtime.Gosched()
	}
	return len(p), nil
}

// end returns the offset at which the stream ends for the reader right now
// and whether that end is final (EOF).
func (s *Stream) avail() (limit int, eof bool) {
	limit = len(s.buf)
	final := s.wclosed
	if s.cutAt >= 0 && s.cutAt <= limit {
		limit = s.cutAt
		final = true
	}
	if s.credit >= 0 && s.credit < limit {
		return s.credit, false
	}
	return limit, final
}

// Read blocks until bytes are deliverable, the stream ends, or it is closed.
func (s *Stream) Read(p []byte) (int, error) {
	s.mu.Lock()
	defer s.mu.Unlock()
	if len(p) == 0 {
		return 0, nil
	}
	for {
		if s.rclosed {
			return 0, io.ErrClosedPipe
		}
		limit, eof := s.avail()
		if s.rpos < limit {
			if s.emptyAt[s.rpos] {
				delete(s.emptyAt, s.rpos)
				s.reads++
				return 0, nil
			}
			if s.emptyEach {
				if s.emptyGiven = !s.emptyGiven; s.emptyGiven {
					s.reads++
					return 0, nil
				}
			}
			n := limit - s.rpos
			if n > len(p) {
				n = len(p)
			}
			for _, sp := range s.splits {
				if sp > s.rpos && sp < s.rpos+n {
					n = sp - s.rpos
				}
			}
			if len(s.segs) > 0 {
				if s.segs[0] < n {
					n = s.segs[0]
				}
				s.segs[0] -= n
				if s.segs[0] <= 0 {
					s.segs = s.segs[1:]
				}
			} else if s.maxRead > 0 && n > s.maxRead {
				n = s.maxRead
			}
			copy(p, s.buf[s.rpos:s.rpos+n])
			s.rpos += n
			s.reads++
			s.cond.Broadcast()
			if s.eofWithData && eof && s.rpos == limit {
				return n, io.EOF
			}
			return n, nil
		}
		if eof {
			return 0, io.EOF
		}
		s.blocked++
		s.cond.Broadcast()
		s.cond.Wait()
		s.blocked--
	}
}

// CloseWrite ends the stream: the reader sees EOF after the remaining bytes.
func (s *Stream) CloseWrite() error {
	s.mu.Lock()
	s.wclosed = true
	s.mu.Unlock()
	s.cond.Broadcast()
	return nil
}

// CloseRead closes the reading side: pending and later Reads and Writes fail.
func (s *Stream) CloseRead() error {
	s.mu.Lock()
	s.rclosed = true
	s.mu.Unlock()
	s.cond.Broadcast()
	return nil
}

// Written returns the number of bytes written so far.
func (s *Stream) Written() int {
	s.mu.Lock()
	defer s.mu.Unlock()
	return len(s.buf)
}

// Consumed returns the number of bytes handed to the reader so far.
func (s *Stream) Consumed() int {
	s.mu.Lock()
	defer s.mu.Unlock()
	return s.rpos
}

// History returns a copy of every byte written so far.
func (s *Stream) History() []byte {
	s.mu.Lock()
	defer s.mu.Unlock()
	return append([]byte(nil), s.buf...)
}

// Slice returns a copy of the written bytes in [from, to).
func (s *Stream) Slice(from, to int) []byte {
	s.mu.Lock()
	defer s.mu.Unlock()
	if to > len(s.buf) {
		to = len(s.buf)
	}
	if from > to {
		from = to
	}
	return append([]byte(nil), s.buf[from:to]...)
}

// ReaderClosed reports whether the reading side was closed.
func (s *Stream) ReaderClosed() bool {
	s.mu.Lock()
	defer s.mu.Unlock()
	return s.rclosed
}

// WaitConsumed waits until at least n bytes were handed to the reader.
func (s *Stream) WaitConsumed(n int, d time.Duration) bool {
	return s.waitFor(d, func() bool { return s.rpos >= n })
}

// WaitBlockedAt waits until a reader is blocked with exactly n bytes consumed
// (i.e. it has taken everything it was offered and wants more).
func (s *Stream) WaitBlockedAt(n int, d time.Duration) bool {
	return s.waitFor(d, func() bool { return s.blocked > 0 && s.rpos == n })
}

// WaitReaderClosed waits until the reading side is closed.
func (s *Stream) WaitReaderClosed(d time.Duration) bool {
	return s.waitFor(d, func() bool { return s.rclosed })
}

// WaitWritten waits until at least n bytes were written.
func (s *Stream) WaitWritten(n int, d time.Duration) bool {
	return s.waitFor(d, func() bool { return len(s.buf) >= n })
}

func (s *Stream) waitFor(d time.Duration, pred func() bool) bool {
	deadline := time.Now().Add(d)
	timer := time.AfterFunc(d, func() { s.cond.Broadcast() })
	defer timer.Stop()
	s.mu.Lock()
	defer s.mu.Unlock()
	for !pred() {
		if !time.Now().Before(deadline) {
			return false
		}
		s.cond.Wait()
	}
	return true
}

// ---------------------------------------------------------------------------

// End is one end of a duplex in-memory connection.
type End struct {
	In  *Stream // this end reads from In
	Out *Stream // this end writes to Out
}

func (e *End) Read(p []byte) (int, error)  { return e.In.Read(p) }
func (e *End) Write(p []byte) (int, error) { return e.Out.Write(p) }

// Close closes both directions as seen from this end.
func (e *End) Close() error {
	e.In.CloseRead()
	e.Out.CloseWrite()
	return nil
}

// Pipe returns the two ends of an in-memory duplex connection. a.Out is
// b.In and vice versa.
func Pipe() (a, b *End) {
	ab, ba := NewStream(), NewStream()
	return &End{In: ba, Out: ab}, &End{In: ab, Out: ba}
}

// ReadCloser adapts the reading side of a stream to io.ReadCloser.
type ReadCloser struct{ S *Stream }

func (r ReadCloser) Read(p []byte) (int, error) { return r.S.Read(p) }
func (r ReadCloser) Close() error               { return r.S.CloseRead() }

// WriteCloser adapts the writing side of a stream to io.WriteCloser.
type WriteCloser struct{ S *Stream }

func (w WriteCloser) Write(p []byte) (int, error) { return w.S.Write(p) }
func (w WriteCloser) Close() error                { return w.S.CloseWrite() }

// Duplex is one object for both directions of a connection, as a net.Conn is:
// Close ends both (the peer sees the end of what was written, and its own
// writes fail from then on).
type Duplex struct {
	In  *Stream // read from
	Out *Stream // written to
}

func (d Duplex) Read(p []byte) (int, error)  { return d.In.Read(p) }
func (d Duplex) Write(p []byte) (int, error) { return d.Out.Write(p) }
func (d Duplex) Close() error {
	d.In.CloseRead()
	return d.Out.CloseWrite()
}
