package vconn

import (
	"fmt"
	"net"
	"os"
	"time"

	"golang.org/x/sys/unix"
)

// Sock is a real AF_UNIX stream socket pair. Conn is a *net.UnixConn (a
// syscall.Conn, so the vectorised recvmsg path is taken by its reader); the
// harness keeps the other end as a raw descriptor and can deliver a chunk and
// wait until the reader has drained it, which makes per-chunk delivery
// deterministic.
type Sock struct {
	Conn   *net.UnixConn
	peer   *os.File // harness end
	peerFd int
	inq    int // dup of the reader's descriptor, to poll its receive queue
	closed bool
}

// NewSock creates the pair.
func NewSock() (*Sock, error) {
	fds, err := unix.Socketpair(unix.AF_UNIX, unix.SOCK_STREAM|unix.SOCK_CLOEXEC, 0)
	if err != nil {
		return nil, err
	}
	inq, err := unix.Dup(fds[0])
	if err != nil {
		return nil, err
	}
	f0 := os.NewFile(uintptr(fds[0]), "sock-reader")
	c, err := net.FileConn(f0)
	f0.Close()
	if err != nil {
		return nil, err
	}
	uc, ok := c.(*net.UnixConn)
	if !ok {
		return nil, fmt.Errorf("vconn: not a unix conn: %T", c)
	}
	unix.SetNonblock(fds[1], true) // so that the os.File supports deadlines
	return &Sock{Conn: uc, peer: os.NewFile(uintptr(fds[1]), "sock-peer"), peerFd: fds[1], inq: inq}, nil
}

// Deliver writes one chunk and waits until the reader has taken all of it.
func (s *Sock) Deliver(chunk []byte, d time.Duration) error {
	if len(chunk) == 0 {
		return nil
	}
	if _, err := s.peer.Write(chunk); err != nil {
		return err
	}
	deadline := time.Now().Add(d)
	for {
		n, err := unix.IoctlGetInt(s.inq, unix.TIOCINQ)
		if err != nil {
			return err
		}
		if n == 0 {
			return nil
		}
		if time.Now().After(deadline) {
			return fmt.Errorf("vconn: reader did not drain %d bytes within %v", n, d)
		}
		time.Sleep(20 * time.Microsecond)
	}
}

// DeliverUntil is Deliver that gives up as soon as stopped() reports true (the
// reader has finished and will not take any more bytes). It returns false in
// that case.
func (s *Sock) DeliverUntil(chunk []byte, d time.Duration, stopped func() bool) (bool, error) {
	if len(chunk) == 0 {
		return true, nil
	}
	if stopped() {
		return false, nil
	}
	if _, err := s.peer.Write(chunk); err != nil {
		return false, nil // the reader closed its end
	}
	deadline := time.Now().Add(d)
	for {
		n, err := unix.IoctlGetInt(s.inq, unix.TIOCINQ)
		if err != nil {
			return false, err
		}
		if n == 0 {
			return true, nil
		}
		if stopped() {
			return false, nil
		}
		if time.Now().After(deadline) {
			return false, fmt.Errorf("vconn: reader did not drain %d bytes within %v", n, d)
		}
		time.Sleep(20 * time.Microsecond)
	}
}

// Write writes without waiting.
func (s *Sock) Write(b []byte) (int, error) { return s.peer.Write(b) }

// Read reads what the other side wrote to the harness end.
func (s *Sock) Read(p []byte) (int, error) { return s.peer.Read(p) }

// SetReadDeadline bounds a Read on the harness end.
func (s *Sock) SetReadDeadline(t time.Time) error { return s.peer.SetReadDeadline(t) }

// CloseWrite shuts down the harness's sending direction (the reader sees EOF).
func (s *Sock) CloseWrite() error {
	// the duplicate of the reader's descriptor would keep the reader's end
	// open after it closes its own, and the harness would never see EOF
	if s.inq >= 0 {
		unix.Close(s.inq)
		s.inq = -1
	}
	return unix.Shutdown(s.peerFd, unix.SHUT_WR)
}

// Close releases everything.
func (s *Sock) Close() {
	if s.closed {
		return
	}
	s.closed = true
	s.peer.Close()
	s.Conn.Close()
	if s.inq >= 0 {
		unix.Close(s.inq)
	}
}
