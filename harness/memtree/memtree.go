// Package memtree is a small pure in-memory file tree with POSIX-like error
// semantics. It is used twice: as the ground truth of the instrumented
// backend (memfs) and, as a separate instance, inside the reference session
// model. It knows nothing about 9P fids, locking or instrumentation.
package memtree

import (
	"sort"
)

// Errno values (Linux numbering) used by the tree.
const (
	EPERM     = 1
	ENOENT    = 2
	EIO       = 5
	EBADF     = 9
	EEXIST    = 17
	ENOTDIR   = 20
	EISDIR    = 21
	EINVAL    = 22
	ENOTEMPTY = 39
	ENODATA   = 61
)

// File types (the type bits of a 9P2000.L / Linux mode).
const (
	TSock    = 0o140000
	TSymlink = 0o120000
	TReg     = 0o100000
	TBlock   = 0o060000
	TDir     = 0o040000
	TChar    = 0o020000
	TFifo    = 0o010000
	TMask    = 0o170000
)

const pageSize = 4096

// Inode is one file object.
type Inode struct {
	ID       uint64
	Type     uint32
	Perm     uint32
	UID, GID uint32
	Nlink    int
	Size     uint64
	pages    map[uint64][]byte
	Target   string
	Children map[string]*Inode
	Xattrs   map[string][]byte
	Major    uint32
	Minor    uint32
}

// IsDir reports whether the inode is a directory.
func (i *Inode) IsDir() bool { return i.Type == TDir }

// Tree is a file tree. It is not safe for concurrent use; callers lock.
type Tree struct {
	Root   *Inode
	nextID uint64
}

// New returns a tree holding only an empty root directory (inode 1).
func New() *Tree {
	t := &Tree{nextID: 1}
	t.Root = t.newInode(TDir, 0o755, 0, 0)
	t.Root.Nlink = 2
	return t
}

func (t *Tree) newInode(typ, perm, uid, gid uint32) *Inode {
	i := &Inode{ID: t.nextID, Type: typ, Perm: perm & 0o7777, UID: uid, GID: gid, Nlink: 1}
	t.nextID++
	if typ == TDir {
		i.Children = map[string]*Inode{}
	}
	return i
}

// Resolve walks path components from the root.
func (t *Tree) Resolve(path []string) (*Inode, int) {
	cur := t.Root
	for _, n := range path {
		next, e := Lookup(cur, n)
		if e != 0 {
			return nil, e
		}
		cur = next
	}
	return cur, 0
}

// Lookup finds a child.
func Lookup(dir *Inode, name string) (*Inode, int) {
	if !dir.IsDir() {
		return nil, ENOTDIR
	}
	c, ok := dir.Children[name]
	if !ok {
		return nil, ENOENT
	}
	return c, 0
}

func (t *Tree) add(dir *Inode, name string, typ, perm, uid, gid uint32) (*Inode, int) {
	if !dir.IsDir() {
		return nil, ENOTDIR
	}
	if _, ok := dir.Children[name]; ok {
		return nil, EEXIST
	}
	i := t.newInode(typ, perm, uid, gid)
	dir.Children[name] = i
	if typ == TDir {
		i.Nlink = 2
		dir.Nlink++
	}
	return i, 0
}

// Create makes a regular file.
func (t *Tree) Create(dir *Inode, name string, perm, uid, gid uint32) (*Inode, int) {
	return t.add(dir, name, TReg, perm, uid, gid)
}

// Mkdir makes a directory.
func (t *Tree) Mkdir(dir *Inode, name string, perm, uid, gid uint32) (*Inode, int) {
	return t.add(dir, name, TDir, perm, uid, gid)
}

// Symlink makes a symbolic link.
func (t *Tree) Symlink(dir *Inode, name, target string, uid, gid uint32) (*Inode, int) {
	i, e := t.add(dir, name, TSymlink, 0o777, uid, gid)
	if e == 0 {
		i.Target = target
		i.Size = uint64(len(target))
	}
	return i, e
}

// Mknod makes a node of the type in mode (regular when no type bits are set).
func (t *Tree) Mknod(dir *Inode, name string, mode, major, minor, uid, gid uint32) (*Inode, int) {
	typ := mode & TMask
	switch typ {
	case 0:
		typ = TReg
	case TReg, TChar, TBlock, TFifo, TSock:
	default:
		return nil, EINVAL
	}
	i, e := t.add(dir, name, typ, mode&0o7777, uid, gid)
	if e == 0 {
		i.Major, i.Minor = major, minor
	}
	return i, e
}

// Link adds a hard link to target.
func (t *Tree) Link(dir *Inode, target *Inode, name string) int {
	if !dir.IsDir() {
		return ENOTDIR
	}
	if target.IsDir() {
		return EPERM
	}
	if _, ok := dir.Children[name]; ok {
		return EEXIST
	}
	dir.Children[name] = target
	target.Nlink++
	return 0
}

// Unlink removes an entry (file or empty directory; flags are ignored, as
// the local file system backend does).
func (t *Tree) Unlink(dir *Inode, name string) int {
	c, e := Lookup(dir, name)
	if e != 0 {
		return e
	}
	if c.IsDir() {
		if len(c.Children) != 0 {
			return ENOTEMPTY
		}
		dir.Nlink--
		c.Nlink = 0
	} else {
		c.Nlink--
	}
	delete(dir.Children, name)
	return 0
}

func isAncestorOrSelf(a, b *Inode) bool {
	// is a an ancestor of (or equal to) b? directories only; linear search
	if a == b {
		return true
	}
	if !a.IsDir() {
		return false
	}
	for _, c := range a.Children {
		if c.IsDir() && isAncestorOrSelf(c, b) {
			return true
		}
	}
	return false
}

// Rename moves odir/oname to ndir/nname with rename(2) semantics.
func (t *Tree) Rename(odir *Inode, oname string, ndir *Inode, nname string) int {
	src, e := Lookup(odir, oname)
	if e != 0 {
		return e
	}
	if !ndir.IsDir() {
		return ENOTDIR
	}
	if src.IsDir() && isAncestorOrSelf(src, ndir) {
		return EINVAL
	}
	dst, ok := ndir.Children[nname]
	if ok {
		if dst == src {
			return 0 // same object: nothing happens
		}
		if src.IsDir() && !dst.IsDir() {
			return ENOTDIR
		}
		if !src.IsDir() && dst.IsDir() {
			return EISDIR
		}
		if dst.IsDir() && len(dst.Children) != 0 {
			return ENOTEMPTY
		}
		if dst.IsDir() {
			ndir.Nlink--
			dst.Nlink = 0
		} else {
			dst.Nlink--
		}
		delete(ndir.Children, nname)
	}
	delete(odir.Children, oname)
	ndir.Children[nname] = src
	if src.IsDir() && odir != ndir {
		odir.Nlink--
		ndir.Nlink++
	}
	return 0
}

// Names returns the sorted entry names of a directory.
func Names(dir *Inode) []string {
	out := make([]string, 0, len(dir.Children))
	for n := range dir.Children {
		out = append(out, n)
	}
	sort.Strings(out)
	return out
}

// ReadAt reads from a regular file's sparse data. It returns the number of
// bytes available at off (0 at or after end of file).
func (i *Inode) ReadAt(p []byte, off uint64) int {
	if off >= i.Size {
		return 0
	}
	n := uint64(len(p))
	if off+n > i.Size || off+n < off {
		n = i.Size - off
	}
	for k := uint64(0); k < n; {
		pg, po := (off+k)/pageSize, (off+k)%pageSize
		chunk := pageSize - po
		if chunk > n-k {
			chunk = n - k
		}
		if page, ok := i.pages[pg]; ok {
			copy(p[k:k+chunk], page[po:po+chunk])
		} else {
			for j := k; j < k+chunk; j++ {
				p[j] = 0
			}
		}
		k += chunk
	}
	return int(n)
}

// WriteAt stores p at off, extending the file.
func (i *Inode) WriteAt(p []byte, off uint64) int {
	if len(p) == 0 {
		return 0 // a zero-length write changes nothing, not even the size
	}
	if i.pages == nil {
		i.pages = map[uint64][]byte{}
	}
	n := uint64(len(p))
	for k := uint64(0); k < n; {
		pg, po := (off+k)/pageSize, (off+k)%pageSize
		chunk := pageSize - po
		if chunk > n-k {
			chunk = n - k
		}
		page, ok := i.pages[pg]
		if !ok {
			page = make([]byte, pageSize)
			i.pages[pg] = page
		}
		copy(page[po:po+chunk], p[k:k+chunk])
		k += chunk
	}
	if off+n > i.Size {
		i.Size = off + n
	}
	return int(n)
}

// Truncate sets the size, dropping data beyond it.
func (i *Inode) Truncate(size uint64) {
	if size < i.Size {
		for pg, page := range i.pages {
			start := pg * pageSize
			if start >= size {
				delete(i.pages, pg)
			} else if start+pageSize > size {
				for j := size - start; j < pageSize; j++ {
					page[j] = 0
				}
			}
		}
	}
	i.Size = size
}

// Xattr flags (Linux).
const (
	XattrCreate  = 1
	XattrReplace = 2
)

// SetXattr sets an extended attribute.
func (i *Inode) SetXattr(name string, val []byte, flags int) int {
	_, exists := i.Xattrs[name]
	if flags&XattrCreate != 0 && exists {
		return EEXIST
	}
	if flags&XattrReplace != 0 && !exists {
		return ENODATA
	}
	if i.Xattrs == nil {
		i.Xattrs = map[string][]byte{}
	}
	i.Xattrs[name] = append([]byte(nil), val...)
	return 0
}

// GetXattr fetches an extended attribute.
func (i *Inode) GetXattr(name string) ([]byte, int) {
	v, ok := i.Xattrs[name]
	if !ok {
		return nil, ENODATA
	}
	return append([]byte(nil), v...), 0
}

// ListXattrs lists attribute names, sorted.
func (i *Inode) ListXattrs() []string {
	out := make([]string, 0, len(i.Xattrs))
	for n := range i.Xattrs {
		out = append(out, n)
	}
	sort.Strings(out)
	return out
}

// RemoveXattr removes an attribute.
func (i *Inode) RemoveXattr(name string) int {
	if _, ok := i.Xattrs[name]; !ok {
		return ENODATA
	}
	delete(i.Xattrs, name)
	return 0
}

// QIDType maps a file type to the 9P QID type byte.
func QIDType(typ uint32) uint8 {
	switch typ {
	case TDir:
		return 0x80
	case TSymlink:
		return 0x02
	}
	return 0
}

// Populate builds the small fixed tree used by several checks: all seven file
// types under the root plus a nested directory.
//
//	/d        directory (xattr user.a = "v1")
//	/d/f      regular "hello-f"
//	/d/e      directory (empty)
//	/f        regular "root-file"
//	/l        symlink -> d
//	/lf       symlink -> f
//	/p        fifo
//	/c        char device
//	/b        block device
//	/s        socket
func Populate(t *Tree) {
	d, _ := t.Mkdir(t.Root, "d", 0o755, 0, 0)
	d.SetXattr("user.a", []byte("v1"), 0)
	f, _ := t.Create(d, "f", 0o644, 0, 0)
	f.WriteAt([]byte("hello-f"), 0)
	t.Mkdir(d, "e", 0o755, 0, 0)
	rf, _ := t.Create(t.Root, "f", 0o644, 0, 0)
	rf.WriteAt([]byte("root-file"), 0)
	t.Symlink(t.Root, "l", "d", 0, 0)
	t.Symlink(t.Root, "lf", "f", 0, 0)
	t.Mknod(t.Root, "p", TFifo|0o600, 0, 0, 0, 0)
	t.Mknod(t.Root, "c", TChar|0o600, 1, 3, 0, 0)
	t.Mknod(t.Root, "b", TBlock|0o600, 8, 0, 0, 0)
	t.Mknod(t.Root, "s", TSock|0o600, 0, 0, 0, 0)
}

// AttrOf returns the 18 attribute integers (wire order) that the backend
// reports for an inode; valid mask is always all 14 bits.
func AttrOf(i *Inode) [18]uint64 {
	return [18]uint64{
		uint64(i.Type | i.Perm), uint64(i.UID), uint64(i.GID), uint64(i.Nlink),
		uint64(i.Major)<<8 | uint64(i.Minor), i.Size, 4096, (i.Size + 511) / 512,
		1, 0, 2, 0, 3, 0, 0, 0, i.ID, 1,
	}
}

// AttrValidAll is the getattr mask with all 14 defined bits.
const AttrValidAll = 0x3fff

// StatFS is what the backend reports for statfs: type bsize blocks bfree
// bavail files ffree fsid namelen.
var StatFS = [9]uint64{0x01021997, 4096, 1 << 40, 1 << 39, 1 << 38, 1 << 33, 1 << 32, 0xfeedface12345678, 255}
