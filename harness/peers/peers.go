// Package peers holds the raw T-side peer that talks to a real p9.Server
// over harness-owned streams, and the scripted fake R-side server used to
// drive a real p9.Client.
package peers

import (
	"encoding/binary"
	"errors"
	"fmt"
	"io"
	"sync"
	"time"

	"p9verif/refcodec"
	"p9verif/vconn"

	"github.com/hugelgupf/p9/p9"
)

// Session is one connection between a raw peer and Server.Handle.
type Session struct {
	Srv *p9.Server
	C2S *vconn.Stream // peer -> server
	S2C *vconn.Stream // server -> peer

	done    chan struct{}
	HErr    error
	rpos    int // bytes of S2C already parsed into frames by Recv
	mu      sync.Mutex
	nextTag uint16
}

// Start runs srv.Handle on a fresh pair of streams.
func Start(srv *p9.Server) *Session {
	s := &Session{Srv: srv, C2S: vconn.NewStream(), S2C: vconn.NewStream(), done: make(chan struct{})}
	go func() {
		// one object for both directions, as with Server.Serve and a net.Conn:
		// closing "the receiving side" closes the sending side too
		conn := vconn.Duplex{In: s.C2S, Out: s.S2C}
		s.HErr = srv.Handle(conn, conn)
		close(s.done)
	}()
	return s
}

// Send writes raw bytes to the server.
func (s *Session) Send(b []byte) {
	s.C2S.Write(b)
}

// ErrTimeout is returned when no complete reply frame arrived in time.
var ErrTimeout = errors.New("peers: timed out waiting for a reply frame")

// ErrEnded is returned when the reply stream ended.
var ErrEnded = errors.New("peers: reply stream ended")

// Recv returns the next complete frame written by the server. It never
// consumes from the stream (it reads the history), so several readers are
// not supported; use one Session per reader.
func (s *Session) Recv(d time.Duration) ([]byte, error) {
	deadline := time.Now().Add(d)
	for {
		rem := time.Until(deadline)
		if rem < 0 {
			rem = 0
		}
		if !s.S2C.WaitWritten(s.rpos+4, rem) {
			if s.ended() {
				return nil, ErrEnded
			}
			return nil, ErrTimeout
		}
		size := int(binary.LittleEndian.Uint32(s.S2C.Slice(s.rpos, s.rpos+4)))
		if size < 7 {
			return nil, fmt.Errorf("peers: server wrote a frame with size %d", size)
		}
		if s.S2C.Written() >= s.rpos+size {
			f := s.S2C.Slice(s.rpos, s.rpos+size)
			s.rpos += size
			return f, nil
		}
		if !s.S2C.WaitWritten(s.rpos+size, time.Until(deadline)) {
			if s.ended() {
				return nil, ErrEnded
			}
			return nil, ErrTimeout
		}
	}
}

func (s *Session) ended() bool {
	select {
	case <-s.done:
		return s.S2C.Written() <= s.rpos
	default:
		return false
	}
}

// Pending reports whether unparsed reply bytes exist.
func (s *Session) Pending() int { return s.S2C.Written() - s.rpos }

// RPC sends one frame and waits for one reply frame (lock-step use only).
func (s *Session) RPC(frame []byte) ([]byte, error) {
	s.Send(frame)
	return s.Recv(20 * time.Second)
}

// Call encodes m with refcodec, sends it and decodes the reply strictly.
func (s *Session) Call(m *refcodec.Msg) (*refcodec.Msg, error) {
	rep, err := s.RPC(refcodec.Encode(m))
	if err != nil {
		return nil, err
	}
	return refcodec.DecodeStrict(rep)
}

// Tag returns a fresh tag (never NOTAG).
func (s *Session) Tag() uint16 {
	s.mu.Lock()
	defer s.mu.Unlock()
	s.nextTag++
	if s.nextTag >= 0xFFFE {
		s.nextTag = 1
	}
	return s.nextTag
}

// Version negotiates msize and version string; returns the reply.
func (s *Session) Version(msize uint32, version string) (*refcodec.Msg, error) {
	return s.Call(refcodec.New(refcodec.Tversion, refcodec.NOTAG, "msize", msize, "version", version))
}

// Done returns a channel closed when Handle returned.
func (s *Session) Done() <-chan struct{} { return s.done }

// Close ends the request stream (EOF) and waits for Handle to return.
func (s *Session) Close(d time.Duration) bool {
	s.C2S.CloseWrite()
	select {
	case <-s.done:
		return true
	case <-time.After(d):
		return false
	}
}

// Returned reports whether Handle has returned.
func (s *Session) Returned() bool {
	select {
	case <-s.done:
		return true
	default:
		return false
	}
}

// ---------------------------------------------------------------------------

// ReadFrame reads one frame from r (used by fake servers and taps).
func ReadFrame(r io.Reader) ([]byte, error) {
	var hdr [4]byte
	if _, err := io.ReadFull(r, hdr[:]); err != nil {
		return nil, err
	}
	size := binary.LittleEndian.Uint32(hdr[:])
	if size < 7 || size > 64<<20 {
		return nil, fmt.Errorf("peers: bad frame size %d", size)
	}
	f := make([]byte, size)
	copy(f, hdr[:])
	if _, err := io.ReadFull(r, f[4:]); err != nil {
		return nil, err
	}
	return f, nil
}

// ---------------------------------------------------------------------------

// FrameReader parses successive frames out of a stream's history without
// consuming from it.
type FrameReader struct {
	S   *vconn.Stream
	Pos int
}

// Next returns the next complete frame or ErrTimeout.
func (r *FrameReader) Next(d time.Duration) ([]byte, error) {
	deadline := time.Now().Add(d)
	if !r.S.WaitWritten(r.Pos+4, d) {
		return nil, ErrTimeout
	}
	size := int(binary.LittleEndian.Uint32(r.S.Slice(r.Pos, r.Pos+4)))
	if size < 7 {
		return nil, fmt.Errorf("peers: frame with size %d at offset %d", size, r.Pos)
	}
	if !r.S.WaitWritten(r.Pos+size, time.Until(deadline)) {
		return nil, ErrTimeout
	}
	f := r.S.Slice(r.Pos, r.Pos+size)
	r.Pos += size
	return f, nil
}

// Fake is a scripted R-side peer for a real p9.Client.
type Fake struct {
	Client *vconn.End // hand this to p9.NewClient
	Srv    *vconn.End // the fake server's end
	In     *FrameReader
}

// NewFake returns a fake server and the connection end for the client.
func NewFake() *Fake {
	a, b := vconn.Pipe()
	return &Fake{Client: a, Srv: b, In: &FrameReader{S: b.In}}
}

// Next returns the next request frame the client wrote.
func (f *Fake) Next(d time.Duration) ([]byte, error) { return f.In.Next(d) }

// Send writes raw bytes to the client.
func (f *Fake) Send(b []byte) { f.Srv.Out.Write(b) }

// Reply encodes and sends a message.
func (f *Fake) Reply(m *refcodec.Msg) { f.Send(refcodec.Encode(m)) }

// Close ends the reply stream (the client sees EOF).
func (f *Fake) Close() { f.Srv.Close() }

// GenericReply builds a plausible success reply for any request: the matching
// R type with zero fields; reads return count zero bytes (capped by maxData),
// writes acknowledge every byte, walks return one QID per name.
func GenericReply(req *refcodec.Msg, maxData int) *refcodec.Msg {
	r := &refcodec.Msg{Type: req.Type + 1, Tag: req.Tag, F: map[string]any{}}
	switch req.Type {
	case refcodec.Tversion:
		r.F["msize"] = req.U("msize")
		r.F["version"] = req.S("version")
	case refcodec.Twalk, refcodec.Twalkgetattr:
		qs := []refcodec.QID{}
		for i := range req.Strs("wnames") {
			qs = append(qs, refcodec.QID{Path: uint64(i + 1)})
		}
		r.F["wqids"] = qs
		if req.Type == refcodec.Twalkgetattr {
			r.F["valid"] = uint64(0x3fff)
			a := refcodec.Attr{}
			a[0] = 0o40755
			r.F["attr"] = a
		}
	case refcodec.Tread:
		n := int(req.U("count"))
		if maxData >= 0 && n > maxData {
			n = maxData
		}
		r.F["data"] = make([]byte, n)
	case refcodec.Twrite:
		r.F["count"] = uint64(len(req.Bytes("data")))
	case refcodec.Treaddir:
		r.F["entries"] = []refcodec.Dirent{}
	case refcodec.Tgetattr:
		r.F["valid"] = req.U("request_mask")
		a := refcodec.Attr{}
		a[0] = 0o100644
		r.F["attr"] = a
	}
	return r
}

// Serve answers every request with fn until the stream ends or stop is
// closed. fn may return nil to stay silent.
func (f *Fake) Serve(stop <-chan struct{}, fn func(req *refcodec.Msg, raw []byte) []*refcodec.Msg) {
	for {
		select {
		case <-stop:
			return
		default:
		}
		raw, err := f.Next(50 * time.Millisecond)
		if err == ErrTimeout {
			if f.Srv.In.ReaderClosed() {
				return
			}
			continue
		}
		if err != nil {
			return
		}
		req, derr := refcodec.DecodeStrict(raw)
		if derr != nil {
			req = nil
		}
		for _, rep := range fn(req, raw) {
			f.Reply(rep)
		}
	}
}

var _ = io.EOF
var _ = sync.Mutex{}
