// Package peers holds the raw T-side peer that talks to a real p9.Server
// over harness-owned streams, and the scripted fake R-side server used to
// drive a real p9.Client.
package peers

import (
	"encoding/binary"
	"errors"
	"fmt"
	"io"
	"sync"
	"time"

	"p9verif/refcodec"
	"p9verif/vconn"

	"github.com/hugelgupf/p9/p9"
)

// Session is one connection between a raw peer and Server.Handle.
type Session struct {
	Srv *p9.Server
	C2S *vconn.Stream // peer -> server
	S2C *vconn.Stream // server -> peer

	done    chan struct{}
	HErr    error
	rpos    int // bytes of S2C already parsed into frames by Recv
	mu      sync.Mutex
	nextTag uint16
}

// Start runs srv.Handle on a fresh pair of streams.
func Start(srv *p9.Server) *Session {
	s := &Session{Srv: srv, C2S: vconn.NewStream(), S2C: vconn.NewStream(), done: make(chan struct{})}
	go func() {
		s.HErr = srv.Handle(vconn.ReadCloser{S: s.C2S}, vconn.WriteCloser{S: s.S2C})
		close(s.done)
	}()
	return s
}

// Send writes raw bytes to the server.
func (s *Session) Send(b []byte) {
	s.C2S.Write(b)
}

// ErrTimeout is returned when no complete reply frame arrived in time.
var ErrTimeout = errors.New("peers: timed out waiting for a reply frame")

// ErrEnded is returned when the reply stream ended.
var ErrEnded = errors.New("peers: reply stream ended")

// Recv returns the next complete frame written by the server. It never
// consumes from the stream (it reads the history), so several readers are
// not supported; use one Session per reader.
func (s *Session) Recv(d time.Duration) ([]byte, error) {
	deadline := time.Now().Add(d)
	for {
		rem := time.Until(deadline)
		if rem < 0 {
			rem = 0
		}
		if !s.S2C.WaitWritten(s.rpos+4, rem) {
			if s.ended() {
				return nil, ErrEnded
			}
			return nil, ErrTimeout
		}
		size := int(binary.LittleEndian.Uint32(s.S2C.Slice(s.rpos, s.rpos+4)))
		if size < 7 {
			return nil, fmt.Errorf("peers: server wrote a frame with size %d", size)
		}
		if s.S2C.Written() >= s.rpos+size {
			f := s.S2C.Slice(s.rpos, s.rpos+size)
			s.rpos += size
			return f, nil
		}
		if !s.S2C.WaitWritten(s.rpos+size, time.Until(deadline)) {
			if s.ended() {
				return nil, ErrEnded
			}
			return nil, ErrTimeout
		}
	}
}

func (s *Session) ended() bool {
	select {
	case <-s.done:
		return s.S2C.Written() <= s.rpos
	default:
		return false
	}
}

// Pending reports whether unparsed reply bytes exist.
func (s *Session) Pending() int { return s.S2C.Written() - s.rpos }

// RPC sends one frame and waits for one reply frame (lock-step use only).
func (s *Session) RPC(frame []byte) ([]byte, error) {
	s.Send(frame)
	return s.Recv(20 * time.Second)
}

// Call encodes m with refcodec, sends it and decodes the reply strictly.
func (s *Session) Call(m *refcodec.Msg) (*refcodec.Msg, error) {
	rep, err := s.RPC(refcodec.Encode(m))
	if err != nil {
		return nil, err
	}
	return refcodec.DecodeStrict(rep)
}

// Tag returns a fresh tag (never NOTAG).
func (s *Session) Tag() uint16 {
	s.mu.Lock()
	defer s.mu.Unlock()
	s.nextTag++
	if s.nextTag >= 0xFFFE {
		s.nextTag = 1
	}
	return s.nextTag
}

// Version negotiates msize and version string; returns the reply.
func (s *Session) Version(msize uint32, version string) (*refcodec.Msg, error) {
	return s.Call(refcodec.New(refcodec.Tversion, refcodec.NOTAG, "msize", msize, "version", version))
}

// Done returns a channel closed when Handle returned.
func (s *Session) Done() <-chan struct{} { return s.done }

// Close ends the request stream (EOF) and waits for Handle to return.
func (s *Session) Close(d time.Duration) bool {
	s.C2S.CloseWrite()
	select {
	case <-s.done:
		return true
	case <-time.After(d):
		return false
	}
}

// Returned reports whether Handle has returned.
func (s *Session) Returned() bool {
	select {
	case <-s.done:
		return true
	default:
		return false
	}
}

// ---------------------------------------------------------------------------

// ReadFrame reads one frame from r (used by fake servers and taps).
func ReadFrame(r io.Reader) ([]byte, error) {
	var hdr [4]byte
	if _, err := io.ReadFull(r, hdr[:]); err != nil {
		return nil, err
	}
	size := binary.LittleEndian.Uint32(hdr[:])
	if size < 7 || size > 64<<20 {
		return nil, fmt.Errorf("peers: bad frame size %d", size)
	}
	f := make([]byte, size)
	copy(f, hdr[:])
	if _, err := io.ReadFull(r, f[4:]); err != nil {
		return nil, err
	}
	return f, nil
}
